#!/bin/sh
# offline set-up: nothing to download; warm the Verus cache and check the tools are present
cd "$(dirname "$0")" || exit 1
command -v verus >/dev/null || { echo "verus not on PATH"; exit 1; }
mkdir -p build evidence replays
python3 -m vf.tool gen -u all -o build/gen.rs >/dev/null || exit 1
exit 0
