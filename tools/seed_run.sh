#!/bin/bash
# usage: seed_run.sh <seed-name> <PROP> [tier]   -- applies the seeded patch to /repo, runs the check, restores /repo
set -u
P=/verif/seeded/$1/patch.diff
git -C /repo diff --quiet || { echo "/repo not clean"; exit 9; }
git -C /repo apply $P || exit 9
/verif/check $2 --tier ${3:-quick} > /tmp/seed_run.out 2>/tmp/seed_run.err; RC=$?
git -C /repo checkout -- . 
head -6 /tmp/seed_run.out | cut -c1-400
echo "check exit=$RC"
