import json,glob,os,subprocess,sys,shutil,concurrent.futures,time
seeds={}
for f in sorted(glob.glob('/verif/seeded/*/meta.json')):
    m=json.load(open(f)); name=f.split('/')[-2]
    seeds.setdefault(m['property'].split()[0],[]).append(name)
def run_group(pid):
    out=[]
    for name in seeds[pid]:
        d='/tmp/sr/%s'%name
        shutil.rmtree(d,ignore_errors=True); os.makedirs(d)
        shutil.copytree('/repo/src', d+'/src')
        for f in ('Cargo.toml','Cargo.lock','build.rs'): shutil.copy('/repo/'+f, d)
        p=subprocess.run(['git','apply','--directory='+d.lstrip('/'),'--unsafe-paths','/verif/seeded/%s/patch.diff'%name],cwd='/',capture_output=True,text=True)
        if p.returncode!=0:
            p=subprocess.run(['patch','-p1','-d',d,'-i','/verif/seeded/%s/patch.diff'%name],capture_output=True,text=True)
        if p.returncode!=0:
            out.append((name,pid,'PATCH-FAILED',p.stderr[:200])); continue
        t0=time.time()
        r=subprocess.run(['/verif/check',pid],env=dict(os.environ,VERIF_REPO=d),capture_output=True,text=True)
        first=[l for l in r.stdout.split('\n') if l.startswith(('VIOLATION','OK','UNDECIDED'))]
        obl=[l.strip() for l in r.stdout.split('\n') if l.strip().startswith('obligation:')]
        out.append((name,pid,r.returncode,(first[0] if first else '')[:60],(obl[0] if obl else '')[:150],round(time.time()-t0)))
        shutil.rmtree(d,ignore_errors=True)
        print(out[-1],flush=True)
    return out
groups=[g for g in sorted(seeds) if g!='C05']
with concurrent.futures.ThreadPoolExecutor(max_workers=4) as ex:
    res=list(ex.map(run_group,groups))
res.append(run_group('C05'))
json.dump(res,open('/verif/build/seed_regress.json','w'),indent=1)
