#!/bin/bash
# usage: seed_confirm.sh <worktree-id e.g. C08a> <seed-name e.g. C08-div-tie>
# confirms a sub-agent's seeded change in its scratch worktree and stores it under /verif/seeded/<seed-name>/
set -u
WT=/tmp/seed/$1; NAME=$2; OUT=/verif/seeded/$NAME
[ -f $WT/OUT/patch.diff ] || { echo "no patch"; exit 1; }
mkdir -p $OUT; cp $WT/OUT/patch.diff $OUT/patch.diff; cp $WT/OUT/seeded_demo.rs $OUT/seeded_demo.rs; cp $WT/OUT/notes.md $OUT/agent_notes.md 2>/dev/null
cd $WT; git checkout -q -- src; git stash list >/dev/null; rm -f tests/seeded_demo.rs
mkdir -p tests; cp $OUT/seeded_demo.rs tests/seeded_demo.rs
R1=$(cargo test --offline --test seeded_demo 2>&1 | grep "^test result" | tail -1)
git apply $OUT/patch.diff || { echo "patch does not apply"; exit 1; }
R2=$(cargo test --offline --test seeded_demo 2>&1 | grep "^test result" | tail -1)
mv tests/seeded_demo.rs /tmp/seed/$1.demo.rs
R3=$(cargo test --offline 2>&1 | grep "^test result" | tr '\n' ';')
# does the patch apply to /repo as it is?
git -C /repo apply --check $OUT/patch.diff && AP=yes || AP=no
echo "demo without change: $R1"; echo "demo with change:    $R2"; echo "suite with change:    $R3"; echo "applies to /repo: $AP"
python3 - "$NAME" "$R1" "$R2" "$R3" "$AP" <<'PY'
import json,sys,os
name,r1,r2,r3,ap=sys.argv[1:6]
p='/verif/seeded/%s/meta.json'%name
m=json.load(open(p)) if os.path.exists(p) else {}
m.update(dict(confirmed=dict(demo_without_change=r1, demo_with_change=r2, suite_with_change=r3, applies_to_repo=ap,
   commands=['cargo test --offline --test seeded_demo (without patch)','git apply patch.diff; cargo test --offline --test seeded_demo','cargo test --offline (with patch, demo moved aside)'])))
json.dump(m,open(p,'w'),indent=1)
PY
