import subprocess,os,shutil,sys
name,pid=sys.argv[1],sys.argv[2]
d='/tmp/sr/%s'%name
shutil.rmtree(d,ignore_errors=True); os.makedirs(d)
shutil.copytree('/repo/src', d+'/src')
for f in ('Cargo.toml','Cargo.lock','build.rs'): shutil.copy('/repo/'+f, d)
p=subprocess.run(['patch','-p1','-s','-d',d,'-i','/verif/seeded/%s/patch.diff'%name],capture_output=True,text=True)
if p.returncode: print('PATCH FAILED',p.stdout); sys.exit(9)
r=subprocess.run(['/verif/check',pid],env=dict(os.environ,VERIF_REPO=d),capture_output=True,text=True)
lines=[l for l in r.stdout.split('\n') if l.startswith(('VIOLATION','OK','UNDECIDED')) or l.strip().startswith('obligation:')]
print(name,pid,'exit',r.returncode)
for l in lines[:4]: print('   ',l[:260])
shutil.rmtree(d,ignore_errors=True)
