import subprocess,os,shutil,sys,json
todo=[('B01','C06'),('B02','C08'),('B03','C02'),('B04','C16'),('B05','C10'),('B05','C11'),('B06','C14'),('B07','C15'),('B08','C07'),('B08','C18'),('B09','C08'),('B09','C09'),('B10','C01'),
      ('B11','C16'),('B12','C16'),('B12','C20'),('B13','C10'),('B13','C11'),('B14','C14'),('B15','C01'),('B15','C19'),('B16','C20'),('B16','C18'),('B16','C07'),('B16','C06'),
      ('B17','C09'),('B17','C01'),('B18','C02'),('B19','C12'),('B19','C08'),('B20','C18'),('B20','C15'),
      ('B21','C06'),('B22','C01'),('B22','C19'),('B23','C07'),('B23','C06'),('B24','C15'),('B25','C18'),('B25','C01'),('B26','C11'),('B26','C10'),('B26','C12'),('B26','C20'),
      ('B27','C14'),('B28','C02'),('B29','C16'),('B29','C20'),('B30','C08'),('B30','C01')]
if len(sys.argv)>1: todo=[t for t in todo if t[0] in sys.argv[1:]]
res=[]
for name,pid in todo:
    d='/tmp/sr/%s'%name
    shutil.rmtree(d,ignore_errors=True); os.makedirs(d)
    shutil.copytree('/repo/src', d+'/src')
    for f in ('Cargo.toml','Cargo.lock','build.rs'): shutil.copy('/repo/'+f, d)
    p=subprocess.run(['patch','-p1','-s','-d',d,'-i','/verif/benign/%s/patch.diff'%name],capture_output=True,text=True)
    if p.returncode: print(name,'PATCH FAILED',p.stdout[-300:]); continue
    r=subprocess.run(['/verif/check',pid],env=dict(os.environ,VERIF_REPO=d),capture_output=True,text=True)
    lines=[l for l in r.stdout.split('\n') if l.startswith(('VIOLATION','OK','UNDECIDED')) or l.strip().startswith('obligation:')]
    print(name,pid,'exit',r.returncode,flush=True)
    for l in lines[:6]: print('    ',l[:230],flush=True)
    res.append((name,pid,r.returncode,lines[:6]))
    shutil.rmtree(d,ignore_errors=True)
json.dump(res,open('/verif/build/benign_results.json','w'),indent=1)
