import subprocess,os,shutil,sys,json
todo=[('B01','C06'),('B02','C08'),('B03','C02'),('B04','C16'),('B05','C10'),('B05','C11'),('B06','C14'),('B07','C15'),('B08','C07'),('B08','C18'),('B09','C08'),('B09','C09'),('B10','C01')]
if len(sys.argv)>1: todo=[t for t in todo if t[0] in sys.argv[1:]]
res=[]
for name,pid in todo:
    d='/tmp/sr/%s'%name
    shutil.rmtree(d,ignore_errors=True); os.makedirs(d)
    shutil.copytree('/repo/src', d+'/src')
    for f in ('Cargo.toml','Cargo.lock','build.rs'): shutil.copy('/repo/'+f, d)
    p=subprocess.run(['patch','-p1','-s','-d',d,'-i','/verif/benign/%s/patch.diff'%name],capture_output=True,text=True)
    if p.returncode: print(name,'PATCH FAILED',p.stdout[-300:]); continue
    r=subprocess.run(['/verif/check',pid],env=dict(os.environ,VERIF_REPO=d),capture_output=True,text=True)
    lines=[l for l in r.stdout.split('\n') if l.startswith(('VIOLATION','OK','UNDECIDED')) or l.strip().startswith('obligation:')]
    print(name,pid,'exit',r.returncode,flush=True)
    for l in lines[:6]: print('    ',l[:230],flush=True)
    res.append((name,pid,r.returncode,lines[:6]))
    shutil.rmtree(d,ignore_errors=True)
json.dump(res,open('/verif/build/benign_results.json','w'),indent=1)
