#!/bin/bash
# usage: tools/mut_quick.sh <property> <file under src> <python-regex> <replacement>   -- one-off mutation on a scratch copy
set -e
pid=$1; file=$2; pat=$3; rep=$4
d=/tmp/sr/mq-$$
rm -rf $d; mkdir -p $d; cp -r /repo/src $d/src; cp /repo/Cargo.toml /repo/Cargo.lock /repo/build.rs $d/
python3 - "$d/src/$file" "$pat" "$rep" <<'PY'
import re,sys
p,pat,rep=sys.argv[1:4]
s=open(p).read()
t,n=re.subn(pat,rep,s,count=1,flags=re.S)
assert n==1, 'pattern not found'
open(p,'w').write(t)
PY
diff -u /repo/src/$file $d/src/$file | head -20 || true
VERIF_REPO=$d /verif/check $pid 2>&1 | grep "^VIOLATION\|^OK\|^UNDECIDED\|obligation:" | cut -c1-220 | head -6
echo "exit ${PIPESTATUS[0]}"
rm -rf $d
