#!/bin/bash
# runs every registered quick check (refreshing the evidence files) and prints a summary
cd /verif
for p in $(python3 -c "from vf import props; print(' '.join(sorted(props.PROPS)))"); do
  ./check $p --tier ${1:-quick} 2>/dev/null | grep -v "^  obligation" | head -12
done
