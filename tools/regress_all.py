#!/usr/bin/env python3
"""Re-run every seeded change (expected: exit 1, or its recorded exit) and every benign refactoring (expected: exit 0)
on scratch copies through VERIF_REPO, grouped by property so that two runs never share a build file; 5 groups at a time."""
import json,glob,os,subprocess,sys,shutil,concurrent.futures,time,re
sys.path.insert(0,'/verif/tools')
jobs={}
for f in sorted(glob.glob('/verif/seeded/*/meta.json')):
    m=json.load(open(f)); name=f.split('/')[-2]
    jobs.setdefault(m['property'].split()[0],[]).append(('seed',name,'/verif/seeded/%s/patch.diff'%name))
src=open('/verif/tools/benign_run.py').read()
for b,pid in re.findall(r"\('(B\d+)','(C\d+)'\)",src):
    jobs.setdefault(pid,[]).append(('benign',b,'/verif/benign/%s/patch.diff'%b))
def run_group(pid):
    out=[]
    for kind,name,patch in jobs[pid]:
        d='/tmp/sr/%s-%s'%(name,pid)
        shutil.rmtree(d,ignore_errors=True); os.makedirs(d)
        shutil.copytree('/repo/src', d+'/src')
        for f in ('Cargo.toml','Cargo.lock','build.rs'): shutil.copy('/repo/'+f, d)
        p=subprocess.run(['patch','-p1','-s','-d',d,'-i',patch],capture_output=True,text=True)
        if p.returncode!=0:
            out.append((kind,name,pid,'PATCH-FAILED')); print(out[-1],flush=True); continue
        t0=time.time()
        r=subprocess.run(['/verif/check',pid],env=dict(os.environ,VERIF_REPO=d),capture_output=True,text=True)
        obl=[l.strip() for l in r.stdout.split('\n') if l.strip().startswith('obligation:')]
        out.append((kind,name,pid,r.returncode,(obl[0] if obl else '')[:140],round(time.time()-t0)))
        shutil.rmtree(d,ignore_errors=True)
        print(out[-1],flush=True)
    return out
groups=[g for g in sorted(jobs) if g!='C05']
with concurrent.futures.ThreadPoolExecutor(max_workers=5) as ex:
    res=list(ex.map(run_group,groups))
if 'C05' in jobs and '--no-c05' not in sys.argv: res.append(run_group('C05'))
flat=[x for g in res for x in g]
json.dump(flat,open('/verif/build/regress_all.json','w'),indent=1)
bad_b=[x for x in flat if x[0]=='benign' and x[3]!=0]
seeds=[x for x in flat if x[0]=='seed']
print('benign: %d runs, %d not exit 0: %s'%(len([x for x in flat if x[0]=='benign']),len(bad_b),[(x[1],x[2],x[3]) for x in bad_b]))
import collections
print('seeds:',collections.Counter(x[3] for x in seeds),'not caught:',[(x[1],x[3]) for x in seeds if x[3]!=1])
