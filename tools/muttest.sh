#!/bin/sh
# usage: muttest.sh <PROP> <file-under-src> <sed-expr>   -- applies the sed to a scratch copy and runs the check
rm -rf /tmp/mut && mkdir -p /tmp/mut && cp -r /repo/src /tmp/mut/src
sed -i "$3" /tmp/mut/src/$2
if diff -q /repo/src/$2 /tmp/mut/src/$2 >/dev/null; then echo "MUTATION DID NOT APPLY"; exit 3; fi
diff /repo/src/$2 /tmp/mut/src/$2 | head -6
VERIF_REPO=/tmp/mut /verif/check $1 | head -5
echo "exit=$?"
