import subprocess,os,shutil,re,json,sys
# (name, property, file, old, new)  -- each is a small semantics-preserving edit
E=[
 ('s01','C06','lib.rs','if rounded_digit < 10 {','if 10 > rounded_digit {'),
 ('s02','C06','lib.rs','let scale_diff = new_scale - self.scale;\n                let int_val = &self.int_val * ten_to_the(scale_diff as u64);','let scale_diff = (new_scale - self.scale) as u64;\n                let int_val = &self.int_val * ten_to_the(scale_diff);'),
 ('s03','C08','lib.rs','    while num < *den {','    while *den > num {'),
 ('s04','C08','lib.rs','    if remainder.is_zero() {\n        return BigDecimal {','    if remainder.is_zero() == true {\n        return BigDecimal {'),
 ('s05','C02','impl_cmp.rs','                    if next_a != true_b {','                    if !(next_a == true_b) {'),
 ('s06','C02','impl_cmp.rs','    if trailing_zero_count < 20 {','    if trailing_zero_count <= 19 {'),
 ('s07','C16','impl_fmt.rs','    if target_scale < scale {\n        let digit_count_to_remove','    if scale > target_scale {\n        let digit_count_to_remove'),
 ('s08','C16','impl_fmt.rs','    if target_scale != 0 {\n        // there are both','    if target_scale > 0 {\n        // there are both'),
 ('s09','C14','parsing.rs','    let pow = exp as i64 - 127 - 23;','    let pow = exp as i64 - 150;'),
 ('s10','C14','parsing.rs','    let scale = 149;','    let scale = 100 + 49;'),
 ('s11','C15','lib.rs','        if self.scale <= 0 {\n            true','        if 0 >= self.scale {\n            true'),
 ('s12','C09','impl_ops_rem.rs','        let scale = cmp::max(self.scale, other.scale);','        let scale = cmp::max(other.scale, self.scale);'),
 ('s13','C11','arithmetic/cbrt.rs','    let extra_rounding_digit_count = 4;\n\n    // required number of digits for precision and rounding\n    let required_precision = precision.get() + extra_rounding_digit_count;','    let extra_rounding_digit_count = 4;\n\n    // required number of digits for precision and rounding\n    let required_precision = extra_rounding_digit_count + precision.get();'),
 ('s14','C10','arithmetic/sqrt.rs','    let wanted_digits = 2 * (prec + extra_rounding_digit_count);','    let wanted_digits = (prec + extra_rounding_digit_count) * 2;'),
 ('s15','C01','arithmetic/addition.rs', None, None),
 ('s16','C07','lib.rs','        let digit_count = self.digits();\n        let new_prec','        let digit_count: u64 = self.digits();\n        let new_prec'),
 ('s17','C18','lib.rs','        if self == &BigDecimal::zero() {\n            return BigDecimal::zero();\n        }','        if &BigDecimal::zero() == self {\n            return BigDecimal::zero();\n        }'),
 ('s18','C20','impl_fmt.rs','    if f.precision().is_none() && leading_zero_threshold < leading_zero_count {','    if leading_zero_threshold < leading_zero_count && f.precision().is_none() {'),
]
res=[]
for name,pid,f,old,new in E:
    if old is None: continue
    src=open('/repo/src/'+f).read()
    if src.count(old)!=1:
        print(name,'PATTERN count',src.count(old)); continue
    d='/tmp/sr/'+name
    shutil.rmtree(d,ignore_errors=True); os.makedirs(d)
    shutil.copytree('/repo/src', d+'/src')
    for g in ('Cargo.toml','Cargo.lock','build.rs'): shutil.copy('/repo/'+g, d)
    open(d+'/src/'+f,'w').write(src.replace(old,new))
    b=subprocess.run(['cargo','build','--offline'],cwd=d,env=dict(os.environ,CARGO_TARGET_DIR='/tmp/p/repo2-target'),capture_output=True,text=True)
    if b.returncode: print(name,'DOES NOT COMPILE',b.stderr[-300:]); shutil.rmtree(d); continue
    r=subprocess.run(['/verif/check',pid],env=dict(os.environ,VERIF_REPO=d),capture_output=True,text=True)
    lines=[l for l in r.stdout.split('\n') if l.startswith(('VIOLATION','OK','UNDECIDED')) or l.strip().startswith('obligation:')]
    print(name,pid,'exit',r.returncode,(lines[1] if len(lines)>1 and r.returncode else lines[0] if lines else '')[:200],flush=True)
    res.append((name,pid,r.returncode))
    shutil.rmtree(d,ignore_errors=True)
json.dump(res,open('/verif/build/small_benign.json','w'))
