#!/usr/bin/env python3
"""Authoring aid (not part of any check): turns the skeleton of operator impls into contract
entries with the standard SpecImpl block and value postcondition.  Output is reviewed,
completed with proof hints by hand and committed under contracts/.
usage: mk_ops_contracts.py <file.rs> [substring]   (run from /verif)
"""
import re
import sys
sys.path.insert(0, '.')
from vf import gen
from vf.items import scan_items, parse_macro_rules
from vf.lex import norm

OPS = {'Add': ('add', 'sum'), 'Sub': ('sub', 'diff'), 'Mul': ('mul', 'prod'),
       'AddAssign': ('add_assign', 'sum'), 'SubAssign': ('sub_assign', 'diff'), 'MulAssign': ('mul_assign', 'prod')}


def operand(ty, name, generic_params):
    """-> (i_expr, s_expr, req list)"""
    t = ty.replace(' ', '')
    base = re.sub(r"^&('[a-z_]+)?", '', t)
    if base in generic_params:
        return ('into_ref(%s).i()' % name, 'into_ref(%s).s()' % name, ['into_ok(%s)' % name, 'sb(into_ref(%s).s())' % name])
    if base.startswith('BigDecimalRef') or base == 'BigDecimal' or base == 'Self':
        return ('%s.i()' % name, '%s.s()' % name, ['sb(%s.s())' % name])
    if base == 'BigInt':
        return ('%s@' % name, '0', [])
    if base == '$t':
        return ('%s.pv()' % name, '0', [])
    raise SystemExit('unknown operand type ' + ty)


def mk(header, body_text, kind_hint=''):
    m = re.match(r"^impl\s*(<(?P<gen>.*?)>)?\s*(?P<tr>\w+)\s*<(?P<rhs>.*)>\s+for\s+(?P<lhs>.+?)\s*(where .*)?$", header, re.S)
    if not m:
        # e.g. Neg
        return None
    tr = m.group('tr')
    if tr not in OPS:
        return None
    meth, rel = OPS[tr]
    gens = m.group('gen') or ''
    gparams = [g.split(':')[0].strip() for g in re.split(r',(?![^<]*>)', gens) if g.strip() and not g.strip().startswith("'")]
    rhs_ty, lhs_ty = m.group('rhs').strip(), m.group('lhs').strip()
    assign = tr.endswith('Assign')
    rname = re.search(r'fn\s+%s\s*\(\s*(?:mut\s+)?(?:&mut\s+)?self\s*,\s*(?:mut\s+)?(\w+)\s*:' % meth, body_text).group(1)
    if assign:
        li, ls, lreq = 'old(self).i()', 'old(self).s()', ['sb(old(self).s())']
        li_req, ls_req = 'self.i()', 'self.s()'
        ri, rs, rreq = operand(rhs_ty, rname, gparams)
        res_i, res_s = 'final(self).i()', 'final(self).s()'
    else:
        li, ls, lreq = operand(lhs_ty, 'self', gparams)
        li_req, ls_req = li, ls
        ri, rs, rreq = operand(rhs_ty, rname, gparams)
        res_i, res_s = 'ret.i()', 'ret.s()'
    def fix_lt(t):
        return t.replace("'_", "'x")
    # SpecImpl generics: reuse header generics, name anonymous lifetimes
    gen_txt = gens
    n_anon = header.count("'_") + len(re.findall(r'&(?!\')', lhs_ty + ' ' + rhs_ty))
    spec_l, spec_r = lhs_ty, rhs_ty
    extra_lts = []
    def name_anon(t, pref):
        k = 0
        out = ''
        i = 0
        while i < len(t):
            if t.startswith("'_", i):
                lt = "'%s%d" % (pref, k); k += 1
                extra_lts.append(lt)
                out += lt
                i += 2
            elif t[i] == '&' and not t.startswith("&'", i):
                lt = "'%s%d" % (pref, k); k += 1
                extra_lts.append(lt)
                out += '&' + lt + ' '
                i += 1
            else:
                out += t[i]
                i += 1
        return out
    spec_l = name_anon(lhs_ty, 'l')
    spec_r = name_anon(rhs_ty, 'r')
    all_g = ', '.join(extra_lts + ([gens] if gens else []))
    # lifetimes first
    parts = [p.strip() for p in re.split(r',(?![^<]*>)', all_g) if p.strip()]
    parts = [p for p in parts if p.startswith("'")] + [p for p in parts if not p.startswith("'")]
    g = '<%s>' % ', '.join(parts) if parts else ''
    req_self = [x.replace('old(self)', 'self') for x in lreq]
    req = ' && '.join(req_self + rreq) or 'true'
    self_param = '&self' if assign else 'self'
    out_ty = ('&' + spec_l) if assign else 'BigDecimal'
    spec = '''//@{
impl%(g)s %(tr)sSpecImpl<%(spec_r)s> for %(spec_l)s {
    open spec fn obeys_%(meth)s_spec() -> bool { false }
    open spec fn %(meth)s_req(%(self_param)s, %(rname)s: %(spec_r)s) -> bool { %(req)s }
    open spec fn %(meth)s_spec(%(self_param)s, %(rname)s: %(spec_r)s) -> %(out_ty)s { arbitrary() }
}
//@}''' % locals()
    if rel == 'sum':
        ens = 'is_sum(%s, %s, %s, %s, %s, %s)' % (res_i, res_s, li, ls, ri, rs)
        bound = 'imin(%s, %s) <= %s <= imax(%s, %s)' % (ls, rs, res_s, ls, rs)
    elif rel == 'diff':
        ens = 'is_diff(%s, %s, %s, %s, %s, %s)' % (res_i, res_s, li, ls, ri, rs)
        bound = 'imin(%s, %s) <= %s <= imax(%s, %s)' % (ls, rs, res_s, ls, rs)
    else:
        ens = 'is_prod(%s, %s, %s, %s, %s, %s)' % (res_i, res_s, li, ls, ri, rs)
        bound = 'mul_scale_ok(%s, %s, %s)' % (res_s, ls, rs)
    ens_txt = '    //@ ensures %s, %s' % (ens, bound)
    # splice ensures after the signature of fn meth
    lines = body_text.split('\n')
    out = []
    done = False
    for ln in lines:
        if not done and re.search(r'\bfn\s+%s\b' % meth, ln):
            # signature assumed on one line ending with '{' possibly followed by R1 text
            idx = ln.index('{') if '{' in ln else None
            if idx is not None:
                out.append(ln[:idx].rstrip())
                out.append(ens_txt)
                out.append('    ' + ln[idx:])
            else:
                out.append(ln)
                out.append(ens_txt)
            done = True
        else:
            out.append(ln)
    return spec + '\n' + '\n'.join(out)


def main():
    f = sys.argv[1]
    pat = sys.argv[2] if len(sys.argv) > 2 else ''
    repo = gen.Repo()
    sf = repo.file(f)
    for it in sf.items:
        if not it.active() or it.is_test():
            continue
        if it.kind == 'impl':
            hdr = ' '.join(''.join(t.text for t in sf.toks[it.first:it.body_lo]).split())
            if pat and pat not in hdr:
                continue
            e = gen.Entry(); e.file, e.locator = f, hdr
            L = repo.locate(e)[0]
            body = gen.normalize_item(L.text, {})
            r = mk(hdr, body)
            if r is None:
                continue
            print('//@@ item %s :: %s' % (f, hdr))
            mg = re.match(r"^impl\s*<(.*?)>\s*\w+\s*<", hdr)
            if mg:
                for gp in re.split(r',(?![^<]*>)', mg.group(1)):
                    gp = gp.strip()
                    if ':' in gp and 'Into' in gp:
                        print("//@@ inst %s = BigDecimalRef<'a> | &'a BigDecimal | &'a BigInt" % gp.split(':')[0].strip())
            print(r)
            print('//@@ end\n')
        elif it.kind == 'macro_rules':
            arms = parse_macro_rules(it)
            for k, arm in enumerate(arms):
                subs = scan_items(arm.body, 0, len(arm.body))
                seen = {}
                for sub in subs:
                    if sub.kind != 'impl':
                        continue
                    hdr = ' '.join(''.join(t.text for t in arm.body[sub.first:sub.body_lo]).split())
                    n = seen.get(hdr, 0); seen[hdr] = n + 1
                    if pat and pat not in it.name:
                        continue
                    e = gen.Entry(); e.file = f
                    e.locator = 'macro %s arm %d :: %s%s' % (it.name, k, hdr, ('#%d' % n) if n else '')
                    try:
                        L = repo.locate(e)[0]
                    except gen.GenError as ex:
                        print('// SKIP', e.locator, ex); continue
                    body = gen.normalize_item(L.text, {})
                    r = mk(hdr, body)
                    if r is None:
                        print('// NO-RULE', e.locator)
                        continue
                    print('//@@ item %s :: %s' % (f, e.locator))
                    print(r)
                    print('//@@ end\n')


main()
