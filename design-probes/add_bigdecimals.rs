use vstd::prelude::*;
use vstd::arithmetic::power::*;
use vstd::arithmetic::mul::*;
use core::cmp::Ordering;
verus! {

pub open spec fn pow10(n: int) -> int { if n <= 0 { 1 } else { pow(10, n as nat) } }

pub proof fn lemma_pow10_add(a: int, b: int)
    requires a >= 0, b >= 0
    ensures pow10(a + b) == pow10(a) * pow10(b), pow10(a) > 0, pow10(b) > 0
{
    lemma_pow_adds(10, a as nat, b as nat);
    lemma_pow_positive(10, a as nat);
    lemma_pow_positive(10, b as nat);
}

/// (i1, s1) and (i2, s2) denote the same rational  i * 10^-s
pub proof fn lemma_pow10_pos(a: int)
    ensures pow10(a) > 0
{
    if a > 0 { lemma_pow_positive(10, a as nat); }
}
pub open spec fn same_val(i1: int, s1: int, i2: int, s2: int) -> bool {
    let m = if s1 >= s2 { s1 } else { s2 };
    i1 * pow10(m - s1) == i2 * pow10(m - s2)
}
pub open spec fn max3(a: int, b: int, c: int) -> int { let m = if a >= b { a } else { b }; if m >= c { m } else { c } }
/// r == a + b as rationals
pub open spec fn is_sum(ri: int, rs: int, ai: int, as_: int, bi: int, bs: int) -> bool {
    let m = max3(rs, as_, bs);
    ri * pow10(m - rs) == ai * pow10(m - as_) + bi * pow10(m - bs)
}

#[verifier::external_body]
pub struct BigInt { inner: Vec<u32> }
impl View for BigInt { type V = int; uninterp spec fn view(&self) -> int; }
pub trait Zero: Sized {
    spec fn is_zero_spec(&self) -> bool;
    fn is_zero(&self) -> (r: bool) ensures r == self.is_zero_spec();
}
impl Zero for BigInt {
    open spec fn is_zero_spec(&self) -> bool { self@ == 0 }
    #[verifier::external_body]
    fn is_zero(&self) -> (r: bool) { unimplemented!() }
}
impl BigInt {
    #[verifier::external_body]
    pub fn bits(&self) -> (r: u64) { unimplemented!() }
}
pub open spec fn tdiv(a: int, b: int) -> int {
    if a >= 0 { if b > 0 { a / b } else { -(a / (-b)) } } else { if b > 0 { -((-a) / b) } else { (-a) / (-b) } }
}
macro_rules! assign_op_shim {
    ($Tr:ident, $SpecTr:ident, $m:ident, $obeys:ident, $req:ident, $spec:ident, $Rhs:ty, $rhsv:expr, $pre:expr, $post:expr) => { verus!{
        impl vstd::std_specs::ops::$SpecTr<$Rhs> for BigInt {
            open spec fn $obeys() -> bool { false }
            open spec fn $req(self, rhs: $Rhs) -> bool { true }
            open spec fn $spec(self, rhs: $Rhs) -> BigInt { arbitrary() }
        }
    }};
}
impl vstd::std_specs::ops::MulAssignSpecImpl<u64> for BigInt {
    open spec fn obeys_mul_assign_spec() -> bool { false }
    open spec fn mul_assign_req(self, rhs: u64) -> bool { true }
    open spec fn mul_assign_spec(self, rhs: u64) -> BigInt { arbitrary() }
}
impl core::ops::MulAssign<u64> for BigInt {
    #[verifier::external_body]
    fn mul_assign(&mut self, rhs: u64) ensures final(self)@ == old(self)@ * rhs { unimplemented!() }
}
impl vstd::std_specs::ops::MulAssignSpecImpl<BigInt> for BigInt {
    open spec fn obeys_mul_assign_spec() -> bool { false }
    open spec fn mul_assign_req(self, rhs: BigInt) -> bool { true }
    open spec fn mul_assign_spec(self, rhs: BigInt) -> BigInt { arbitrary() }
}
impl core::ops::MulAssign<BigInt> for BigInt {
    #[verifier::external_body]
    fn mul_assign(&mut self, rhs: BigInt) ensures final(self)@ == old(self)@ * rhs@ { unimplemented!() }
}
impl vstd::std_specs::ops::AddAssignSpecImpl<BigInt> for BigInt {
    open spec fn obeys_add_assign_spec() -> bool { false }
    open spec fn add_assign_req(self, rhs: BigInt) -> bool { true }
    open spec fn add_assign_spec(self, rhs: BigInt) -> BigInt { arbitrary() }
}
impl core::ops::AddAssign<BigInt> for BigInt {
    #[verifier::external_body]
    fn add_assign(&mut self, rhs: BigInt) ensures final(self)@ == old(self)@ + rhs@ { unimplemented!() }
}
impl vstd::std_specs::ops::DivAssignSpecImpl<u64> for BigInt {
    open spec fn obeys_div_assign_spec() -> bool { false }
    open spec fn div_assign_req(self, rhs: u64) -> bool { rhs != 0 }
    open spec fn div_assign_spec(self, rhs: u64) -> BigInt { arbitrary() }
}
impl core::ops::DivAssign<u64> for BigInt {
    #[verifier::external_body]
    fn div_assign(&mut self, rhs: u64) ensures final(self)@ == tdiv(old(self)@, rhs as int) { unimplemented!() }
}
impl vstd::std_specs::ops::DivAssignSpecImpl<BigInt> for BigInt {
    open spec fn obeys_div_assign_spec() -> bool { false }
    open spec fn div_assign_req(self, rhs: BigInt) -> bool { rhs@ != 0 }
    open spec fn div_assign_spec(self, rhs: BigInt) -> BigInt { arbitrary() }
}
impl core::ops::DivAssign<BigInt> for BigInt {
    #[verifier::external_body]
    fn div_assign(&mut self, rhs: BigInt) ensures final(self)@ == tdiv(old(self)@, rhs@) { unimplemented!() }
}

#[verifier::external_body]
pub(crate) fn ten_to_the(pow: u64) -> (r: BigInt) ensures r@ == pow10(pow as int) { unimplemented!() }
#[verifier::external_body]
pub(crate) fn ten_to_the_u64(pow: u8) -> (r: u64) requires pow < 20 ensures r == pow10(pow as int) { unimplemented!() }
#[verifier::external_body]
pub(crate) fn diff(a: i64, b: i64) -> (r: (Ordering, u64)) 
    requires -0x4000_0000_0000_0000 <= a - b <= 0x4000_0000_0000_0000
    ensures a < b ==> r.0 == Ordering::Less && r.1 == b - a,
            a > b ==> r.0 == Ordering::Greater && r.1 == a - b,
            a == b ==> r.0 == Ordering::Equal && r.1 == 0
{ unimplemented!() }

pub spec const SCALE_BOUND: int = 0x2000_0000_0000_0000;

// ---------------- real code
pub struct BigDecimal {
    int_val: BigInt,
    // A positive scale means a negative power of 10
    scale: i64,
}

impl BigDecimal {
    pub closed spec fn i(&self) -> int { self.int_val@ }
    pub closed spec fn s(&self) -> int { self.scale as int }
    pub open spec fn bounded(&self) -> bool { -SCALE_BOUND <= self.s() <= SCALE_BOUND }

    /// Change to requested scale by multiplying or truncating
    fn set_scale(&mut self, new_scale: i64) 
        requires old(self).bounded(), -SCALE_BOUND <= new_scale <= SCALE_BOUND
        ensures final(self).s() == new_scale,
            new_scale >= old(self).s() ==> final(self).i() == old(self).i() * pow10(new_scale - old(self).s()),
            new_scale < old(self).s() ==> final(self).i() == tdiv(old(self).i(), pow10(old(self).s() - new_scale)),
    {
        proof { lemma_pow10_pos(old(self).s() - new_scale); lemma_pow10_pos(new_scale - old(self).s()); }
        if self.int_val.is_zero() {
            self.scale = new_scale;
            return;
        }

        match diff(new_scale, self.scale) {
            (Ordering::Greater, scale_diff) => {
                self.scale = new_scale;
                if scale_diff < 20 {
                    self.int_val *= ten_to_the_u64(scale_diff as u8);
                } else {
                    self.int_val *= ten_to_the(scale_diff);
                }
            }
            (Ordering::Less, scale_diff) => {
                self.scale = new_scale;
                if scale_diff < 20 {
                    self.int_val /= ten_to_the_u64(scale_diff as u8);
                } else {
                    self.int_val /= ten_to_the(scale_diff);
                }
            }
            (Ordering::Equal, _) => {},
        }
    }
    fn take_and_scale(self, new_scale: i64) -> (r: BigDecimal) 
        requires self.bounded(), -SCALE_BOUND <= new_scale <= SCALE_BOUND
        ensures r.s() == new_scale,
            new_scale >= self.s() ==> r.i() == self.i() * pow10(new_scale - self.s()),
            new_scale < self.s() ==> r.i() == tdiv(self.i(), pow10(self.s() - new_scale)),
    {
        let mut self_ = self;
        self_.set_scale(new_scale);
        self_
    }
    /// set scale only if new_scale is greater than current
    pub(crate) fn extend_scale_to(&mut self, new_scale: i64) 
        requires old(self).bounded(), -SCALE_BOUND <= new_scale <= SCALE_BOUND
        ensures same_val(final(self).i(), final(self).s(), old(self).i(), old(self).s()), final(self).bounded(),
    {
        if new_scale > self.scale {
            self.set_scale(new_scale)
        }
    }
    fn is_zero(&self) -> (r: bool) ensures r == (self.i() == 0) { self.int_val.is_zero() }
}

pub(crate) fn add_bigdecimals(
    mut a: BigDecimal,
    mut b: BigDecimal,
) -> (r: BigDecimal)
    requires a.bounded(), b.bounded()
    ensures is_sum(r.i(), r.s(), a.i(), a.s(), b.i(), b.s())
{
    proof { lemma_pow10_pos(b.s() - a.s()); lemma_pow10_pos(a.s() - b.s()); }
    if b.is_zero() {
        a.extend_scale_to(b.scale);
        return a;
    }

    if a.is_zero() {
        b.extend_scale_to(a.scale);
        return b;
    }

    let (a, b) = match a.scale.cmp(&b.scale) {
        Ordering::Equal => (a, b),
        Ordering::Less => (a.take_and_scale(b.scale), b),
        Ordering::Greater => (b.take_and_scale(a.scale), a),
    };

    add_aligned_bigdecimals(a, b)
}

fn add_aligned_bigdecimals(
    mut a: BigDecimal,
    mut b: BigDecimal,
) -> (r: BigDecimal)
    requires a.s() == b.s()
    ensures r.s() == a.s(), r.i() == a.i() + b.i()
{
    debug_assert!(a.scale == b.scale);
    if a.int_val.bits() >= b.int_val.bits() {
        a.int_val += b.int_val;
        a
    } else {
        b.int_val += a.int_val;
        b
    }
}

} // verus!
fn main() {}
