use vstd::prelude::*;
use vstd::arithmetic::power::*;
use vstd::arithmetic::mul::*;
use vstd::arithmetic::div_mod::*;
verus! {

pub open spec fn pow10(n: int) -> int { if n <= 0 { 1 } else { pow(10, n as nat) } }

pub proof fn lemma_pow10_pos(a: int) ensures pow10(a) > 0
{ if a > 0 { lemma_pow_positive(10, a as nat); } }

pub proof fn lemma_pow10_succ(a: int) requires a >= 0 ensures pow10(a + 1) == 10 * pow10(a)
{ reveal(pow); if a == 0 { assert(pow(10, 1) == 10 * pow(10, 0)); assert(pow(10,0) == 1); } }

pub proof fn lemma_pow10_add(a: int, b: int)
    requires a >= 0, b >= 0
    ensures pow10(a + b) == pow10(a) * pow10(b)
{
    lemma_pow_adds(10, a as nat, b as nat);
}

/// value of little-endian decimal digit sequence
pub open spec fn dle(s: Seq<u8>) -> int
    decreases s.len()
{
    if s.len() == 0 { 0 } else { s[0] as int + 10 * dle(s.drop_first()) }
}
pub open spec fn valid_digits(s: Seq<u8>) -> bool { forall|i: int| 0 <= i < s.len() ==> s[i] <= 9 }
pub open spec fn all_zero(s: Seq<u8>) -> bool { forall|i: int| 0 <= i < s.len() ==> s[i] == 0 }

pub proof fn lemma_dle_bounds(s: Seq<u8>)
    requires valid_digits(s)
    ensures 0 <= dle(s) < pow10(s.len() as int)
    decreases s.len()
{
    if s.len() == 0 { } else {
        lemma_dle_bounds(s.drop_first());
        lemma_pow10_succ(s.len() as int - 1);
    }
}

pub proof fn lemma_dle_split(s: Seq<u8>, k: int)
    requires 0 <= k <= s.len()
    ensures dle(s) == dle(s.subrange(0, k)) + pow10(k) * dle(s.subrange(k, s.len() as int))
    decreases k
{
    if k == 0 {
        assert(s.subrange(0, 0).len() == 0);
        assert(s.subrange(0, s.len() as int) =~= s);
    } else {
        let t = s.drop_first();
        lemma_dle_split(t, k - 1);
        assert(t.subrange(0, k - 1) =~= s.subrange(0, k).drop_first());
        assert(t.subrange(k - 1, t.len() as int) =~= s.subrange(k, s.len() as int));
        assert(s.subrange(0, k)[0] == s[0]);
        lemma_pow10_succ(k - 1);
        let hi = dle(s.subrange(k, s.len() as int));
        assert(10 * (pow10(k - 1) * hi) == pow10(k) * hi) by (nonlinear_arith)
            requires pow10(k) == 10 * pow10(k - 1);
    }
}

pub proof fn lemma_dle_all_zero(s: Seq<u8>)
    requires valid_digits(s)
    ensures all_zero(s) <==> dle(s) == 0
    decreases s.len()
{
    if s.len() == 0 { } else {
        lemma_dle_all_zero(s.drop_first());
        lemma_dle_bounds(s.drop_first());
        let t = s.drop_first();
        if all_zero(s) {
            assert forall|i: int| 0 <= i < t.len() implies t[i] == 0 by { assert(t[i] == s[i + 1]); }
        }
        if dle(s) == 0 {
            assert(s[0] == 0 && dle(t) == 0);
            assert forall|i: int| 0 <= i < s.len() implies s[i] == 0 by { if i > 0 { assert(s[i] == t[i - 1]); } }
        }
    }
}

pub proof fn lemma_dle_update(s: Seq<u8>, j: int, d: u8)
    requires 0 <= j < s.len()
    ensures dle(s.update(j, d)) == dle(s) + (d as int - s[j] as int) * pow10(j)
    decreases j
{
    if j == 0 {
        assert(s.update(0, d).drop_first() =~= s.drop_first());
    } else {
        let t = s.drop_first();
        lemma_dle_update(t, j - 1, d);
        assert(s.update(j, d).drop_first() =~= t.update(j - 1, d));
        lemma_pow10_succ(j - 1);
        let delta = d as int - s[j] as int;
        assert(10 * (delta * pow10(j - 1)) == delta * pow10(j)) by (nonlinear_arith)
            requires pow10(j) == 10 * pow10(j - 1);
    }
}

pub proof fn lemma_dle_push(s: Seq<u8>, d: u8)
    ensures dle(s.push(d)) == dle(s) + d as int * pow10(s.len() as int)
    decreases s.len()
{
    if s.len() == 0 {
        assert(s.push(d).drop_first() =~= Seq::<u8>::empty());
        assert(s.push(d)[0] == d);
        assert(dle(s.push(d)) == d as int + 10 * dle(s.push(d).drop_first()));
    } else {
        assert(s.push(d)[0] == s[0]);
        assert(dle(s.push(d)) == s[0] as int + 10 * dle(s.push(d).drop_first()));
        let t = s.drop_first();
        lemma_dle_push(t, d);
        assert(s.push(d).drop_first() =~= t.push(d));
        lemma_pow10_succ(t.len() as int);
        assert(10 * (d as int * pow10(t.len() as int)) == d as int * pow10(s.len() as int)) by (nonlinear_arith)
            requires pow10(s.len() as int) == 10 * pow10(t.len() as int);
    }
}

} // verus!
fn main() {}
