// probe: appended to a scratch copy of /repo/src/lib.rs; `cargo kani -Z stubbing --harness parse_small`
// result: 171 s, FAILED on `.+x` (the design-review defect) - see DESIGN.md section 3
#[cfg(kani)]
mod verif_kani {
    use super::*;
    use num_bigint::{BigUint, ParseBigIntError};

    // assumed grammar of num-bigint 0.4.4 BigInt::from_str_radix(_, 10): [+-]?[0-9][0-9_]*
    fn stub_bigint_from_str_radix(s: &str, _radix: u32) -> Result<BigInt, ParseBigIntError> {
        let b = s.as_bytes();
        let mut i = 0usize;
        let mut neg = false;
        if i < b.len() && (b[i] == b'+' || b[i] == b'-') { neg = b[i] == b'-'; i += 1; }
        let mut ok = i < b.len() && b[i].is_ascii_digit();
        let mut v: i64 = 0;
        while i < b.len() {
            let c = b[i];
            if c.is_ascii_digit() { v = v * 10 + (c - b'0') as i64; }
            else if c != b'_' { ok = false; }
            i += 1;
        }
        if ok { Ok(BigInt::from(if neg { -v } else { v })) } else { Err(<BigUint as Num>::from_str_radix("x", 10).unwrap_err()) }
    }
    fn stub_format(_args: core::fmt::Arguments) -> String { String::new() }

    #[kani::proof]
    #[kani::unwind(6)]
    #[kani::stub(<BigInt as Num>::from_str_radix, stub_bigint_from_str_radix)]
    #[kani::stub(alloc::fmt::format, stub_format)]
    fn parse_small() {
        let bytes: [u8; 3] = kani::any();
        let n: usize = kani::any();
        kani::assume(n <= 3);
        if let Ok(s) = core::str::from_utf8(&bytes[..n]) {
            let r = BigDecimal::from_str_radix(s, 10);
            let all_digits = n > 0 && bytes[..n].iter().all(|b| b.is_ascii_digit());
            if all_digits { assert!(r.is_ok()); }
            if n == 3 && bytes[0] == b'.' && bytes[1] == b'+' { assert!(r.is_err()); }
        }
    }
}
