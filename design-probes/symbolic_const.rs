use vstd::prelude::*;
verus! {
pub uninterp spec fn cfg_default_precision() -> u64;

#[verifier::external_body]
pub exec const DEFAULT_PRECISION: u64
    ensures 1 <= DEFAULT_PRECISION <= 0xffff_ffff, DEFAULT_PRECISION == cfg_default_precision()
{ 100 }

fn uses() -> (r: u64) ensures r == cfg_default_precision() { DEFAULT_PRECISION }
fn hardcoded() -> (r: u64) ensures r == cfg_default_precision() { 100 }
} // verus!
fn main() {}
