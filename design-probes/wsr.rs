use vstd::prelude::*;
use core::cmp::Ordering;
use vstd::arithmetic::power::*;
use vstd::arithmetic::mul::*;
use vstd::arithmetic::div_mod::*;
verus! {

pub open spec fn pow10(n: int) -> int { if n <= 0 { 1 } else { pow(10, n as nat) } }

pub proof fn lemma_pow10_pos(a: int) ensures pow10(a) > 0
{ if a > 0 { lemma_pow_positive(10, a as nat); } }

pub proof fn lemma_pow10_succ(a: int) requires a >= 0 ensures pow10(a + 1) == 10 * pow10(a)
{ reveal(pow); if a == 0 { assert(pow(10, 1) == 10 * pow(10, 0)); assert(pow(10,0) == 1); } }

pub proof fn lemma_pow10_add(a: int, b: int)
    requires a >= 0, b >= 0
    ensures pow10(a + b) == pow10(a) * pow10(b)
{
    lemma_pow_adds(10, a as nat, b as nat);
}

/// value of little-endian decimal digit sequence
pub open spec fn dle(s: Seq<u8>) -> int
    decreases s.len()
{
    if s.len() == 0 { 0 } else { s[0] as int + 10 * dle(s.drop_first()) }
}
pub open spec fn valid_digits(s: Seq<u8>) -> bool { forall|i: int| 0 <= i < s.len() ==> s[i] <= 9 }
pub open spec fn all_zero(s: Seq<u8>) -> bool { forall|i: int| 0 <= i < s.len() ==> s[i] == 0 }

pub proof fn lemma_dle_bounds(s: Seq<u8>)
    requires valid_digits(s)
    ensures 0 <= dle(s) < pow10(s.len() as int)
    decreases s.len()
{
    if s.len() == 0 { } else {
        lemma_dle_bounds(s.drop_first());
        lemma_pow10_succ(s.len() as int - 1);
    }
}

pub proof fn lemma_dle_split(s: Seq<u8>, k: int)
    requires 0 <= k <= s.len()
    ensures dle(s) == dle(s.subrange(0, k)) + pow10(k) * dle(s.subrange(k, s.len() as int))
    decreases k
{
    if k == 0 {
        assert(s.subrange(0, 0).len() == 0);
        assert(s.subrange(0, s.len() as int) =~= s);
    } else {
        let t = s.drop_first();
        lemma_dle_split(t, k - 1);
        assert(t.subrange(0, k - 1) =~= s.subrange(0, k).drop_first());
        assert(t.subrange(k - 1, t.len() as int) =~= s.subrange(k, s.len() as int));
        assert(s.subrange(0, k)[0] == s[0]);
        lemma_pow10_succ(k - 1);
        let hi = dle(s.subrange(k, s.len() as int));
        assert(10 * (pow10(k - 1) * hi) == pow10(k) * hi) by (nonlinear_arith)
            requires pow10(k) == 10 * pow10(k - 1);
    }
}

pub proof fn lemma_dle_all_zero(s: Seq<u8>)
    requires valid_digits(s)
    ensures all_zero(s) <==> dle(s) == 0
    decreases s.len()
{
    if s.len() == 0 { } else {
        lemma_dle_all_zero(s.drop_first());
        lemma_dle_bounds(s.drop_first());
        let t = s.drop_first();
        if all_zero(s) {
            assert forall|i: int| 0 <= i < t.len() implies t[i] == 0 by { assert(t[i] == s[i + 1]); }
        }
        if dle(s) == 0 {
            assert(s[0] == 0 && dle(t) == 0);
            assert forall|i: int| 0 <= i < s.len() implies s[i] == 0 by { if i > 0 { assert(s[i] == t[i - 1]); } }
        }
    }
}

pub proof fn lemma_dle_update(s: Seq<u8>, j: int, d: u8)
    requires 0 <= j < s.len()
    ensures dle(s.update(j, d)) == dle(s) + (d as int - s[j] as int) * pow10(j)
    decreases j
{
    if j == 0 {
        assert(s.update(0, d).drop_first() =~= s.drop_first());
    } else {
        let t = s.drop_first();
        lemma_dle_update(t, j - 1, d);
        assert(s.update(j, d).drop_first() =~= t.update(j - 1, d));
        lemma_pow10_succ(j - 1);
        let delta = d as int - s[j] as int;
        assert(10 * (delta * pow10(j - 1)) == delta * pow10(j)) by (nonlinear_arith)
            requires pow10(j) == 10 * pow10(j - 1);
    }
}

pub proof fn lemma_dle_push(s: Seq<u8>, d: u8)
    ensures dle(s.push(d)) == dle(s) + d as int * pow10(s.len() as int)
    decreases s.len()
{
    if s.len() == 0 {
        assert(s.push(d).drop_first() =~= Seq::<u8>::empty());
        assert(s.push(d)[0] == d);
        assert(dle(s.push(d)) == d as int + 10 * dle(s.push(d).drop_first()));
    } else {
        assert(s.push(d)[0] == s[0]);
        assert(dle(s.push(d)) == s[0] as int + 10 * dle(s.push(d).drop_first()));
        let t = s.drop_first();
        lemma_dle_push(t, d);
        assert(s.push(d).drop_first() =~= t.push(d));
        lemma_pow10_succ(t.len() as int);
        assert(10 * (d as int * pow10(t.len() as int)) == d as int * pow10(s.len() as int)) by (nonlinear_arith)
            requires pow10(s.len() as int) == 10 * pow10(t.len() as int);
    }
}


// ------------------------------------------------------------ spec: rounding
#[derive(PartialEq, Eq, Clone, Copy)]
pub enum Sign { Minus, NoSign, Plus }
pub open spec fn sgn(s: Sign) -> int { match s { Sign::Minus => -1, Sign::NoSign => 0, Sign::Plus => 1 } }

#[derive(Clone, Copy, PartialEq, Eq)]
pub enum RoundingMode { Up, Down, Ceiling, Floor, HalfUp, HalfDown, HalfEven }

/// c: sign of (discarded tail - half unit); odd: parity of kept last digit
pub open spec fn up(mode: RoundingMode, neg: bool, c: int, odd: bool) -> bool {
    match mode {
        RoundingMode::Up => true,
        RoundingMode::Down => false,
        RoundingMode::Ceiling => !neg,
        RoundingMode::Floor => neg,
        RoundingMode::HalfUp => c >= 0,
        RoundingMode::HalfDown => c > 0,
        RoundingMode::HalfEven => c > 0 || (c == 0 && odd),
    }
}
pub open spec fn cmp3(a: int, b: int) -> int { if a < b { -1 } else if a == b { 0 } else { 1 } }

/// magnitude n >= 0 with k >= 0 digits dropped
pub open spec fn round_mag(n: int, k: int, mode: RoundingMode, neg: bool) -> int {
    let q = n / pow10(k);
    let t = n % pow10(k);
    if t == 0 { q } else if up(mode, neg, cmp3(2 * t, pow10(k)), q % 2 == 1) { q + 1 } else { q }
}

pub open spec fn pair_c(r: u8, tz: bool) -> int { if r < 5 { -1 } else if r > 5 { 1 } else if tz { 0 } else { 1 } }
pub open spec fn round_pair_spec(mode: RoundingMode, sign: Sign, l: u8, r: u8, tz: bool) -> int {
    if r == 0 && tz { l as int } else if up(mode, sign == Sign::Minus, pair_c(r, tz), l % 2 == 1) { l + 1 } else { l as int }
}

/// the bridge: digit pair + tail flag decide exactly like round_mag
pub proof fn lemma_pair_is_round_mag(n: int, k: int, q: int, r: u8, tail: int, mode: RoundingMode, sign: Sign)
    requires k >= 1, q >= 0, r <= 9, 0 <= tail < pow10(k - 1),
             n == tail + pow10(k - 1) * r + pow10(k) * q,
    ensures round_mag(n, k, mode, sign == Sign::Minus)
            == q - (q % 10) + round_pair_spec(mode, sign, (q % 10) as u8, r, tail == 0)
{
    let p = pow10(k - 1);
    lemma_pow10_pos(k - 1);
    lemma_pow10_succ(k - 1);
    let t = tail + p * r;
    assert(0 <= t < 10 * p) by (nonlinear_arith) requires 0 <= tail < p, 0 <= r <= 9, t == tail + p * r;
    assert(n == t + (10 * p) * q);
    lemma_fundamental_div_mod_converse(n, 10 * p, q, t);
    assert(n / pow10(k) == q && n % pow10(k) == t);
    assert((t == 0) == (r == 0 && tail == 0)) by (nonlinear_arith) requires 0 <= tail < p, 0 <= r <= 9, t == tail + p * r, p > 0;
    assert(cmp3(2 * t, 10 * p) == pair_c(r, tail == 0)) by (nonlinear_arith)
        requires 0 <= tail < p, 0 <= r <= 9, t == tail + p * r, p > 0;
    assert((q % 10) % 2 == q % 2) by { lemma_mod_mod(q, 2, 5); }
}

// ------------------------------------------------------------ shim
#[verifier::external_body]
pub struct BigInt { inner: Vec<u32> }
impl View for BigInt { type V = int; uninterp spec fn view(&self) -> int; }
pub open spec fn iabs(i: int) -> int { if i < 0 { -i } else { i } }
pub open spec fn sign_of(i: int) -> Sign { if i < 0 { Sign::Minus } else if i == 0 { Sign::NoSign } else { Sign::Plus } }

pub trait Zero: Sized {
    spec fn is_zero_spec(&self) -> bool;
    fn zero() -> (r: Self) ensures r.is_zero_spec();
    fn is_zero(&self) -> (r: bool) ensures r == self.is_zero_spec();
}
impl Zero for BigInt {
    open spec fn is_zero_spec(&self) -> bool { self@ == 0 }
    #[verifier::external_body] fn zero() -> (r: Self) { unimplemented!() }
    #[verifier::external_body] fn is_zero(&self) -> (r: bool) { unimplemented!() }
}
impl Clone for BigInt {
    #[verifier::external_body]
    fn clone(&self) -> (r: BigInt) ensures r@ == self@ { unimplemented!() }
}
impl BigInt {
    #[verifier::external_body]
    pub fn to_radix_le(&self, radix: u32) -> (r: (Sign, Vec<u8>))
        requires radix == 10
        ensures r.0 == sign_of(self@), valid_digits(r.1@), dle(r.1@) == iabs(self@), 1 <= r.1@.len() <= 0x1000_0000_0000_0000,
                self@ != 0 ==> r.1@.last() != 0
    { unimplemented!() }
    #[verifier::external_body]
    pub fn new(sign: Sign, digits: Vec<u32>) -> (r: BigInt)
        ensures digits@.len() == 1 ==> r@ == sgn(sign) * digits@[0]
    { unimplemented!() }
    #[verifier::external_body]
    pub fn from_radix_le(sign: Sign, buf: &[u8], radix: u32) -> (r: Option<BigInt>)
        requires radix == 10
        ensures valid_digits(buf@) && buf@.len() > 0 ==> r.is_some() && r.unwrap()@ == sgn(sign) * dle(buf@)
    { unimplemented!() }
}
impl<'a> vstd::std_specs::ops::MulSpecImpl<BigInt> for &'a BigInt {
    open spec fn obeys_mul_spec() -> bool { false }
    open spec fn mul_req(self, rhs: BigInt) -> bool { true }
    open spec fn mul_spec(self, rhs: BigInt) -> BigInt { arbitrary() }
}
impl<'a> core::ops::Mul<BigInt> for &'a BigInt {
    type Output = BigInt;
    #[verifier::external_body]
    fn mul(self, rhs: BigInt) -> (r: BigInt) ensures r@ == self@ * rhs@ { unimplemented!() }
}
impl vstd::std_specs::ops::MulSpecImpl<BigInt> for BigInt {
    open spec fn obeys_mul_spec() -> bool { false }
    open spec fn mul_req(self, rhs: BigInt) -> bool { true }
    open spec fn mul_spec(self, rhs: BigInt) -> BigInt { arbitrary() }
}
impl core::ops::Mul<BigInt> for BigInt {
    type Output = BigInt;
    #[verifier::external_body]
    fn mul(self, rhs: BigInt) -> (r: BigInt) ensures r@ == self@ * rhs@ { unimplemented!() }
}
#[verifier::external_body]
pub(crate) fn ten_to_the(pow: u64) -> (r: BigInt) ensures r@ == pow10(pow as int) { unimplemented!() }

/// R6 helper: `x.iter().all(Zero::is_zero)`
#[verifier::external_body]
pub fn iter_all_is_zero(x: &[u8]) -> (r: bool) ensures r == all_zero(x@) { unimplemented!() }

pub assume_specification<T> [<[T]>::split_last] (s: &[T]) -> (r: Option<(&T, &[T])>)
    ensures match r { None => s@.len() == 0, Some((l, rest)) => s@.len() > 0 && *l == s@.last() && rest@ == s@.drop_last() };

impl RoundingMode {
    #[verifier::external_body]
    pub fn round_pair(&self, sign: Sign, pair: (u8, u8), trailing_zeros: bool) -> (r: u8)
        requires pair.0 <= 9, pair.1 <= 9
        ensures r == round_pair_spec(*self, sign, pair.0, pair.1, trailing_zeros)
    { unimplemented!() }
}

pub spec const SB: int = 0x2000_0000_0000_0000;

// ------------------------------------------------------------ real code
pub struct BigDecimal {
    int_val: BigInt,
    // A positive scale means a negative power of 10
    scale: i64,
}
impl Clone for BigDecimal {
    fn clone(&self) -> (r: BigDecimal) ensures r.i() == self.i(), r.s() == self.s() { BigDecimal { int_val: self.int_val.clone(), scale: self.scale } }
}

impl BigDecimal {
    pub closed spec fn i(&self) -> int { self.int_val@ }
    pub closed spec fn s(&self) -> int { self.scale as int }

    pub fn new(digits: BigInt, scale: i64) -> (r: BigDecimal) ensures r.i() == digits@, r.s() == scale {
        BigDecimal { int_val: digits, scale: scale }
    }

    pub fn with_scale_round(&self, new_scale: i64, mode: RoundingMode) -> (r: BigDecimal)
        requires -SB <= self.s() <= SB, -SB <= new_scale <= SB
        ensures r.s() == new_scale,
                new_scale >= self.s() ==> r.i() == self.i() * pow10(new_scale - self.s()),
                new_scale < self.s() ==> r.i() == sgn(sign_of(self.i())) * round_mag(iabs(self.i()), self.s() - new_scale, mode, self.i() < 0),
    {
        use core::cmp::Ordering::*;

        if self.int_val.is_zero() {
            proof { lemma_pow10_pos(self.s() - new_scale); }
            return BigDecimal::new(BigInt::zero(), new_scale);
        }

        match new_scale.cmp(&self.scale) {
            Ordering::Equal => {
                self.clone()
            }
            Ordering::Greater => {
                // increase number of zeros
                let scale_diff = new_scale - self.scale;
                let int_val = &self.int_val * ten_to_the(scale_diff as u64);
                BigDecimal::new(int_val, new_scale)
            }
            Ordering::Less => {
                let (sign, mut digits) = self.int_val.to_radix_le(10);

                let digit_count = digits.len();
                let int_digit_count = digit_count as i64 - self.scale;
                let ghost n = iabs(self.i());
                let ghost k = self.s() - new_scale;
                let ghost d0 = digits@;
                proof { lemma_dle_bounds(d0); lemma_pow10_pos(k - 1); lemma_pow10_pos(k); }
                let rounded_int = match int_digit_count.cmp(&-new_scale) {
                    Equal => {
                        let (last_digit__r, remaining) = digits.split_last().unwrap();
                        let last_digit = *last_digit__r;
                        let trailing_zeros = iter_all_is_zero(remaining);
                        let rounded_digit = mode.round_pair(sign, (0, last_digit), trailing_zeros);
                        proof {
                            // k == len
                            lemma_dle_split(d0, k - 1);
                            assert(d0.subrange(0, k - 1) =~= remaining@);
                            let top = d0.subrange(k - 1, k);
                            assert(top.drop_first() =~= Seq::<u8>::empty());
                            assert(top[0] == last_digit); assert(dle(top) == top[0] as int + 10 * dle(top.drop_first()));
                            assert forall|j: int| 0 <= j < remaining@.len() implies remaining@[j] <= 9 by { assert(remaining@[j] == d0[j]); }
                            lemma_dle_bounds(remaining@);
                            lemma_dle_all_zero(remaining@);
                            lemma_pair_is_round_mag(n, k, 0, last_digit, dle(remaining@), mode, sign);
                        }
                        BigInt::new(sign, vec![rounded_digit as u32])
                    }
                    Less => {
                        debug_assert!(!iter_all_is_zero(digits.as_slice()));
                        let rounded_digit = mode.round_pair(sign, (0, 0), false);
                        proof {
                            // len < k : n < 10^len <= 10^(k-1)
                            lemma_dle_all_zero(d0);
                            lemma_pow10_add(d0.len() as int, k - 1 - d0.len());
                            lemma_pow10_pos(k - 1 - d0.len());
                            assert(pow10(d0.len() as int) <= pow10(k - 1)) by (nonlinear_arith)
                                requires pow10(k - 1) == pow10(d0.len() as int) * pow10(k - 1 - d0.len()), pow10(k - 1 - d0.len()) >= 1, pow10(d0.len() as int) > 0;
                            lemma_pair_is_round_mag(n, k, 0, 0, n, mode, sign);
                        }
                        BigInt::new(sign, vec![rounded_digit as u32])
                    }
                    Greater => {
                        // location of new rounding point
                        let scale_diff = (self.scale - new_scale) as usize;

                        let low_digit = digits[scale_diff - 1];
                        let high_digit = digits[scale_diff];
                        let trailing_zeros = iter_all_is_zero(&digits[0..scale_diff-1]);
                        let rounded_digit = mode.round_pair(sign, (high_digit, low_digit), trailing_zeros);

                        debug_assert!(rounded_digit <= 10);

                        let ghost q = dle(d0.subrange(k, d0.len() as int));
                        let ghost tail = dle(d0.subrange(0, k - 1));
                        proof {
                            lemma_dle_split(d0, k);
                            lemma_dle_split(d0.subrange(0, k), k - 1);
                            assert(d0.subrange(0, k).subrange(0, k - 1) =~= d0.subrange(0, k - 1));
                            let mid = d0.subrange(0, k).subrange(k - 1, k);
                            assert(mid.drop_first() =~= Seq::<u8>::empty());
                            assert(mid[0] == low_digit); assert(dle(mid) == mid[0] as int + 10 * dle(mid.drop_first()));
                            let hi = d0.subrange(k, d0.len() as int);
                            assert(hi[0] == high_digit);
                            lemma_dle_bounds(hi.drop_first());
                            assert(q % 10 == high_digit as int) by {
                                lemma_fundamental_div_mod_converse(q, 10, dle(hi.drop_first()), high_digit as int);
                            }
                            assert(digits@.subrange(0, k - 1) =~= d0.subrange(0, k - 1));
                            lemma_dle_bounds(d0.subrange(0, k - 1));
                            lemma_dle_all_zero(d0.subrange(0, k - 1));
                            lemma_pair_is_round_mag(n, k, q, low_digit, tail, mode, sign);
                        }

                        if rounded_digit < 10 {
                            digits[scale_diff] = rounded_digit;
                            proof {
                                let hi = d0.subrange(k, d0.len() as int);
                                lemma_dle_update(hi, 0, rounded_digit);
                                assert(digits@.subrange(k, digits@.len() as int) =~= hi.update(0, rounded_digit));
                                assert(valid_digits(digits@));
                            }
                        } else {
                            digits[scale_diff] = 0;
                            let mut i = scale_diff + 1;
                            proof {
                                let hi = d0.subrange(k, d0.len() as int);
                                lemma_dle_update(hi, 0, 0);
                                assert(digits@.subrange(k, digits@.len() as int) =~= hi.update(0, 0));
                                lemma_pow10_succ(0);
                                assert(high_digit == 9);
                                assert(valid_digits(digits@));
                            }
                            loop
                                invariant_except_break
                                    k + 1 <= i <= digits@.len(), digits@.len() == digit_count,
                                    dle(digits@.subrange(k, digits@.len() as int)) + pow10(i - k) == q + 1,
                                invariant
                                    k == scale_diff, k >= 1,
                                    valid_digits(digits@),
                                ensures
                                    valid_digits(digits@), digits@.len() > k,
                                    dle(digits@.subrange(k, digits@.len() as int)) == q + 1,
                                decreases digits@.len() - i
                            {
                                let ghost dg = digits@;
                                let ghost hi0 = dg.subrange(k, dg.len() as int);
                                if i == digit_count {
                                    digits.push(1);
                                    proof {
                                        lemma_dle_push(hi0, 1);
                                        assert(digits@.subrange(k, digits@.len() as int) =~= hi0.push(1));
                                    }
                                    break;
                                }

                                if digits[i] < 9 {
                                    digits[i] += 1;
                                    proof {
                                        assert(hi0[i - k] == dg[i as int]);
                                        lemma_dle_update(hi0, i - k, (dg[i as int] + 1) as u8);
                                        assert(digits@.subrange(k, digits@.len() as int) =~= hi0.update(i - k, (dg[i as int] + 1) as u8));
                                        let dd = dg[i as int] as int;
                                        assert(((dd + 1) as u8) as int - hi0[i - k] as int == 1);
                                        assert(dle(hi0.update(i - k, (dg[i as int] + 1) as u8)) == dle(hi0) + 1 * pow10(i - k));
                                    }
                                    break;
                                }

                                assert(dg[i as int] == 9);
                                digits[i] = 0;
                                proof {
                                    assert(hi0[i - k] == 9);
                                    lemma_dle_update(hi0, i - k, 0);
                                    assert(digits@.subrange(k, digits@.len() as int) =~= hi0.update(i - k, 0));
                                    lemma_pow10_succ(i - k);
                                }
                                i += 1;
                            }
                        }

                        BigInt::from_radix_le(sign, &digits[scale_diff..], 10).unwrap()
                    }
                };

                BigDecimal::new(rounded_int, new_scale)
            }
        }
    }
}
} // verus!
fn main() {}
