use vstd::std_specs::iter::IteratorSpec;
