use crate::stdlib::num::NonZeroU64;
