use crate::stdlib::num::NonZeroU64;
impl Context {
    /// precision / rounding mode of a context (ghost accessors)
    pub closed spec fn p(&self) -> u64 { nz64(self.precision) }
    pub closed spec fn m(&self) -> RoundingMode { self.rounding }
}
