// C19: client programs written for this check (not crate code).  They are verified against the callee CONTRACTS only
// (Verus is modular), so they decide whether the contracts compose: every precondition (scale bounds) must follow from the
// previous postconditions and the final value must be the one obtained by evaluating the same program over the integers at a
// common scale.  Intermediate representations (scale, trailing zeros, a zero carrying a scale, 1.00) are never constrained.
use crate::num_traits::{Zero, One};

/// |s| <= 10^4: the scale range of the property's quantifier
pub open spec fn small(s: int) -> bool { -10000 <= s <= 10000 }

/// ((a + &b) * c) - &a     owned + borrowed, borrowed * owned, owned - borrowed
pub fn prog_add_mul_sub(a: BigDecimal, b: &BigDecimal, c: BigDecimal) -> (r: BigDecimal)
    requires small(a.s()), small(b.s()), small(c.s())
    ensures exists|t1i: int, t1s: int, t2i: int, t2s: int|
                #[trigger] is_sum(t1i, t1s, a.i(), a.s(), b.i(), b.s())
                && #[trigger] is_prod(t2i, t2s, t1i, t1s, c.i(), c.s())
                && is_diff(r.i(), r.s(), t2i, t2s, a.i(), a.s())
{
    let a2 = a.clone();
    let t1 = a + b;
    let t2 = &t1 * c;
    t2 - &a2
}

/// accumulator with compound assignments and mixed operand kinds:  acc = x; acc += y; acc -= 7u8; acc *= &z; acc += big
pub fn prog_accumulate(x: BigDecimal, y: BigDecimal, z: &BigDecimal, big: BigInt) -> (r: BigDecimal)
    requires small(x.s()), small(y.s()), small(z.s())
    ensures exists|t1i: int, t1s: int, t2i: int, t2s: int, t3i: int, t3s: int|
                #[trigger] is_sum(t1i, t1s, x.i(), x.s(), y.i(), y.s())
                && #[trigger] is_diff(t2i, t2s, t1i, t1s, 7, 0)
                && #[trigger] is_prod(t3i, t3s, t2i, t2s, z.i(), z.s())
                && is_sum(r.i(), r.s(), t3i, t3s, big@, 0)
{
    let mut acc = x;
    acc += y;
    acc -= 7u8;
    acc *= z;
    acc += big;
    acc
}

/// a zero that carries a large scale and a one written as 1.00 do not influence later values:
/// (x + zero) * one == x   for any zero (i == 0, any small scale) and any representation of one
pub fn prog_zero_one(x: &BigDecimal, zero: BigDecimal, one: &BigDecimal) -> (r: BigDecimal)
    requires small(x.s()), small(zero.s()), small(one.s()), zero.i() == 0, same_val(one.i(), one.s(), 1, 0)
    ensures same_val(r.i(), r.s(), x.i(), x.s())
{
    let t = x + zero;
    let r = &t * one;
    proof {
        let m = imax(imax(r.s(), t.s()), imax(x.s(), zero.s())) + one.s();
        lemma_one_val(one.i(), one.s());
        // t == x
        lemma_sum_at(t.i(), t.s(), x.i(), x.s(), zero.i(), zero.s(), m);
        lemma_same_at(t.i(), t.s(), x.i(), x.s(), m);
        // r == t * one == t
        lemma_prod_one_left(one.i(), one.s(), t.i(), t.s());
        assert(one.i() * t.i() == t.i() * one.i()) by (nonlinear_arith);
        lemma_same_at(r.i(), r.s(), t.i() * one.i(), t.s() + one.s(), m);
        lemma_same_at(t.i(), t.s(), t.i() * one.i(), t.s() + one.s(), m);
        lemma_same_at(r.i(), r.s(), t.i(), t.s(), m);
        lemma_same_at(r.i(), r.s(), x.i(), x.s(), m);
    }
    r
}

/// normalizing, re-scaling upward, doubling then halving and negating twice never change the value;
/// the comparison operators agree with that
pub fn prog_representations(x: &BigDecimal) -> (r: bool)
    requires small(x.s())
    ensures r
{
    let n = x.normalized();
    let up = x.with_scale(x.fractional_digit_count() + 7);
    let d = x.double();
    let h = d.half();
    let nn = -(-x.clone());
    proof {
        lemma_pow10_0();
        let m = x.s() + 8;
        // up == x
        lemma_same_at(up.i(), up.s(), x.i(), x.s(), m);
        lemma_val_at_rescale(x.i(), x.s(), x.s() + 7, m);
        assert(val_at(up.i(), up.s(), m) == val_at(x.i(), x.s(), m)) by {
            lemma_pow10_add(7, 1);
            assert(x.i() * pow10(7) * pow10(1) == x.i() * (pow10(7) * pow10(1))) by (nonlinear_arith);
        }
        // h == x:  d == 2x and 2h == d
        lemma_sum_at(d.i(), d.s(), x.i(), x.s(), x.i(), x.s(), m);
        lemma_sum_at(d.i(), d.s(), h.i(), h.s(), h.i(), h.s(), m);
        lemma_same_at(h.i(), h.s(), x.i(), x.s(), m);
        lemma_cmp_at(h.i(), h.s(), x.i(), x.s(), m);
    }
    let e1 = n == *x;
    let e2 = up == *x;
    let e3 = h == *x;
    let e4 = nn == *x;
    let c = h.cmp(x);
    e1 && e2 && e3 && e4 && c == Ordering::Equal
}

/// square(x) == x * x and the primitive forms agree with the converted decimal:  x * 3u32 == x + x + x
pub fn prog_square_and_prims(x: &BigDecimal) -> (r: (BigDecimal, BigDecimal, BigDecimal, BigDecimal))
    requires small(x.s())
    ensures is_prod(r.0.i(), r.0.s(), x.i(), x.s(), x.i(), x.s()),
            is_prod(r.1.i(), r.1.s(), x.i(), x.s(), x.i(), x.s()),
            is_prod(r.2.i(), r.2.s(), x.i(), x.s(), 3, 0),
            exists|ti: int, ts: int| #[trigger] is_sum(ti, ts, x.i(), x.s(), x.i(), x.s()) && is_sum(r.3.i(), r.3.s(), ti, ts, x.i(), x.s())
{
    let sq = x.square();
    let mul = x * x;
    let tri = x * 3u32;
    let sum = (x + x) + x;
    (sq, mul, tri, sum)
}
