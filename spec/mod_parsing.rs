use crate::stdlib::num::FpCategory;
use crate::{BigDecimal, ParseBigDecimalError};
use crate::num_traits::Zero;
