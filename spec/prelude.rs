// Ghost mathematics shared by all contracts: integers only.
use vstd::prelude::*;
verus! {
pub mod prelude {
use vstd::prelude::*;
use vstd::arithmetic::power::*;
use vstd::arithmetic::mul::*;
use vstd::arithmetic::div_mod::*;

// ------------------------------------------------------------------ powers of ten
pub open spec fn pow10(n: int) -> int { if n <= 0 { 1 } else { pow(10, n as nat) } }

pub proof fn lemma_pow10_pos(a: int) ensures pow10(a) > 0
{ if a > 0 { lemma_pow_positive(10, a as nat); } }

pub proof fn lemma_pow10_succ(a: int) requires a >= 0 ensures pow10(a + 1) == 10 * pow10(a)
{ reveal(pow); if a == 0 { assert(pow(10, 1) == 10 * pow(10, 0)); assert(pow(10,0) == 1); } }

pub proof fn lemma_pow10_add(a: int, b: int)
    requires a >= 0, b >= 0
    ensures pow10(a + b) == pow10(a) * pow10(b)
{
    lemma_pow_adds(10, a as nat, b as nat);
}

pub proof fn lemma_pow10_0() ensures pow10(0) == 1 {}
pub proof fn lemma_pow10_1() ensures pow10(1) == 10 { lemma_pow10_succ(0); }

pub proof fn lemma_pow10_mono(a: int, b: int)
    requires 0 <= a <= b
    ensures pow10(a) <= pow10(b)
{
    lemma_pow10_add(a, b - a);
    lemma_pow10_pos(a);
    lemma_pow10_pos(b - a);
    assert(pow10(a) <= pow10(a) * pow10(b - a)) by (nonlinear_arith)
        requires pow10(a) > 0, pow10(b - a) >= 1;
}

pub proof fn lemma_pow10_strict_mono(a: int, b: int)
    requires 0 <= a < b
    ensures pow10(a) < pow10(b), 10 * pow10(a) <= pow10(b)
{
    lemma_pow10_succ(a);
    lemma_pow10_mono(a + 1, b);
    lemma_pow10_pos(a);
}

/// an own recursive power usable with `by(compute)`
pub open spec fn spow(b: int, e: nat) -> int decreases e { if e == 0 { 1 } else { b * spow(b, (e - 1) as nat) } }

pub proof fn lemma_spow_is_pow(b: int, e: nat) ensures spow(b, e) == pow(b, e) decreases e
{ reveal(pow); if e > 0 { lemma_spow_is_pow(b, (e - 1) as nat); } }


/// 10^19 fits u64; concrete value obtained by computation on an own recursive power
pub proof fn lemma_pow10_19() ensures pow10(19) == 10_000_000_000_000_000_000int
{
    assert(spow(10, 19) == 10_000_000_000_000_000_000int) by (compute);
    lemma_spow_is_pow(10, 19);
}

pub proof fn lemma_pow10_9() ensures pow10(9) == 1_000_000_000int, pow10(8) == 100_000_000int
{
    assert(spow(10, 9) == 1_000_000_000int) by (compute);
    lemma_spow_is_pow(10, 9);
    lemma_pow10_succ(8);
}
/// for 0 <= n < 20: vstd pow and pow10 agree and the value fits u64
pub proof fn lemma_pow10_small(n: int)
    requires 0 <= n < 20
    ensures pow(10, n as nat) == pow10(n), 1 <= pow10(n) <= 10_000_000_000_000_000_000int, pow10(n) <= u64::MAX
{
    reveal(pow);
    lemma_pow10_19();
    lemma_pow10_mono(n, 19);
    lemma_pow10_pos(n);
}

pub open spec fn iabs(i: int) -> int { if i < 0 { -i } else { i } }
pub open spec fn isgn(i: int) -> int { if i < 0 { -1 } else if i == 0 { 0 } else { 1 } }
pub open spec fn imax(a: int, b: int) -> int { if a >= b { a } else { b } }
pub open spec fn imin(a: int, b: int) -> int { if a <= b { a } else { b } }
pub open spec fn cmp3(a: int, b: int) -> int { if a < b { -1 } else if a == b { 0 } else { 1 } }

// ------------------------------------------------------------------ truncated division (num-bigint `/`, `%`)
pub open spec fn tdiv(a: int, b: int) -> int
    recommends b != 0
{
    if a >= 0 && b > 0 { a / b }
    else if a < 0 && b > 0 { -((-a) / b) }
    else if a >= 0 && b < 0 { -(a / (-b)) }
    else { (-a) / (-b) }
}
pub open spec fn trem(a: int, b: int) -> int
    recommends b != 0
{
    a - b * tdiv(a, b)
}

pub proof fn lemma_trem_props(a: int, b: int)
    requires b != 0
    ensures iabs(trem(a, b)) < iabs(b),
            trem(a, b) == 0 || isgn(trem(a, b)) == isgn(a),
            trem(a, -b) == trem(a, b),
            a == b * tdiv(a, b) + trem(a, b),
{
    let aa = iabs(a); let bb = iabs(b);
    lemma_fundamental_div_mod(aa, bb);
    lemma_mod_bound(aa, bb);
    let q = aa / bb; let r = aa % bb;
    assert(aa == bb * q + r);
    if a >= 0 && b > 0 { assert(trem(a,b) == r); assert(tdiv(a,-b) == -(a/b)); assert(trem(a,-b) == a - (-b) * (-(q))); assert((-b) * (-q) == b * q) by (nonlinear_arith); }
    else if a < 0 && b > 0 { assert(tdiv(a,b) == -q); assert(b * (-q) == -(b*q)) by (nonlinear_arith); assert(trem(a,b) == -r); assert(tdiv(a,-b) == q); assert((-b) * q == -(b*q)) by (nonlinear_arith); }
    else if a >= 0 && b < 0 { assert(tdiv(a,b) == -q); assert(b * (-q) == bb * q) by (nonlinear_arith) requires bb == -b; assert(trem(a,b) == r); assert(tdiv(a,-b) == q); assert((-b)*q == bb*q); }
    else { assert(tdiv(a,b) == q); assert(b * q == -(bb*q)) by (nonlinear_arith) requires bb == -b; assert(trem(a,b) == -r); assert(tdiv(a,-b) == -q); assert((-b)*(-q) == -(bb*q)) by (nonlinear_arith) requires bb == -b; }
}


/// sign * (d / p) is the truncated quotient of (sign * d) by p
pub proof fn lemma_tdiv_sign(g: int, d: int, p: int)
    requires -1 <= g <= 1, d >= 0, p > 0
    ensures g * (d / p) == tdiv(g * d, p)
{
    if g == 0 { assert(0 * d == 0); assert(0 * (d / p) == 0); assert(0int / p == 0) by { lemma_div_basics(p); } }
    else if g == 1 { assert(1 * d == d); assert(1 * (d / p) == d / p); }
    else {
        assert(-1 * d == -d); assert(-1 * (d / p) == -(d / p));
        if d == 0 { assert(0int / p == 0) by { lemma_div_basics(p); } }
    }
}


/// truncated division / remainder in terms of magnitudes (positive divisor)
pub proof fn lemma_tdiv_abs(a: int, b: int)
    requires b > 0
    ensures tdiv(a, b) == isgn(a) * (iabs(a) / b) || (a == 0 && tdiv(a, b) == 0),
            iabs(trem(a, b)) == iabs(a) % b,
            a >= 0 ==> tdiv(a, b) == a / b,
            a < 0 ==> tdiv(a, b) == -((-a) / b)
{
    let n = iabs(a);
    lemma_fundamental_div_mod(n, b);
    lemma_mod_bound(n, b);
    if a > 0 { assert(1 * (n / b) == n / b); }
    else if a < 0 {
        assert(-1 * (n / b) == -(n / b));
        assert(b * (-(n / b)) == -(b * (n / b))) by (nonlinear_arith);
    } else {
        assert(0int / b == 0) by { lemma_div_basics(b); }
        assert(0 * (0int / b) == 0);
    }
}

// ------------------------------------------------------------------ decimal digit count
/// least d >= 1 with n < 10^d  (n >= 0)
pub open spec fn ndigits(n: int) -> int
    decreases n
{
    if n < 10 { 1 } else { 1 + ndigits(n / 10) }
}

pub proof fn lemma_ndigits_bounds(n: int)
    requires n >= 0
    ensures ndigits(n) >= 1, n < pow10(ndigits(n)), n > 0 ==> pow10(ndigits(n) - 1) <= n
    decreases n
{
    if n < 10 { lemma_pow10_1(); }
    else {
        lemma_ndigits_bounds(n / 10);
        let d = ndigits(n / 10);
        lemma_pow10_succ(d);
        lemma_pow10_succ(d - 1);
        lemma_fundamental_div_mod(n, 10);
    }
}

/// characterisation: 10^(d-1) <= n < 10^d  ==>  ndigits(n) == d
pub proof fn lemma_ndigits_unique(n: int, d: int)
    requires n >= 0, d >= 1, n < pow10(d), (d > 1 ==> pow10(d - 1) <= n)
    ensures ndigits(n) == d
{
    lemma_ndigits_bounds(n);
    let e = ndigits(n);
    if e < d { lemma_pow10_mono(e, d - 1); }
    if e > d { lemma_pow10_mono(d, e - 1); if n == 0 { } }
}


/// v < 10^j and 10^j <= 2v  ==>  v has exactly j digits and its leading digit is >= 5
pub proof fn lemma_ndigits_unique_half(v: int, j: int)
    requires v > 0, j >= 0, v < pow10(j), pow10(j) <= 2 * v
    ensures j >= 1, ndigits(v) == j, 2 * v >= pow10(ndigits(v))
{
    if j == 0 { }
    else {
        lemma_pow10_succ(j - 1);
        lemma_ndigits_unique(v, j);
    }
}

// ------------------------------------------------------------------ digit sequences
/// value of little-endian decimal digit sequence
pub open spec fn dle(s: Seq<u8>) -> int
    decreases s.len()
{
    if s.len() == 0 { 0 } else { s[0] as int + 10 * dle(s.drop_first()) }
}
/// value of big-endian decimal digit sequence
pub open spec fn dbe(s: Seq<u8>) -> int
    decreases s.len()
{
    if s.len() == 0 { 0 } else { 10 * dbe(s.drop_last()) + s.last() as int }
}
pub open spec fn valid_digits(s: Seq<u8>) -> bool { forall|i: int| 0 <= i < s.len() ==> s[i] <= 9 }
pub open spec fn all_zero(s: Seq<u8>) -> bool { forall|i: int| 0 <= i < s.len() ==> s[i] == 0 }

pub proof fn lemma_dle_bounds(s: Seq<u8>)
    requires valid_digits(s)
    ensures 0 <= dle(s) < pow10(s.len() as int)
    decreases s.len()
{
    if s.len() == 0 { } else {
        lemma_dle_bounds(s.drop_first());
        lemma_pow10_succ(s.len() as int - 1);
    }
}

pub proof fn lemma_dle_split(s: Seq<u8>, k: int)
    requires 0 <= k <= s.len()
    ensures dle(s) == dle(s.subrange(0, k)) + pow10(k) * dle(s.subrange(k, s.len() as int))
    decreases k
{
    if k == 0 {
        assert(s.subrange(0, 0).len() == 0);
        assert(s.subrange(0, s.len() as int) =~= s);
    } else {
        let t = s.drop_first();
        lemma_dle_split(t, k - 1);
        assert(t.subrange(0, k - 1) =~= s.subrange(0, k).drop_first());
        assert(t.subrange(k - 1, t.len() as int) =~= s.subrange(k, s.len() as int));
        assert(s.subrange(0, k)[0] == s[0]);
        lemma_pow10_succ(k - 1);
        let hi = dle(s.subrange(k, s.len() as int));
        assert(10 * (pow10(k - 1) * hi) == pow10(k) * hi) by (nonlinear_arith)
            requires pow10(k) == 10 * pow10(k - 1);
    }
}

pub proof fn lemma_dle_all_zero(s: Seq<u8>)
    requires valid_digits(s)
    ensures all_zero(s) <==> dle(s) == 0
    decreases s.len()
{
    if s.len() == 0 { } else {
        lemma_dle_all_zero(s.drop_first());
        lemma_dle_bounds(s.drop_first());
        let t = s.drop_first();
        if all_zero(s) {
            assert forall|i: int| 0 <= i < t.len() implies t[i] == 0 by { assert(t[i] == s[i + 1]); }
        }
        if dle(s) == 0 {
            assert(s[0] == 0 && dle(t) == 0);
            assert forall|i: int| 0 <= i < s.len() implies s[i] == 0 by { if i > 0 { assert(s[i] == t[i - 1]); } }
        }
    }
}

pub proof fn lemma_dle_update(s: Seq<u8>, j: int, d: u8)
    requires 0 <= j < s.len()
    ensures dle(s.update(j, d)) == dle(s) + (d as int - s[j] as int) * pow10(j)
    decreases j
{
    if j == 0 {
        assert(s.update(0, d).drop_first() =~= s.drop_first());
    } else {
        let t = s.drop_first();
        lemma_dle_update(t, j - 1, d);
        assert(s.update(j, d).drop_first() =~= t.update(j - 1, d));
        lemma_pow10_succ(j - 1);
        let delta = d as int - s[j] as int;
        assert(10 * (delta * pow10(j - 1)) == delta * pow10(j)) by (nonlinear_arith)
            requires pow10(j) == 10 * pow10(j - 1);
    }
}

pub proof fn lemma_dle_push(s: Seq<u8>, d: u8)
    ensures dle(s.push(d)) == dle(s) + d as int * pow10(s.len() as int)
    decreases s.len()
{
    if s.len() == 0 {
        assert(s.push(d).drop_first() =~= Seq::<u8>::empty());
        assert(s.push(d)[0] == d);
        assert(dle(s.push(d)) == d as int + 10 * dle(s.push(d).drop_first()));
    } else {
        assert(s.push(d)[0] == s[0]);
        assert(dle(s.push(d)) == s[0] as int + 10 * dle(s.push(d).drop_first()));
        let t = s.drop_first();
        lemma_dle_push(t, d);
        assert(s.push(d).drop_first() =~= t.push(d));
        lemma_pow10_succ(t.len() as int);
        assert(10 * (d as int * pow10(t.len() as int)) == d as int * pow10(s.len() as int)) by (nonlinear_arith)
            requires pow10(s.len() as int) == 10 * pow10(t.len() as int);
    }
}

/// a digit sequence with non-zero top digit has exactly len digits
pub proof fn lemma_dle_ndigits(s: Seq<u8>)
    requires valid_digits(s), s.len() >= 1, s.last() != 0
    ensures ndigits(dle(s)) == s.len()
{
    let k = s.len() as int - 1;
    lemma_dle_split(s, k);
    let top = s.subrange(k, s.len() as int);
    assert(top.drop_first() =~= Seq::<u8>::empty());
    assert(top[0] == s.last());
    assert(dle(top) == top[0] as int + 10 * dle(top.drop_first()));
    assert forall|j: int| 0 <= j < s.subrange(0, k).len() implies s.subrange(0, k)[j] <= 9 by { }
    lemma_dle_bounds(s.subrange(0, k));
    lemma_dle_bounds(s);
    lemma_pow10_pos(k);
    assert(pow10(k) * dle(top) >= pow10(k)) by (nonlinear_arith) requires dle(top) >= 1, pow10(k) > 0;
    lemma_ndigits_unique(dle(s), s.len() as int);
}


/// big-endian: k trailing zero digits are a factor 10^k
pub proof fn lemma_dbe_trailing_zeros(s: Seq<u8>, k: int)
    requires 0 <= k <= s.len(), forall|i: int| s.len() - k <= i < s.len() ==> s[i] == 0
    ensures dbe(s) == dbe(s.subrange(0, s.len() - k)) * pow10(k)
    decreases k
{
    if k == 0 {
        assert(s.subrange(0, s.len() as int) =~= s);
    } else {
        let t = s.drop_last();
        assert(s.last() == 0);
        lemma_dbe_trailing_zeros(t, k - 1);
        assert(t.subrange(0, t.len() - (k - 1)) =~= s.subrange(0, s.len() - k));
        lemma_pow10_succ(k - 1);
        let x = dbe(s.subrange(0, s.len() - k));
        assert(10 * (x * pow10(k - 1)) == x * pow10(k)) by (nonlinear_arith) requires pow10(k) == 10 * pow10(k - 1);
    }
}

/// big-endian: the last digit is the value mod 10
pub proof fn lemma_dbe_last_digit(s: Seq<u8>)
    requires s.len() >= 1, valid_digits(s)
    ensures dbe(s) % 10 == s.last() as int, dbe(s) >= 0
    decreases s.len()
{
    let t = s.drop_last();
    if t.len() > 0 { lemma_dbe_last_digit(t); } else { assert(dbe(t) == 0); }
    assert forall|i: int| 0 <= i < t.len() implies t[i] <= 9 by { assert(t[i] == s[i]); }
    lemma_dbe_nonneg(t);
    lemma_fundamental_div_mod_converse(dbe(s), 10, dbe(t), s.last() as int);
}
pub proof fn lemma_dbe_nonneg(s: Seq<u8>) ensures dbe(s) >= 0 decreases s.len()
{ if s.len() > 0 { lemma_dbe_nonneg(s.drop_last()); } }

pub proof fn lemma_mod_sign(g: int, q: int)
    requires -1 <= g <= 1, g != 0, q >= 0, q % 10 != 0
    ensures (g * q) % 10 != 0
{
    if g == 1 { assert(1 * q == q); }
    else {
        assert(-1 * q == -q);
        // (-q) % 10 == 0  ==>  q % 10 == 0
        if (-q) % 10 == 0 {
            lemma_fundamental_div_mod(-q, 10);
            let d = (-q) / 10;
            assert(-q == 10 * d);
            lemma_fundamental_div_mod_converse(q, 10, -d, 0);
        }
    }
}


/// the value of the top part grows by one digit: dle(s[j..]) == s[j] + 10 * dle(s[j+1..])
/// little-endian digit strings of equal length denote the same number only if they are the same string
pub proof fn lemma_dle_inj(a: Seq<u8>, b: Seq<u8>)
    requires valid_digits(a), valid_digits(b), a.len() == b.len()
    ensures (dle(a) == dle(b)) <==> (a =~= b)
    decreases a.len()
{
    if a.len() == 0 { } else {
        let ta = a.drop_first(); let tb = b.drop_first();
        assert forall|i: int| 0 <= i < ta.len() implies ta[i] <= 9 by { assert(ta[i] == a[i + 1]); }
        assert forall|i: int| 0 <= i < tb.len() implies tb[i] <= 9 by { assert(tb[i] == b[i + 1]); }
        lemma_dle_inj(ta, tb);
        if dle(a) == dle(b) {
            // a0 + 10*x == b0 + 10*y with digits a0, b0
            assert(a[0] == b[0] && dle(ta) == dle(tb));
            assert forall|i: int| 0 <= i < a.len() implies a[i] == b[i] by { if i > 0 { assert(a[i] == ta[i - 1]); assert(b[i] == tb[i - 1]); } }
        }
        if a =~= b { assert(ta =~= tb); }
    }
}
pub proof fn lemma_valid_digits_suffix(s: Seq<u8>, j: int)
    requires 0 <= j <= s.len(), valid_digits(s)
    ensures valid_digits(s.subrange(j, s.len() as int))
{
    let t = s.subrange(j, s.len() as int);
    assert forall|i: int| 0 <= i < t.len() implies t[i] <= 9 by { assert(t[i] == s[i + j]); }
}
pub proof fn lemma_dle_top_step(s: Seq<u8>, j: int)
    requires 0 <= j < s.len()
    ensures dle(s.subrange(j, s.len() as int)) == s[j] as int + 10 * dle(s.subrange(j + 1, s.len() as int))
{
    let t = s.subrange(j, s.len() as int);
    assert(t[0] == s[j]);
    assert(t.drop_first() =~= s.subrange(j + 1, s.len() as int));
}
/// a prefix of valid digits is below its power of ten
pub proof fn lemma_dle_prefix_bounds(s: Seq<u8>, j: int)
    requires 0 <= j <= s.len(), valid_digits(s)
    ensures 0 <= dle(s.subrange(0, j)) < pow10(j), valid_digits(s.subrange(0, j))
{
    let t = s.subrange(0, j);
    assert forall|i: int| 0 <= i < t.len() implies t[i] <= 9 by { assert(t[i] == s[i]); }
    lemma_dle_bounds(t);
}


// ------------------------------------------------------------------ big-endian digit lemmas and ASCII digits
pub proof fn lemma_dbe_bounds(s: Seq<u8>)
    requires valid_digits(s)
    ensures 0 <= dbe(s) < pow10(s.len() as int)
    decreases s.len()
{
    if s.len() > 0 {
        let t = s.drop_last();
        assert forall|i: int| 0 <= i < t.len() implies t[i] <= 9 by { assert(t[i] == s[i]); }
        lemma_dbe_bounds(t);
        lemma_pow10_succ(t.len() as int);
    }
}
/// dbe(s) == dbe(s[..j]) * 10^(len-j) + dbe(s[j..])
pub proof fn lemma_dbe_split(s: Seq<u8>, j: int)
    requires 0 <= j <= s.len()
    ensures dbe(s) == dbe(s.subrange(0, j)) * pow10(s.len() - j) + dbe(s.subrange(j, s.len() as int))
    decreases s.len() - j
{
    let n = s.len() as int;
    if j == n {
        assert(s.subrange(0, n) =~= s);
        assert(s.subrange(n, n).len() == 0);
    } else {
        // peel the last digit
        let t = s.drop_last();
        lemma_dbe_split(t, j);
        assert(t.subrange(0, j) =~= s.subrange(0, j));
        let hi = s.subrange(j, n);
        assert(hi.drop_last() =~= t.subrange(j, n - 1));
        assert(hi.last() == s.last());
        lemma_pow10_succ(n - 1 - j);
        let a = dbe(s.subrange(0, j));
        assert(10 * (a * pow10(n - 1 - j)) == a * pow10(n - j)) by (nonlinear_arith) requires pow10(n - j) == 10 * pow10(n - 1 - j);
    }
}
pub open spec fn all_nine(s: Seq<u8>) -> bool { forall|i: int| 0 <= i < s.len() ==> s[i] == 9 }
pub proof fn lemma_dbe_all_nine(s: Seq<u8>)
    requires all_nine(s)
    ensures dbe(s) == pow10(s.len() as int) - 1
    decreases s.len()
{
    if s.len() > 0 {
        let t = s.drop_last();
        assert forall|i: int| 0 <= i < t.len() implies t[i] == 9 by { assert(t[i] == s[i]); }
        lemma_dbe_all_nine(t);
        lemma_pow10_succ(t.len() as int);
    }
}
pub proof fn lemma_dbe_all_zero(s: Seq<u8>)
    requires valid_digits(s)
    ensures all_zero(s) <==> dbe(s) == 0
    decreases s.len()
{
    if s.len() > 0 {
        let t = s.drop_last();
        assert forall|i: int| 0 <= i < t.len() implies t[i] <= 9 by { assert(t[i] == s[i]); }
        lemma_dbe_all_zero(t);
        lemma_dbe_nonneg(t);
        if all_zero(s) { assert forall|i: int| 0 <= i < t.len() implies t[i] == 0 by { assert(t[i] == s[i]); } }
        if dbe(s) == 0 { assert forall|i: int| 0 <= i < s.len() implies s[i] == 0 by { if i < t.len() { assert(s[i] == t[i]); } } }
    }
}
/// ASCII digits '0'..'9' and their numeric digits
pub open spec fn ascii_digits(s: Seq<u8>) -> bool { forall|i: int| 0 <= i < s.len() ==> 48 <= (#[trigger] s[i]) && s[i] <= 57 }
pub open spec fn unascii(s: Seq<u8>) -> Seq<u8> { Seq::new(s.len(), |i: int| (s[i] - 48) as u8) }
/// value of a big-endian ASCII digit string
pub open spec fn dba(s: Seq<u8>) -> int { dbe(unascii(s)) }
pub proof fn lemma_unascii(s: Seq<u8>)
    requires ascii_digits(s)
    ensures valid_digits(unascii(s)), unascii(s).len() == s.len(),
            forall|i: int| 0 <= i < s.len() ==> #[trigger] unascii(s)[i] == s[i] - 48
{}
pub proof fn lemma_unascii_subrange(s: Seq<u8>, a: int, b: int)
    requires 0 <= a <= b <= s.len()
    ensures unascii(s.subrange(a, b)) =~= unascii(s).subrange(a, b)
{}
pub proof fn lemma_unascii_push(s: Seq<u8>, c: u8)
    ensures unascii(s.push(c)) =~= unascii(s).push((c - 48) as u8)
{}

pub proof fn lemma_dbe_is_dle_rev(s: Seq<u8>)
    ensures dbe(s) == dle(s.reverse())
    decreases s.len()
{
    if s.len() == 0 {
        assert(s.reverse().len() == 0);
    } else {
        let r = s.reverse();
        assert(r[0] == s.last());
        assert(r.drop_first() =~= s.drop_last().reverse());
        lemma_dbe_is_dle_rev(s.drop_last());
    }
}

} // mod prelude
} // verus!
