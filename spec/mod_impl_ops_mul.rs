use crate::stdlib::mem::swap;
