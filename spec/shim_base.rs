// ASSUMED contracts for num-bigint 0.4 / num-traits / num-integer / std.
// Every item here is trusted (external_body, assume_specification or an axiom); the
// thorough tier executes these contracts as run-time assertions against the real
// libraries (assumption audit).  Generated operator impls are spliced at the marker.
verus! {
pub mod shim {
use vstd::prelude::*;
use vstd::std_specs::cmp::*;
use vstd::std_specs::convert::*;
use core::cmp::Ordering;
use crate::prelude::*;

// ------------------------------------------------------------------ Sign
#[derive(Clone, Copy, Debug)]
pub enum Sign { Minus, NoSign, Plus }
impl PartialEqSpecImpl for Sign {
    open spec fn obeys_eq_spec() -> bool { true }
    open spec fn eq_spec(&self, other: &Sign) -> bool { *self == *other }
}
impl PartialEq for Sign {
    #[verifier::external_body]
    fn eq(&self, other: &Sign) -> bool { unimplemented!() }
}
impl Eq for Sign {}

pub open spec fn sgn(s: Sign) -> int { match s { Sign::Minus => -1, Sign::NoSign => 0, Sign::Plus => 1 } }
pub open spec fn sign_of(i: int) -> Sign { if i < 0 { Sign::Minus } else if i == 0 { Sign::NoSign } else { Sign::Plus } }
pub open spec fn ord_of(a: int, b: int) -> Ordering { if a < b { Ordering::Less } else if a == b { Ordering::Equal } else { Ordering::Greater } }

impl vstd::std_specs::ops::NegSpecImpl for Sign {
    open spec fn obeys_neg_spec() -> bool { true }
    open spec fn neg_req(self) -> bool { true }
    open spec fn neg_spec(self) -> Sign { match self { Sign::Minus => Sign::Plus, Sign::NoSign => Sign::NoSign, Sign::Plus => Sign::Minus } }
}
impl core::ops::Neg for Sign {
    type Output = Sign;
    #[verifier::external_body]
    fn neg(self) -> (ret: Sign) { unimplemented!() }
}
impl vstd::std_specs::ops::MulSpecImpl<Sign> for Sign {
    open spec fn obeys_mul_spec() -> bool { true }
    open spec fn mul_req(self, rhs: Sign) -> bool { true }
    open spec fn mul_spec(self, rhs: Sign) -> Sign { sign_of(sgn(self) * sgn(rhs)) }
}
impl core::ops::Mul<Sign> for Sign {
    type Output = Sign;
    #[verifier::external_body]
    fn mul(self, rhs: Sign) -> (ret: Sign) { unimplemented!() }
}
impl PartialOrdSpecImpl for Sign {
    open spec fn obeys_partial_cmp_spec() -> bool { true }
    open spec fn partial_cmp_spec(&self, other: &Sign) -> Option<Ordering> { Some(ord_of(sgn(*self), sgn(*other))) }
}
impl PartialOrd for Sign {
    #[verifier::external_body]
    fn partial_cmp(&self, other: &Sign) -> Option<Ordering> { unimplemented!() }
}
impl OrdSpecImpl for Sign {
    open spec fn obeys_cmp_spec() -> bool { true }
    open spec fn cmp_spec(&self, other: &Sign) -> Ordering { ord_of(sgn(*self), sgn(*other)) }
}
impl Ord for Sign {
    #[verifier::external_body]
    fn cmp(&self, other: &Sign) -> Ordering { unimplemented!() }
}

// ------------------------------------------------------------------ big integers (opaque)
#[verifier::external_body]
pub struct BigInt { inner: Vec<u32> }
#[verifier::external_body]
pub struct BigUint { inner: Vec<u32> }
#[verifier::external_body]
pub struct ParseBigIntError { inner: u8 }

impl View for BigInt { type V = int; uninterp spec fn view(&self) -> int; }
impl View for BigUint { type V = nat; uninterp spec fn view(&self) -> nat; }

/// size assumption: every big integer handled has fewer than 2^60 bits (DESIGN 5, "Size")
pub open spec fn size_ok(n: int) -> bool { -pow10(0x0400_0000_0000_0000) < n < pow10(0x0400_0000_0000_0000) }

pub uninterp spec fn spec_magnitude(n: &BigInt) -> BigUint;
/// bit length of |v| (num-bigint `bits()`): 0 for zero, else 2^(b-1) <= |v| < 2^b; below 2^60 by the size assumption
pub uninterp spec fn bits_spec(v: int) -> int;
#[verifier::external_body]
pub proof fn lemma_bits_spec(v: int)
    ensures 0 <= bits_spec(v) < 0x1000_0000_0000_0000,
            v == 0 ==> bits_spec(v) == 0,
            v != 0 ==> bits_spec(v) >= 1 && pow2i(bits_spec(v) - 1) <= iabs(v) < pow2i(bits_spec(v))
{}
#[verifier::external_body]
pub broadcast proof fn axiom_spec_magnitude(n: &BigInt)
    ensures #[trigger] spec_magnitude(n)@ == iabs(n@)
{}

macro_rules! cmp_impls {
    ($t:ty) => { verus! {
        impl PartialEqSpecImpl for $t {
            open spec fn obeys_eq_spec() -> bool { true }
            open spec fn eq_spec(&self, other: &$t) -> bool { self@ == other@ }
        }
        impl PartialEq for $t {
            #[verifier::external_body]
            fn eq(&self, other: &$t) -> bool { unimplemented!() }
        }
        impl Eq for $t {}
        impl PartialOrdSpecImpl for $t {
            open spec fn obeys_partial_cmp_spec() -> bool { true }
            open spec fn partial_cmp_spec(&self, other: &$t) -> Option<Ordering> { Some(ord_of(self@ as int, other@ as int)) }
        }
        impl PartialOrd for $t {
            #[verifier::external_body]
            fn partial_cmp(&self, other: &$t) -> Option<Ordering> { unimplemented!() }
        }
        impl OrdSpecImpl for $t {
            open spec fn obeys_cmp_spec() -> bool { true }
            open spec fn cmp_spec(&self, other: &$t) -> Ordering { ord_of(self@ as int, other@ as int) }
        }
        impl Ord for $t {
            #[verifier::external_body]
            fn cmp(&self, other: &$t) -> Ordering { unimplemented!() }
        }
        impl Clone for $t {
            #[verifier::external_body]
            fn clone(&self) -> (ret: $t) ensures ret@ == self@ { unimplemented!() }
        }
    } };
}
cmp_impls!(BigInt);
cmp_impls!(BigUint);

// ------------------------------------------------------------------ num-traits (simplified trait shapes, same method names)
pub trait Zero: Sized {
    spec fn is_zero_spec(&self) -> bool;
    fn zero() -> (ret: Self) ensures ret.is_zero_spec();
    fn is_zero(&self) -> (ret: bool) ensures ret == self.is_zero_spec();
}
pub trait One: Sized {
    spec fn is_one_spec(&self) -> bool;
    fn one() -> (ret: Self) ensures ret.is_one_spec();
    fn is_one(&self) -> (ret: bool) ensures ret == self.is_one_spec();
}
/// ghost helper: integer value of a primitive or a reference to one
pub trait PrimInt: Sized { spec fn pv(&self) -> int; }

pub open spec fn fits_i64(v: int) -> bool { -0x8000_0000_0000_0000 <= v <= 0x7fff_ffff_ffff_ffff }
pub open spec fn fits_u64(v: int) -> bool { 0 <= v <= 0xffff_ffff_ffff_ffff }
pub open spec fn fits_i128(v: int) -> bool { -0x8000_0000_0000_0000_0000_0000_0000_0000 <= v <= 0x7fff_ffff_ffff_ffff_ffff_ffff_ffff_ffff }
pub open spec fn fits_u128(v: int) -> bool { 0 <= v <= 0xffff_ffff_ffff_ffff_ffff_ffff_ffff_ffff }
pub open spec fn fits_usize(v: int) -> bool { 0 <= v <= usize::MAX }
pub open spec fn fits_i32(v: int) -> bool { -0x8000_0000 <= v <= 0x7fff_ffff }
pub open spec fn fits_u8(v: int) -> bool { 0 <= v <= 255 }

pub trait ToPrimitive {
    spec fn tp_val(&self) -> int;
    /// whether conversion to an unsigned type is attempted at all (false for a negative decimal)
    spec fn tp_unsigned_ok(&self) -> bool;
    /// precondition of the conversions (scale bound for decimals; true for integers)
    spec fn tp_req(&self) -> bool;
    fn to_i64(&self) -> (ret: Option<i64>) requires self.tp_req() ensures ret == (if fits_i64(self.tp_val()) { Some(self.tp_val() as i64) } else { None });
    fn to_u64(&self) -> (ret: Option<u64>) requires self.tp_req() ensures ret == (if self.tp_unsigned_ok() && fits_u64(self.tp_val()) { Some(self.tp_val() as u64) } else { None });
    fn to_i128(&self) -> (ret: Option<i128>) requires self.tp_req() ensures ret == (if fits_i128(self.tp_val()) { Some(self.tp_val() as i128) } else { None });
    fn to_u128(&self) -> (ret: Option<u128>) requires self.tp_req() ensures ret == (if self.tp_unsigned_ok() && fits_u128(self.tp_val()) { Some(self.tp_val() as u128) } else { None });
}

/// num_traits::FromPrimitive: the six methods the crate implements (the provided narrower ones are not modelled)
pub trait FromPrimitive: Sized {
    fn from_i64(n: i64) -> Option<Self>;
    fn from_u64(n: u64) -> Option<Self>;
    fn from_i128(n: i128) -> Option<Self>;
    fn from_u128(n: u128) -> Option<Self>;
    fn from_f32(n: f32) -> Option<Self>;
    fn from_f64(n: f64) -> Option<Self>;
}

/// num_bigint::ToBigInt
pub trait ToBigInt {
    spec fn to_bigint_req(&self) -> bool;
    spec fn to_bigint_val(&self) -> int;
    fn to_bigint(&self) -> (ret: Option<BigInt>)
        requires self.to_bigint_req()
        ensures ret.is_some() && ret.unwrap()@ == self.to_bigint_val();
}

/// provided methods of num_traits::ToPrimitive used by the crate on integers only
pub trait ToPrimitiveExt: ToPrimitive {
    fn to_usize(&self) -> (ret: Option<usize>) requires self.tp_req() ensures ret == (if fits_usize(self.tp_val()) { Some(self.tp_val() as usize) } else { None });
    fn to_i32(&self) -> (ret: Option<i32>) requires self.tp_req() ensures ret == (if fits_i32(self.tp_val()) { Some(self.tp_val() as i32) } else { None });
    fn to_u8(&self) -> (ret: Option<u8>) requires self.tp_req() ensures ret == (if fits_u8(self.tp_val()) { Some(self.tp_val() as u8) } else { None });
}

impl Zero for BigInt {
    open spec fn is_zero_spec(&self) -> bool { self@ == 0 }
    #[verifier::external_body] fn zero() -> (ret: Self) { unimplemented!() }
    #[verifier::external_body] fn is_zero(&self) -> (ret: bool) { unimplemented!() }
}
impl Zero for BigUint {
    open spec fn is_zero_spec(&self) -> bool { self@ == 0 }
    #[verifier::external_body] fn zero() -> (ret: Self) { unimplemented!() }
    #[verifier::external_body] fn is_zero(&self) -> (ret: bool) { unimplemented!() }
}
impl One for BigInt {
    open spec fn is_one_spec(&self) -> bool { self@ == 1 }
    #[verifier::external_body] fn one() -> (ret: Self) { unimplemented!() }
    #[verifier::external_body] fn is_one(&self) -> (ret: bool) { unimplemented!() }
}
impl One for BigUint {
    open spec fn is_one_spec(&self) -> bool { self@ == 1 }
    #[verifier::external_body] fn one() -> (ret: Self) { unimplemented!() }
    #[verifier::external_body] fn is_one(&self) -> (ret: bool) { unimplemented!() }
}
impl ToPrimitive for BigInt {
    open spec fn tp_val(&self) -> int { self@ }
    open spec fn tp_unsigned_ok(&self) -> bool { true }
    open spec fn tp_req(&self) -> bool { true }
    #[verifier::external_body] fn to_i64(&self) -> (ret: Option<i64>) { unimplemented!() }
    #[verifier::external_body] fn to_u64(&self) -> (ret: Option<u64>) { unimplemented!() }
    #[verifier::external_body] fn to_i128(&self) -> (ret: Option<i128>) { unimplemented!() }
    #[verifier::external_body] fn to_u128(&self) -> (ret: Option<u128>) { unimplemented!() }
}
impl ToPrimitiveExt for BigInt {
    #[verifier::external_body] fn to_usize(&self) -> (ret: Option<usize>) { unimplemented!() }
    #[verifier::external_body] fn to_i32(&self) -> (ret: Option<i32>) { unimplemented!() }
    #[verifier::external_body] fn to_u8(&self) -> (ret: Option<u8>) { unimplemented!() }
}
impl ToPrimitive for BigUint {
    open spec fn tp_val(&self) -> int { self@ as int }
    open spec fn tp_unsigned_ok(&self) -> bool { true }
    open spec fn tp_req(&self) -> bool { true }
    #[verifier::external_body] fn to_i64(&self) -> (ret: Option<i64>) { unimplemented!() }
    #[verifier::external_body] fn to_u64(&self) -> (ret: Option<u64>) { unimplemented!() }
    #[verifier::external_body] fn to_i128(&self) -> (ret: Option<i128>) { unimplemented!() }
    #[verifier::external_body] fn to_u128(&self) -> (ret: Option<u128>) { unimplemented!() }
}
impl ToPrimitiveExt for BigUint {
    #[verifier::external_body] fn to_usize(&self) -> (ret: Option<usize>) { unimplemented!() }
    #[verifier::external_body] fn to_i32(&self) -> (ret: Option<i32>) { unimplemented!() }
    #[verifier::external_body] fn to_u8(&self) -> (ret: Option<u8>) { unimplemented!() }
}

/// num_traits::CheckedSub -- marker only: `diff`/`checked_diff` are the sole users and are instantiated at i64
pub trait CheckedSub: Sized {}
impl CheckedSub for i64 {}
impl CheckedSub for u64 {}

/// num_integer::Integer (the methods the crate uses)
pub trait NumInteger: Sized {
    spec fn int_val(&self) -> int;
    fn is_even(&self) -> (ret: bool) ensures ret == (self.int_val() % 2 == 0);
    fn is_odd(&self) -> (ret: bool) ensures ret == (self.int_val() % 2 != 0);
    /// T-division pair; diverges on a zero divisor
    fn div_rem(&self, other: &Self) -> (ret: (Self, Self))
        ensures other.int_val() != 0,
                ret.0.int_val() == tdiv(self.int_val(), other.int_val()),
                ret.1.int_val() == trem(self.int_val(), other.int_val());
}
impl NumInteger for BigInt {
    open spec fn int_val(&self) -> int { self@ }
    #[verifier::external_body] fn is_even(&self) -> (ret: bool) { unimplemented!() }
    #[verifier::external_body] fn is_odd(&self) -> (ret: bool) { unimplemented!() }
    #[verifier::external_body] fn div_rem(&self, other: &Self) -> (ret: (Self, Self)) { unimplemented!() }
}
impl NumInteger for BigUint {
    open spec fn int_val(&self) -> int { self@ as int }
    #[verifier::external_body] fn is_even(&self) -> (ret: bool) { unimplemented!() }
    #[verifier::external_body] fn is_odd(&self) -> (ret: bool) { unimplemented!() }
    #[verifier::external_body] fn div_rem(&self, other: &Self) -> (ret: (Self, Self)) { unimplemented!() }
}
impl NumInteger for u64 {
    open spec fn int_val(&self) -> int { *self as int }
    #[verifier::external_body] fn is_even(&self) -> (ret: bool) { unimplemented!() }
    #[verifier::external_body] fn is_odd(&self) -> (ret: bool) { unimplemented!() }
    #[verifier::external_body] fn div_rem(&self, other: &Self) -> (ret: (Self, Self)) { unimplemented!() }
}
impl NumInteger for i64 {
    open spec fn int_val(&self) -> int { *self as int }
    #[verifier::external_body] fn is_even(&self) -> (ret: bool) { unimplemented!() }
    #[verifier::external_body] fn is_odd(&self) -> (ret: bool) { unimplemented!() }
    #[verifier::external_body] fn div_rem(&self, other: &Self) -> (ret: (Self, Self)) { unimplemented!() }
}
impl NumInteger for u32 {
    open spec fn int_val(&self) -> int { *self as int }
    #[verifier::external_body] fn is_even(&self) -> (ret: bool) { unimplemented!() }
    #[verifier::external_body] fn is_odd(&self) -> (ret: bool) { unimplemented!() }
    #[verifier::external_body] fn div_rem(&self, other: &Self) -> (ret: (Self, Self)) { unimplemented!() }
}
/// num_integer::div_rem (free function, by value)
#[verifier::external_body]
pub fn integer_div_rem<T: NumInteger>(x: T, y: T) -> (ret: (T, T))
    ensures y.int_val() != 0,
            ret.0.int_val() == tdiv(x.int_val(), y.int_val()),
            ret.1.int_val() == trem(x.int_val(), y.int_val())
{ unimplemented!() }
pub use NumInteger as IntegerTrait;

/// num_traits::Signed as used on BigInt (`abs`, `is_negative`, `is_positive`) and implemented by the crate
pub trait Signed: Sized {
    spec fn signed_val(&self) -> int;
    spec fn abs_post(&self, ret: &Self) -> bool;
    fn abs(&self) -> (ret: Self) ensures self.abs_post(&ret);
    spec fn abs_sub_post(&self, other: &Self, ret: &Self) -> bool;
    spec fn abs_sub_req(&self, other: &Self) -> bool;
    fn abs_sub(&self, other: &Self) -> (ret: Self) requires self.abs_sub_req(other) ensures self.abs_sub_post(other, &ret);
    spec fn signum_post(&self, ret: &Self) -> bool;
    fn signum(&self) -> (ret: Self) ensures self.signum_post(&ret);
    fn is_positive(&self) -> (ret: bool) ensures ret == (self.signed_val() > 0);
    fn is_negative(&self) -> (ret: bool) ensures ret == (self.signed_val() < 0);
}
impl Signed for BigInt {
    open spec fn signed_val(&self) -> int { self@ }
    open spec fn abs_post(&self, ret: &Self) -> bool { ret@ == iabs(self@) }
    #[verifier::external_body] fn abs(&self) -> (ret: Self) { unimplemented!() }
    open spec fn abs_sub_req(&self, other: &Self) -> bool { true }
    open spec fn abs_sub_post(&self, other: &Self, ret: &Self) -> bool { ret@ == (if self@ <= other@ { 0 } else { self@ - other@ }) }
    #[verifier::external_body] fn abs_sub(&self, other: &Self) -> (ret: Self) { unimplemented!() }
    open spec fn signum_post(&self, ret: &Self) -> bool { ret@ == isgn(self@) }
    #[verifier::external_body] fn signum(&self) -> (ret: Self) { unimplemented!() }
    #[verifier::external_body] fn is_positive(&self) -> (ret: bool) { unimplemented!() }
    #[verifier::external_body] fn is_negative(&self) -> (ret: bool) { unimplemented!() }
}

impl vstd::std_specs::ops::NegSpecImpl for BigInt {
    open spec fn obeys_neg_spec() -> bool { false }
    open spec fn neg_req(self) -> bool { true }
    open spec fn neg_spec(self) -> BigInt { arbitrary() }
}
impl core::ops::Neg for BigInt {
    type Output = BigInt;
    #[verifier::external_body]
    fn neg(self) -> (ret: BigInt) ensures ret@ == -self@ { unimplemented!() }
}
impl<'a> vstd::std_specs::ops::NegSpecImpl for &'a BigInt {
    open spec fn obeys_neg_spec() -> bool { false }
    open spec fn neg_req(self) -> bool { true }
    open spec fn neg_spec(self) -> BigInt { arbitrary() }
}
impl<'a> core::ops::Neg for &'a BigInt {
    type Output = BigInt;
    #[verifier::external_body]
    fn neg(self) -> (ret: BigInt) ensures ret@ == -self@ { unimplemented!() }
}

impl FromSpecImpl<BigUint> for BigInt {
    open spec fn obeys_from_spec() -> bool { false }
    open spec fn from_spec(v: BigUint) -> Self { arbitrary() }
}
impl core::convert::From<BigUint> for BigInt {
    #[verifier::external_body]
    fn from(v: BigUint) -> (ret: BigInt) ensures ret@ == v@ { unimplemented!() }
}

impl BigInt {
    #[verifier::external_body]
    pub fn sign(&self) -> (ret: Sign) ensures ret == sign_of(self@) { unimplemented!() }
    #[verifier::external_body]
    pub fn magnitude(&self) -> (ret: &BigUint) ensures *ret == spec_magnitude(self), ret@ == iabs(self@) { unimplemented!() }
    /// num-bigint: NoSign zeroes the data; zero data gets NoSign
    #[verifier::external_body]
    pub fn from_biguint(sign: Sign, data: BigUint) -> (ret: BigInt) ensures ret@ == sgn(sign) * data@ { unimplemented!() }
    #[verifier::external_body]
    pub fn new(sign: Sign, digits: Vec<u32>) -> (ret: BigInt)
        ensures digits@.len() == 1 ==> ret@ == sgn(sign) * digits@[0]
    { unimplemented!() }
    #[verifier::external_body]
    pub fn bits(&self) -> (ret: u64)
        ensures ret == bits_spec(self@),
                self@ == 0 ==> ret == 0,
                self@ != 0 ==> pow2i(ret as int - 1) <= iabs(self@) < pow2i(ret as int),
                ret < 0x1000_0000_0000_0000
    { unimplemented!() }
    #[verifier::external_body]
    pub fn to_radix_le(&self, radix: u32) -> (ret: (Sign, Vec<u8>))
        requires radix == 10
        ensures ret.0 == sign_of(self@), valid_digits(ret.1@), dle(ret.1@) == iabs(self@),
                1 <= ret.1@.len() <= 0x1000_0000_0000_0000,
                self@ != 0 ==> ret.1@.last() != 0,
                self@ == 0 ==> ret.1@ =~= seq![0u8]
    { unimplemented!() }
    #[verifier::external_body]
    pub fn to_radix_be(&self, radix: u32) -> (ret: (Sign, Vec<u8>))
        requires radix == 10
        ensures ret.0 == sign_of(self@), valid_digits(ret.1@), dbe(ret.1@) == iabs(self@),
                1 <= ret.1@.len() <= 0x1000_0000_0000_0000,
                self@ != 0 ==> ret.1@[0] != 0,
                self@ == 0 ==> ret.1@ =~= seq![0u8]
    { unimplemented!() }
    #[verifier::external_body]
    pub fn from_radix_le(sign: Sign, buf: &[u8], radix: u32) -> (ret: Option<BigInt>)
        requires radix == 10
        ensures valid_digits(buf@) && buf@.len() > 0 ==> ret.is_some() && ret.unwrap()@ == sgn(sign) * dle(buf@)
    { unimplemented!() }
    #[verifier::external_body]
    pub fn from_radix_be(sign: Sign, buf: &[u8], radix: u32) -> (ret: Option<BigInt>)
        requires radix == 10
        ensures valid_digits(buf@) && buf@.len() > 0 ==> ret.is_some() && ret.unwrap()@ == sgn(sign) * dbe(buf@)
    { unimplemented!() }
    #[verifier::external_body]
    pub fn set_zero(&mut self) ensures final(self)@ == 0 { unimplemented!() }
}

pub open spec fn pow2i(n: int) -> int { if n <= 0 { 1 } else { vstd::arithmetic::power::pow(2, n as nat) } }
pub proof fn lemma_pow2i_succ(n: int) requires n >= 0 ensures pow2i(n + 1) == 2 * pow2i(n), pow2i(n) > 0
{
    reveal(vstd::arithmetic::power::pow);
    if n == 0 { assert(vstd::arithmetic::power::pow(2, 1) == 2 * vstd::arithmetic::power::pow(2, 0)); }
    if n > 0 { vstd::arithmetic::power::lemma_pow_positive(2, n as nat); }
}
/// size assumption: a big integer has fewer than 2^60 decimal digits
#[verifier::external_body]
pub proof fn lemma_size_digits(n: &BigUint) ensures ndigits(n@ as int) < 0x1000_0000_0000_0000 {}
#[verifier::external_body]
pub proof fn lemma_size_digits_int(n: &BigInt) ensures ndigits(iabs(n@)) < 0x1000_0000_0000_0000 {}


impl BigUint {
    #[verifier::external_body]
    pub fn bits(&self) -> (ret: u64)
        ensures ret == bits_spec(self@ as int),
                self@ == 0 ==> ret == 0,
                self@ != 0 ==> pow2i(ret as int - 1) <= self@ < pow2i(ret as int),
                ret < 0x1000_0000_0000_0000
    { unimplemented!() }
    #[verifier::external_body]
    pub fn to_radix_le(&self, radix: u32) -> (ret: Vec<u8>)
        requires radix == 10
        ensures valid_digits(ret@), dle(ret@) == self@,
                1 <= ret@.len() <= 0x1000_0000_0000_0000,
                self@ != 0 ==> ret@.last() != 0,
                self@ == 0 ==> ret@ =~= seq![0u8]
    { unimplemented!() }
    #[verifier::external_body]
    pub fn sqrt(&self) -> (ret: BigUint)
        ensures ret@ * ret@ <= self@ < (ret@ + 1) * (ret@ + 1)
    { unimplemented!() }
    #[verifier::external_body]
    pub fn nth_root(&self, n: u32) -> (ret: BigUint)
        requires n == 3
        ensures ret@ * ret@ * ret@ <= self@ < (ret@ + 1) * (ret@ + 1) * (ret@ + 1)
    { unimplemented!() }
    #[verifier::external_body]
    pub fn pow(&self, e: u32) -> (ret: BigUint)
        ensures ret@ == vstd::arithmetic::power::pow(self@ as int, e as nat)
    { unimplemented!() }
}

// ------------------------------------------------------------------ R4 / R6 helpers (rewrite targets)
/// R4: `panic!("Division by zero")` -- diverges; no precondition, so reaching it is allowed
#[verifier::external_body]
pub fn diverge_division_by_zero() ensures false { panic!("Division by zero") }

/// R6: `x.iter().all(Zero::is_zero)` on a byte slice
#[verifier::external_body]
pub fn iter_all_is_zero(x: &[u8]) -> (ret: bool) ensures ret == all_zero(x@) { unimplemented!() }

/// R6: `v.iter().rev().take_while(|i| **i == 0).count()` -- number of trailing zero entries
#[verifier::external_body]
pub fn count_trailing_zero_digits_be(x: &Vec<u8>) -> (ret: usize)
    ensures ret <= x@.len(),
            forall|i: int| x@.len() - ret <= i < x@.len() ==> x@[i] == 0,
            ret < x@.len() ==> x@[x@.len() - ret - 1] != 0
{ unimplemented!() }

/// R6: `s.iter().any(|&d| d != 0)`
#[verifier::external_body]
pub fn iter_any_nonzero(x: &[u8]) -> (ret: bool) ensures ret == !all_zero(x@) { unimplemented!() }

/// R6: `a.iter().zip(b.iter()).all(|(x, y)| x == y)`  (zip stops at the shorter slice)
#[verifier::external_body]
pub fn slices_equal(a: &[u8], b: &[u8]) -> (ret: bool)
    ensures ret == (forall|i: int| 0 <= i < a@.len() && i < b@.len() ==> a@[i] == b@[i])
{ unimplemented!() }

/// R6f / float axiom A1: `(bits as f64 / LOG2_10) as u64` never over-estimates: 10^g <= 2^bits.
/// IEEE-754 behaviour is outside Verus; Kani checks this bit-precisely for bits < 2^16 (harness a1_digit_estimate).
#[verifier::external_body]
pub fn f64_digit_estimate(bits: u64) -> (ret: u64)
    requires bits < 0x1000_0000_0000_0000
    ensures ret <= bits, pow10(ret as int) <= pow2i(bits as int)
{ unimplemented!() }

/// R6f / float axiom A2: `(LOG2_10 * scale as f64) as u64` never over-estimates log2(10^scale): 2^ret <= 10^scale.
/// Kani checks this bit-precisely for scale < 2^16 (harness a2_log2_scale).
#[verifier::external_body]
pub struct F64Log2Scale { v: f64 }
pub uninterp spec fn f64_log2_scale_val(x: F64Log2Scale) -> u64;
impl F64Log2Scale {
    #[verifier::external_body]
    pub fn new(scale: u64) -> (ret: F64Log2Scale)
        ensures pow2i(f64_log2_scale_val(ret) as int) <= pow10(scale as int)
    { unimplemented!() }
    #[verifier::external_body]
    pub fn as_u64(self) -> (ret: u64) ensures ret == f64_log2_scale_val(self) { unimplemented!() }
}

/// R6: `<vec>.iter().rev()` used with explicit `.next()` calls and a final `.all(Zero::is_zero)`.
/// Stand-in for core::iter::Rev<slice::Iter<u8>> with explicit (non-prophetic) ghost state: the digits and the
/// number of items already yielded.  Assumed semantics of std: items come from the last element to the first.
/// (vstd's prophetic iterator specs lost their facts at loop entry in this function; see DESIGN.md.)
#[verifier::external_body]
pub struct RevDigits<'a> { it: core::iter::Rev<core::slice::Iter<'a, u8>> }
impl<'a> RevDigits<'a> {
    pub uninterp spec fn digits(&self) -> Seq<u8>;
    pub uninterp spec fn pos(&self) -> int;
    #[verifier::external_body]
    pub fn new(v: &'a Vec<u8>) -> (ret: RevDigits<'a>)
        ensures ret.digits() == v@, ret.pos() == 0
    { unimplemented!() }
    #[verifier::external_body]
    pub fn next(&mut self) -> (ret: Option<&'a u8>)
        ensures final(self).digits() == old(self).digits(),
                0 <= old(self).pos() <= old(self).digits().len(),
                old(self).pos() < old(self).digits().len() ==> ret.is_some() && *ret.unwrap() == old(self).digits()[old(self).digits().len() - 1 - old(self).pos()] && final(self).pos() == old(self).pos() + 1,
                old(self).pos() >= old(self).digits().len() ==> ret.is_none() && final(self).pos() == old(self).pos()
    { unimplemented!() }
    /// `it.all(Zero::is_zero)`: every item not yet yielded is zero
    #[verifier::external_body]
    pub fn all_zero(&mut self) -> (ret: bool)
        ensures ret == (forall|j: int| 0 <= j < old(self).digits().len() - old(self).pos() ==> #[trigger] old(self).digits()[j] == 0)
    { unimplemented!() }
}

/// num-bigint `BigUint::iter_u32_digits()`: the base-2^32 words, least significant first, no leading zero word.
/// Explicit-state stand-in (same method name `next`), assumed semantics.
#[verifier::external_body]
pub struct U32Digits<'a> { it: core::slice::Iter<'a, u32> }
pub open spec fn wle(s: Seq<u32>) -> int
    decreases s.len()
{
    if s.len() == 0 { 0 } else { s[0] as int + 0x1_0000_0000 * wle(s.drop_first()) }
}
impl<'a> U32Digits<'a> {
    pub uninterp spec fn words(&self) -> Seq<u32>;
    pub uninterp spec fn pos(&self) -> int;
    #[verifier::external_body]
    pub fn next(&mut self) -> (ret: Option<u32>)
        ensures final(self).words() == old(self).words(),
                0 <= old(self).pos() <= old(self).words().len(),
                old(self).pos() < old(self).words().len() ==> ret == Some(old(self).words()[old(self).pos()]) && final(self).pos() == old(self).pos() + 1,
                old(self).pos() >= old(self).words().len() ==> ret.is_none() && final(self).pos() == old(self).pos()
    { unimplemented!() }
}
impl BigUint {
    #[verifier::external_body]
    pub fn iter_u32_digits(&self) -> (ret: U32Digits<'_>)
        ensures wle(ret.words()) == self@, ret.pos() == 0,
                ret.words().len() > 0 ==> ret.words().last() != 0,
                ret.words().len() < 0x1000_0000_0000_0000
    { unimplemented!() }
}

/// 64-bit word iterators (same explicit-state stand-in as U32Digits)
pub struct U64Digits<'a> { it: core::slice::Iter<'a, u64> }
pub open spec fn wle64(s: Seq<u64>) -> int
    decreases s.len()
{
    if s.len() == 0 { 0 } else { s[0] as int + 0x1_0000_0000_0000_0000 * wle64(s.drop_first()) }
}
impl<'a> U64Digits<'a> {
    pub uninterp spec fn words(&self) -> Seq<u64>;
    pub uninterp spec fn pos(&self) -> int;
    #[verifier::external_body]
    pub fn next(&mut self) -> (ret: Option<u64>)
        ensures final(self).words() == old(self).words(),
                0 <= old(self).pos() <= old(self).words().len(),
                old(self).pos() < old(self).words().len() ==> ret == Some(old(self).words()[old(self).pos()]) && final(self).pos() == old(self).pos() + 1,
                old(self).pos() >= old(self).words().len() ==> ret.is_none() && final(self).pos() == old(self).pos()
    { unimplemented!() }
}
impl BigUint {
    #[verifier::external_body]
    pub fn iter_u64_digits(&self) -> (ret: U64Digits<'_>)
        ensures wle64(ret.words()) == self@, ret.pos() == 0,
                ret.words().len() > 0 ==> ret.words().last() != 0
    { unimplemented!() }
    /// number of trailing zero BITS, None for zero
    #[verifier::external_body]
    pub fn trailing_zeros(&self) -> (ret: Option<u64>)
        ensures self@ == 0 <==> ret.is_none(),
                ret.is_some() ==> (self@ as int) % pow2i(ret.unwrap() as int) == 0 && ((self@ as int) / pow2i(ret.unwrap() as int)) % 2 == 1
    { unimplemented!() }
}
impl BigInt {
    #[verifier::external_body]
    pub fn iter_u64_digits(&self) -> (ret: U64Digits<'_>)
        ensures wle64(ret.words()) == iabs(self@), ret.pos() == 0,
                ret.words().len() > 0 ==> ret.words().last() != 0
    { unimplemented!() }
    #[verifier::external_body]
    pub fn iter_u32_digits(&self) -> (ret: U32Digits<'_>)
        ensures wle(ret.words()) == iabs(self@), ret.pos() == 0,
                ret.words().len() > 0 ==> ret.words().last() != 0,
                ret.words().len() < 0x1000_0000_0000_0000
    { unimplemented!() }
    #[verifier::external_body]
    pub fn into_parts(self) -> (ret: (Sign, BigUint))
        ensures ret.0 == sign_of(self@), ret.1@ == iabs(self@)
    { unimplemented!() }
    #[verifier::external_body]
    pub fn to_biguint(&self) -> (ret: Option<BigUint>)
        ensures self@ < 0 <==> ret.is_none(), ret.is_some() ==> ret.unwrap()@ == self@
    { unimplemented!() }
}

/// size assumption in bit form: |n| < 2^(2^60)
#[verifier::external_body]
pub proof fn lemma_size_bits(n: &BigUint) ensures (n@ as int) < pow2i(0x1000_0000_0000_0000) {}

/// R6: `s.iter().all(|&d| d == b'0')`
#[verifier::external_body]
pub fn iter_all_ascii_zero(x: &[u8]) -> (ret: bool)
    ensures ret == (forall|i: int| 0 <= i < x@.len() ==> x@[i] == 48u8)
{ unimplemented!() }

/// R6: `v.iter().rev().position(|&d| d != b'9')`: distance from the end of the last entry that is not '9'
#[verifier::external_body]
pub fn rposition_not_nine(x: &Vec<u8>) -> (ret: Option<usize>)
    ensures match ret {
        Some(c) => c < x@.len() && x@[x@.len() - 1 - c] != 57u8 && (forall|i: int| x@.len() - c <= i < x@.len() ==> x@[i] == 57u8),
        None => forall|i: int| 0 <= i < x@.len() ==> x@[i] == 57u8,
    }
{ unimplemented!() }

/// R2/R6: `s.split_first().unwrap_or((&b'0', &[]))`
#[verifier::external_body]
pub fn split_first_or_zero<'a>(s: &'a [u8]) -> (ret: (&'a u8, &'a [u8]))
    ensures s@.len() > 0 ==> *ret.0 == s@[0] && ret.1@ == s@.drop_first(),
            s@.len() == 0 ==> *ret.0 == 48u8 && ret.1@.len() == 0
{ unimplemented!() }


/// R6: `fill_slice(&mut v[..n], c)` (the crate's helper over `&mut [T]`; Verus has no mutable sub-slice borrow)
#[verifier::external_body]
pub fn fill_prefix(v: &mut Vec<u8>, n: usize, c: u8)
    requires n <= old(v)@.len()
    ensures final(v)@.len() == old(v)@.len(),
            forall|i: int| 0 <= i < n ==> final(v)@[i] == c,
            forall|i: int| n <= i < old(v)@.len() ==> final(v)@[i] == old(v)@[i]
{ unimplemented!() }

/// R6: `v.copy_within(..a, idx)`
#[verifier::external_body]
pub fn copy_prefix_within(v: &mut Vec<u8>, a: usize, idx: usize)
    requires a <= old(v)@.len(), idx + a <= old(v)@.len()
    ensures final(v)@.len() == old(v)@.len(),
            forall|i: int| 0 <= i < a ==> final(v)@[idx + i] == old(v)@[i],
            forall|i: int| 0 <= i < old(v)@.len() && !(idx <= i < idx + a) ==> final(v)@[i] == old(v)@[i]
{ unimplemented!() }

#[verifier::external_type_specification]
#[verifier::external_body]
pub struct ExParseFloatError(core::num::ParseFloatError);
#[verifier::external_type_specification]
#[verifier::external_body]
pub struct ExParseIntError(core::num::ParseIntError);

// ------------------------------------------------------------------ core::fmt (only what the Display dispatcher touches)
/// the precision of a format spec ({:.N}), as an uninterpreted attribute of the formatter
pub uninterp spec fn fmt_precision(f: &core::fmt::Formatter<'_>) -> Option<usize>;
/// ASSUMED besides: a requested precision stays below 2^60 (std limits it to 65535 since Rust 1.87)
pub open spec fn fmt_precision_ok(p: Option<usize>) -> bool { p.is_some() ==> p.unwrap() <= 0x1000_0000_0000_0000 }
pub assume_specification<'a> [core::fmt::Formatter::<'a>::precision] (f: &core::fmt::Formatter<'a>) -> (ret: Option<usize>)
    ensures ret == fmt_precision(f), fmt_precision_ok(ret);
/// characters of an ASCII byte string / bytes of an ASCII character string
pub open spec fn b2c(s: Seq<u8>) -> Seq<char> { Seq::new(s.len(), |i: int| s[i] as char) }
pub open spec fn c2b(s: Seq<char>) -> Seq<u8> { Seq::new(s.len(), |i: int| s[i] as u8) }
pub open spec fn ascii_bytes(s: Seq<u8>) -> bool { forall|i: int| 0 <= i < s.len() ==> (#[trigger] s[i]) < 128 }
pub proof fn lemma_b2c_c2b(s: Seq<u8>)
    requires ascii_bytes(s)
    ensures c2b(b2c(s)) =~= s
{
    assert forall|i: int| 0 <= i < s.len() implies #[trigger] c2b(b2c(s))[i] == s[i] by {
        let b = s[i];
        assert(b < 128);
        assert((b as char) as u8 == b);
    }
}
impl BigUint {
    /// decimal digit string: ASCII digits, as many characters as the number has digits, reading as the number;
    /// ASSUMED besides: a string is shorter than 2^60 bytes
    #[verifier::external_body]
    pub fn to_str_radix(&self, radix: u32) -> (ret: String)
        requires radix == 10
        ensures ret.is_ascii(), ret@.len() == ndigits(self@ as int), ret@.len() <= 0x1000_0000_0000_0000,
                ascii_digits(c2b(ret@)), dba(c2b(ret@)) == self@
    { unimplemented!() }
}
pub assume_specification [String::len] (s: &String) -> (ret: usize)
    ensures s.is_ascii() ==> ret == s@.len();
#[verifier::external_type_specification]
#[verifier::external_body]
pub struct ExFromUtf8Error(std::string::FromUtf8Error);
pub assume_specification [String::from_utf8] (v: Vec<u8>) -> (ret: Result<String, std::string::FromUtf8Error>)
    ensures ascii_bytes(v@) ==> (ret matches Ok(s) && s@ == b2c(v@) && s.is_ascii());
pub assume_specification [String::into_bytes] (s: String) -> (ret: Vec<u8>)
    ensures s.is_ascii() ==> (ascii_bytes(ret@) && ret@ == c2b(s@) && b2c(ret@) == s@);
pub assume_specification [String::insert] (s: &mut String, idx: usize, ch: char)
    requires old(s).is_ascii(), idx <= old(s)@.len(), (ch as u32) < 128
    ensures final(s).is_ascii(), final(s)@ == old(s)@.insert(idx as int, ch);
/// R6 `S.extend(iter::repeat(C).take(N))`
#[verifier::external_body]
pub fn string_extend_repeat(s: &mut String, ch: char, n: usize)
    requires old(s).is_ascii(), (ch as u32) < 128
    ensures final(s).is_ascii(), final(s)@ == old(s)@ + Seq::new(n as nat, |i: int| ch)
{ unimplemented!() }

/// what Formatter::pad_integral returns (and writes) for a sign flag, a prefix and a numeral: NOT specified (std);
/// the contracts pin the ARGUMENTS it is called with
pub uninterp spec fn pad_integral_spec(f: core::fmt::Formatter<'_>, nonneg: bool, prefix: Seq<char>, buf: Seq<char>) -> core::fmt::Result;
pub assume_specification<'a> [core::fmt::Formatter::<'a>::pad_integral] (f: &mut core::fmt::Formatter<'a>, is_nonnegative: bool, prefix: &str, buf: &str) -> (ret: core::fmt::Result)
    ensures ret == pad_integral_spec(*old(f), is_nonnegative, prefix@, buf@);

/// `write!(STRING, FMT, args..)`: appends the text std produces for the format string and the arguments, an
/// UNINTERPRETED function of both (the `write!` shadow macro below maps the call onto these functions)
pub enum FmtVal { Str(Seq<char>), Int(int) }
pub trait FmtArg { spec fn fv(&self) -> FmtVal; }
impl FmtArg for &str { open spec fn fv(&self) -> FmtVal { FmtVal::Str(self@) } }
impl FmtArg for i128 { open spec fn fv(&self) -> FmtVal { FmtVal::Int(*self as int) } }
impl FmtArg for i64 { open spec fn fv(&self) -> FmtVal { FmtVal::Int(*self as int) } }
pub uninterp spec fn fmt_text(fmt: Seq<char>, args: Seq<FmtVal>) -> Seq<char>;
#[verifier::external_body]
pub fn string_write1<A: FmtArg + core::fmt::Display>(s: &mut String, fmt: &str, a: &A) -> (r: core::fmt::Result)
    ensures r.is_ok(), final(s)@ == old(s)@ + fmt_text(fmt@, seq![a.fv()])
{ unimplemented!() }
#[verifier::external_body]
pub fn string_write2<A: FmtArg + core::fmt::Display, B: FmtArg + core::fmt::Display>(s: &mut String, fmt: &str, a: &A, b: &B) -> (r: core::fmt::Result)
    ensures r.is_ok(), final(s)@ == old(s)@ + fmt_text(fmt@, seq![a.fv(), b.fv()])
{ unimplemented!() }
pub assume_specification<T> [Option::<T>::or] (a: Option<T>, b: Option<T>) -> (ret: Option<T>)
    ensures ret == (if a.is_some() { a } else { b });

// ------------------------------------------------------------------ binary floats as division operands (C08 float forms)
/// What the crate's float division forms look at.  IEEE equality (`==`) is an UNINTERPRETED relation: the contracts say which
/// routine runs when the exec comparison with the literal holds, not what the literal means.
pub trait FloatSpec: Sized + Copy {
    spec fn fl_normal(self) -> bool;
    spec fn fl_eq(self, other: Self) -> bool;
    spec fn fl_exact(self, i: int, s: int) -> bool;
    spec fn fl_max_scale() -> int;
}
impl FloatSpec for f32 {
    open spec fn fl_normal(self) -> bool { f32_category(f32_bits(self)) == core::num::FpCategory::Normal }
    open spec fn fl_eq(self, other: f32) -> bool { self.eq_spec(&other) }
    open spec fn fl_exact(self, i: int, s: int) -> bool { crate::vs::f32_exact(f32_bits(self), i, s) }
    open spec fn fl_max_scale() -> int { 149 }
}
impl FloatSpec for f64 {
    open spec fn fl_normal(self) -> bool { f64_category(f64_bits(self)) == core::num::FpCategory::Normal }
    open spec fn fl_eq(self, other: f64) -> bool { self.eq_spec(&other) }
    open spec fn fl_exact(self, i: int, s: int) -> bool { crate::vs::f64_exact(f64_bits(self), i, s) }
    open spec fn fl_max_scale() -> int { 1074 }
}
/// num_traits::One on floats (`*self == 1.0`): uninterpreted, like the IEEE comparison itself
pub uninterp spec fn f32_is_one(f: f32) -> bool;
pub uninterp spec fn f64_is_one(f: f64) -> bool;
impl One for f32 {
    open spec fn is_one_spec(&self) -> bool { f32_is_one(*self) }
    #[verifier::external_body] fn one() -> (ret: Self) { unimplemented!() }
    #[verifier::external_body] fn is_one(&self) -> (ret: bool) { unimplemented!() }
}
impl One for f64 {
    open spec fn is_one_spec(&self) -> bool { f64_is_one(*self) }
    #[verifier::external_body] fn one() -> (ret: Self) { unimplemented!() }
    #[verifier::external_body] fn is_one(&self) -> (ret: bool) { unimplemented!() }
}
/// std: is_normal() is `classify() == FpCategory::Normal`
pub assume_specification [f32::is_normal] (d: f32) -> (r: bool) ensures r == d.fl_normal();
pub assume_specification [f64::is_normal] (d: f64) -> (r: bool) ensures r == d.fl_normal();

// ------------------------------------------------------------------ num_traits::PrimInt as used by the u64/u128 comparison fast path
// In a submodule: the trait has a method called `from`, which must not come into scope through `use crate::shim::*`
// (it would make `u64::from(x)` ambiguous everywhere); it is reachable only as num_traits::PrimInt.
pub mod nt {
use vstd::prelude::*;
use vstd::std_specs::cmp::*;
use core::cmp::Ordering;
use super::{BigUint, ord_of};
/// Only what compare_scaled_uints<T> touches.  Implemented (assumed) for u64 and u128.
pub trait NtPrimInt: Sized + Copy + Ord {
    spec fn nt_val(&self) -> int;
    spec fn nt_max() -> int;
    /// every value is within the range of the type
    proof fn nt_range(&self) ensures 0 <= self.nt_val() <= Self::nt_max();
    /// Ord::cmp on T is the comparison of the values
    proof fn nt_cmp_is_value_cmp(a: &Self, b: &Self)
        ensures Self::obeys_cmp_spec(), a.cmp_spec(b) == ord_of(a.nt_val(), b.nt_val());
    /// num_traits::NumCast::from, called with a small literal
    fn from(n: i32) -> (ret: Option<Self>)
        ensures 0 <= n <= 127 ==> ret.is_some() && ret.unwrap().nt_val() == n;
    /// num_traits::CheckedMul
    fn checked_mul(&self, v: &Self) -> (ret: Option<Self>)
        ensures ret.is_some() <==> self.nt_val() * v.nt_val() <= Self::nt_max(),
                ret.is_some() ==> ret.unwrap().nt_val() == self.nt_val() * v.nt_val();
}
/// num_traits::checked_pow
#[verifier::external_body]
pub fn nt_checked_pow<T: NtPrimInt>(base: T, exp: usize) -> (ret: Option<T>)
    ensures ret.is_some() <==> vstd::arithmetic::power::pow(base.nt_val(), exp as nat) <= T::nt_max(),
            ret.is_some() ==> ret.unwrap().nt_val() == vstd::arithmetic::power::pow(base.nt_val(), exp as nat)
{ unimplemented!() }
macro_rules! nt_prim_int {
    ($t:ty) => { verus! {
        impl NtPrimInt for $t {
            open spec fn nt_val(&self) -> int { *self as int }
            open spec fn nt_max() -> int { <$t>::MAX as int }
            proof fn nt_range(&self) {}
            proof fn nt_cmp_is_value_cmp(a: &Self, b: &Self) {}
            #[verifier::external_body] fn from(n: i32) -> (ret: Option<Self>) { unimplemented!() }
            #[verifier::external_body] fn checked_mul(&self, v: &Self) -> (ret: Option<Self>) { unimplemented!() }
        }
        /// num-bigint: TryFrom<&BigUint> for the primitive: Ok iff the value fits
        impl<'a> vstd::std_specs::convert::TryFromSpecImpl<&'a BigUint> for $t {
            open spec fn obeys_try_from_spec() -> bool { true }
            open spec fn try_from_spec(v: &'a BigUint) -> Result<Self, Self::Error> {
                if v@ <= <$t>::MAX { Ok(v@ as $t) } else { Err(TryFromBigIntError { _p: () }) }
            }
        }
        impl<'a> TryFrom<&'a BigUint> for $t {
            type Error = TryFromBigIntError;
            #[verifier::external_body] fn try_from(v: &'a BigUint) -> (ret: Result<Self, Self::Error>) { unimplemented!() }
        }
    } };
}
pub struct TryFromBigIntError { pub _p: () }
nt_prim_int!(u64);
nt_prim_int!(u128);
} // mod nt

// ------------------------------------------------------------------ IEEE-754 (axiom A3: to_bits / classify layout)
#[verifier::external_type_specification]
pub struct ExFpCategory(core::num::FpCategory);
pub uninterp spec fn f32_bits(f: f32) -> u32;
pub uninterp spec fn f64_bits(f: f64) -> u64;
pub open spec fn f32_category(bits: u32) -> core::num::FpCategory {
    let e = (bits >> 23) & 0xff; let m = bits & 0x7f_ffff;
    if e == 0xff { if m == 0 { core::num::FpCategory::Infinite } else { core::num::FpCategory::Nan } }
    else if e == 0 { if m == 0 { core::num::FpCategory::Zero } else { core::num::FpCategory::Subnormal } }
    else { core::num::FpCategory::Normal }
}
pub open spec fn f64_category(bits: u64) -> core::num::FpCategory {
    let e = (bits >> 52) & 0x7ff; let m = bits & 0xf_ffff_ffff_ffff;
    if e == 0x7ff { if m == 0 { core::num::FpCategory::Infinite } else { core::num::FpCategory::Nan } }
    else if e == 0 { if m == 0 { core::num::FpCategory::Zero } else { core::num::FpCategory::Subnormal } }
    else { core::num::FpCategory::Normal }
}
pub assume_specification [f32::to_bits] (f: f32) -> (ret: u32) ensures ret == f32_bits(f);
pub assume_specification [f64::to_bits] (f: f64) -> (ret: u64) ensures ret == f64_bits(f);
pub assume_specification [f32::classify] (f: f32) -> (ret: core::num::FpCategory) ensures ret == f32_category(f32_bits(f));
pub assume_specification [f64::classify] (f: f64) -> (ret: core::num::FpCategory) ensures ret == f64_category(f64_bits(f));
pub assume_specification [<core::num::FpCategory as PartialEq>::eq] (a: &core::num::FpCategory, b: &core::num::FpCategory) -> (ret: bool)
    ensures ret == (*a == *b);
pub assume_specification<T: Ord> [core::cmp::min] (a: T, b: T) -> (ret: T)
    ensures T::obeys_cmp_spec() ==> ret == (if b.cmp_spec(&a) == Ordering::Less { b } else { a });

impl BigUint {
    /// base-2^32 words, least significant first
    #[verifier::external_body]
    pub fn from_slice(words: &[u32]) -> (ret: BigUint) ensures ret@ == wle(words@) { unimplemented!() }
}

// ------------------------------------------------------------------ std
pub assume_specification<T> [<[T]>::split_last] (s: &[T]) -> (ret: Option<(&T, &[T])>)
    ensures match ret { None => s@.len() == 0, Some((l, rest)) => s@.len() > 0 && *l == s@.last() && rest@ == s@.drop_last() };

pub assume_specification<T: Ord> [core::cmp::max] (a: T, b: T) -> (ret: T)
    ensures T::obeys_cmp_spec() ==> ret == (if a.cmp_spec(&b) == Ordering::Greater { a } else { b });

pub assume_specification [i64::saturating_sub] (a: i64, b: i64) -> (ret: i64)
    ensures ret == (if a - b > i64::MAX { i64::MAX } else if a - b < i64::MIN { i64::MIN } else { (a - b) as i64 });

pub assume_specification<T, U> [Option::<T>::zip] (a: Option<T>, b: Option<U>) -> (ret: Option<(T, U)>)
    ensures ret == (if a.is_some() && b.is_some() { Some((a.unwrap(), b.unwrap())) } else { None::<(T, U)> });


pub assume_specification<T, F: FnOnce() -> Option<T>> [Option::<T>::or_else] (o: Option<T>, f: F) -> (ret: Option<T>)
    requires o.is_none() ==> f.requires(())
    ensures o.is_some() ==> ret == o, o.is_none() ==> f.ensures((), ret);
pub assume_specification<T, F: FnOnce(T) -> bool> [Option::<T>::is_some_and] (o: Option<T>, f: F) -> (ret: bool)
    requires o.is_some() ==> f.requires((o.unwrap(),))
    ensures o.is_none() ==> !ret, o.is_some() ==> f.ensures((o.unwrap(),), ret);

pub assume_specification [<Ordering as PartialEq>::eq] (a: &Ordering, b: &Ordering) -> (ret: bool)
    ensures ret == (*a == *b);

/// overflow at i64::MIN is excluded by the precondition (an obligation at every call)
pub assume_specification [i64::abs] (v: i64) -> (ret: i64)
    requires v != i64::MIN
    ensures ret == iabs(v as int);

pub assume_specification [core::cmp::Ordering::reverse] (o: Ordering) -> (ret: Ordering)
    ensures ret == (match o { Ordering::Less => Ordering::Greater, Ordering::Equal => Ordering::Equal, Ordering::Greater => Ordering::Less });

/// overflow (debug panic / release wrap-around) is excluded by the precondition, i.e. it is an obligation at every call
pub assume_specification [u64::pow] (b: u64, e: u32) -> (ret: u64)
    requires vstd::arithmetic::power::pow(b as int, e as nat) <= u64::MAX
    ensures ret == vstd::arithmetic::power::pow(b as int, e as nat);

pub assume_specification [u32::pow] (b: u32, e: u32) -> (ret: u32)
    requires vstd::arithmetic::power::pow(b as int, e as nat) <= u32::MAX
    ensures ret == vstd::arithmetic::power::pow(b as int, e as nat);
pub assume_specification [u8::pow] (b: u8, e: u32) -> (ret: u8)
    requires vstd::arithmetic::power::pow(b as int, e as nat) <= u8::MAX
    ensures ret == vstd::arithmetic::power::pow(b as int, e as nat);
pub assume_specification [u16::pow] (b: u16, e: u32) -> (ret: u16)
    requires vstd::arithmetic::power::pow(b as int, e as nat) <= u16::MAX
    ensures ret == vstd::arithmetic::power::pow(b as int, e as nat);
pub assume_specification [u128::pow] (b: u128, e: u32) -> (ret: u128)
    requires vstd::arithmetic::power::pow(b as int, e as nat) <= u128::MAX
    ensures ret == vstd::arithmetic::power::pow(b as int, e as nat);
pub assume_specification [usize::pow] (b: usize, e: u32) -> (ret: usize)
    requires vstd::arithmetic::power::pow(b as int, e as nat) <= usize::MAX
    ensures ret == vstd::arithmetic::power::pow(b as int, e as nat);
pub assume_specification [i32::pow] (b: i32, e: u32) -> (ret: i32)
    requires i32::MIN <= vstd::arithmetic::power::pow(b as int, e as nat) <= i32::MAX
    ensures ret == vstd::arithmetic::power::pow(b as int, e as nat);
pub assume_specification [i64::pow] (b: i64, e: u32) -> (ret: i64)
    requires i64::MIN <= vstd::arithmetic::power::pow(b as int, e as nat) <= i64::MAX
    ensures ret == vstd::arithmetic::power::pow(b as int, e as nat);
pub assume_specification [i128::pow] (b: i128, e: u32) -> (ret: i128)
    requires i128::MIN <= vstd::arithmetic::power::pow(b as int, e as nat) <= i128::MAX
    ensures ret == vstd::arithmetic::power::pow(b as int, e as nat);

// ------------------------------------------------------------------ more std integer / Option methods (so that changed code using them
// is decided instead of answering "unsupported"): each contract is the documented meaning; panics / overflow are preconditions
pub assume_specification [u64::abs_diff] (a: u64, b: u64) -> (ret: u64) ensures ret == (if a >= b { a - b } else { b - a });
pub assume_specification [u32::abs_diff] (a: u32, b: u32) -> (ret: u32) ensures ret == (if a >= b { a - b } else { b - a });
pub assume_specification [usize::abs_diff] (a: usize, b: usize) -> (ret: usize) ensures ret == (if a >= b { a - b } else { b - a });
pub assume_specification [i64::abs_diff] (a: i64, b: i64) -> (ret: u64) ensures ret == (if a >= b { a - b } else { b - a });
pub assume_specification [i64::unsigned_abs] (a: i64) -> (ret: u64) ensures ret == (if a >= 0 { a as int } else { -(a as int) });
pub assume_specification [i128::unsigned_abs] (a: i128) -> (ret: u128) ensures ret == (if a >= 0 { a as int } else { -(a as int) });
pub assume_specification [i64::signum] (a: i64) -> (ret: i64) ensures ret == (if a > 0 { 1int } else if a < 0 { -1int } else { 0int });
pub assume_specification [i64::is_positive] (a: i64) -> (ret: bool) ensures ret == (a > 0);
pub assume_specification [i64::is_negative] (a: i64) -> (ret: bool) ensures ret == (a < 0);
pub assume_specification [i64::saturating_add] (a: i64, b: i64) -> (ret: i64)
    ensures ret == (if a + b > i64::MAX { i64::MAX as int } else if a + b < i64::MIN { i64::MIN as int } else { a + b });
pub assume_specification [i64::checked_abs] (a: i64) -> (ret: Option<i64>)
    ensures ret == (if a == i64::MIN { None::<i64> } else if a >= 0 { Some(a) } else { Some((-(a as int)) as i64) });
pub assume_specification [i64::rem_euclid] (a: i64, b: i64) -> (ret: i64)
    requires b != 0, !(a == i64::MIN && b == -1)
    ensures b > 0 ==> ret == (a as int) % (b as int);
pub assume_specification [i64::div_euclid] (a: i64, b: i64) -> (ret: i64)
    requires b != 0, !(a == i64::MIN && b == -1)
    ensures b > 0 ==> ret == (a as int) / (b as int);
pub assume_specification<T, U> [Option::<T>::and] (a: Option<T>, b: Option<U>) -> (ret: Option<U>)
    ensures ret == (if a.is_some() { b } else { None::<U> });
pub assume_specification<T> [Option::<T>::xor] (a: Option<T>, b: Option<T>) -> (ret: Option<T>)
    ensures ret == (if a.is_some() && b.is_none() { a } else if a.is_none() && b.is_some() { b } else { None::<T> });

pub assume_specification [<u64 as From<bool>>::from] (b: bool) -> (ret: u64) ensures ret == (if b { 1u64 } else { 0u64 });

// core::num::NonZeroU64 / NonZeroU8 / NonZeroUsize stand-ins (core's NonZero<T> is generic over an unstable
// trait and cannot be given an external type specification); same method names, assumed semantics
macro_rules! nonzero_shim {
    ($name:ident, $t:ty, $view:ident, $ax:ident) => { verus! {
        #[verifier::external_body]
        pub struct $name { v: $t }
        pub uninterp spec fn $view(x: $name) -> $t;
        #[verifier::external_body]
        pub broadcast proof fn $ax(x: $name) ensures #[trigger] $view(x) > 0 {}
        impl Clone for $name {
            #[verifier::external_body]
            fn clone(&self) -> (ret: Self) ensures ret == *self { unimplemented!() }
        }
        impl Copy for $name {}
        impl $name {
            #[verifier::external_body]
            pub fn get(self) -> (ret: $t) ensures ret == $view(self), ret > 0 { unimplemented!() }
            #[verifier::external_body]
            pub fn new(v: $t) -> (ret: Option<$name>)
                ensures v == 0 ==> ret.is_none(), v != 0 ==> ret.is_some() && $view(ret.unwrap()) == v
            { unimplemented!() }
        }
    } };
}
nonzero_shim!(NonZeroU64, u64, nz64, axiom_nz64_pos);
nonzero_shim!(NonZeroU8, u8, nz8, axiom_nz8_pos);
nonzero_shim!(NonZeroUsize, usize, nzusize, axiom_nzusize_pos);

// @@GENERATED-OPS@@

} // mod shim
} // verus!

// `write!` on a String with one or two arguments (the forms the formatting routines use), mapped onto the assumed
// string_write functions; imported as `write` by the module prologue of impl_fmt so that it shadows std's macro
#[macro_export]
macro_rules! shim_write {
    ($dst:expr, $fmt:literal, $a:expr) => { $crate::shim::string_write1(&mut $dst, $fmt, &$a) };
    ($dst:expr, $fmt:literal, $a:expr, $b:expr) => { $crate::shim::string_write2(&mut $dst, $fmt, &$a, &$b) };
}
