// Value relations between decimals (i, s) = i * 10^-s, cross-multiplied to integers, and their algebra.
// Lives in its own module so that the crate root can `broadcast use` the facts about it.
verus! {
pub mod vs {
use vstd::prelude::*;
use vstd::arithmetic::power::*;
use vstd::arithmetic::mul::*;
use vstd::arithmetic::div_mod::*;
use crate::prelude::*;
use crate::shim::*;
use core::cmp::Ordering;

// ------------------------------------------------------------------ value relations (cross-multiplied, integers only)
/// the integer i*10^(M-s): value of (i,s) in units of 10^-M   (M >= s)
pub open spec fn val_at(i: int, s: int, m: int) -> int { i * pow10(m - s) }

/// a.i * 10^-a.s == b.i * 10^-b.s
pub open spec fn same_val(ai: int, a_s: int, bi: int, bs: int) -> bool {
    let m = imax(a_s, bs);
    val_at(ai, a_s, m) == val_at(bi, bs, m)
}
/// r == a + b
pub open spec fn is_sum(ri: int, rs: int, ai: int, a_s: int, bi: int, bs: int) -> bool {
    let m = imax(rs, imax(a_s, bs));
    val_at(ri, rs, m) == val_at(ai, a_s, m) + val_at(bi, bs, m)
}
/// r == a * b
pub open spec fn is_prod(ri: int, rs: int, ai: int, a_s: int, bi: int, bs: int) -> bool {
    let m = imax(rs, a_s + bs);
    val_at(ri, rs, m) == val_at(ai * bi, a_s + bs, m)
}
/// sign of (a - b) as an Ordering
pub open spec fn val_cmp(ai: int, a_s: int, bi: int, bs: int) -> Ordering {
    let m = imax(a_s, bs);
    ord_of(val_at(ai, a_s, m), val_at(bi, bs, m))
}

// ------------------------------------------------------------------ value algebra: everything at a common scale M
pub proof fn lemma_val_at_rescale(i: int, s: int, m: int, m2: int)
    requires s <= m <= m2
    ensures val_at(i, s, m2) == val_at(i, s, m) * pow10(m2 - m)
{
    lemma_pow10_add(m - s, m2 - m);
    assert(i * (pow10(m - s) * pow10(m2 - m)) == (i * pow10(m - s)) * pow10(m2 - m)) by (nonlinear_arith);
}
pub proof fn lemma_val_at_neg(i: int, s: int, m: int)
    ensures val_at(-i, s, m) == -val_at(i, s, m)
{
    assert((-i) * pow10(m - s) == -(i * pow10(m - s))) by (nonlinear_arith);
}
pub proof fn lemma_val_at_zero(s: int, m: int) ensures val_at(0, s, m) == 0 {}
pub proof fn lemma_val_at_self(i: int, s: int) ensures val_at(i, s, s) == i {}

pub proof fn lemma_cancel(x: int, y: int, p: int)
    requires p > 0, x * p == y * p
    ensures x == y
{
    assert(x == y) by (nonlinear_arith) requires p > 0, x * p == y * p;
}

/// is_sum <==> the sum equation at any common scale M >= all three scales
pub proof fn lemma_sum_at(ri: int, rs: int, ai: int, a_s: int, bi: int, bs: int, m: int)
    requires m >= rs, m >= a_s, m >= bs
    ensures is_sum(ri, rs, ai, a_s, bi, bs) <==> val_at(ri, rs, m) == val_at(ai, a_s, m) + val_at(bi, bs, m)
{
    let m0 = imax(rs, imax(a_s, bs));
    let p = pow10(m - m0);
    lemma_pow10_pos(m - m0);
    lemma_val_at_rescale(ri, rs, m0, m);
    lemma_val_at_rescale(ai, a_s, m0, m);
    lemma_val_at_rescale(bi, bs, m0, m);
    let x = val_at(ri, rs, m0); let y = val_at(ai, a_s, m0) + val_at(bi, bs, m0);
    assert((val_at(ai, a_s, m0) + val_at(bi, bs, m0)) * p == val_at(ai, a_s, m0) * p + val_at(bi, bs, m0) * p) by (nonlinear_arith);
    if x * p == y * p { lemma_cancel(x, y, p); }
}

/// same_val <==> equal at any common scale
pub proof fn lemma_same_at(ai: int, a_s: int, bi: int, bs: int, m: int)
    requires m >= a_s, m >= bs
    ensures same_val(ai, a_s, bi, bs) <==> val_at(ai, a_s, m) == val_at(bi, bs, m)
{
    let m0 = imax(a_s, bs);
    let p = pow10(m - m0);
    lemma_pow10_pos(m - m0);
    lemma_val_at_rescale(ai, a_s, m0, m);
    lemma_val_at_rescale(bi, bs, m0, m);
    let x = val_at(ai, a_s, m0); let y = val_at(bi, bs, m0);
    if x * p == y * p { lemma_cancel(x, y, p); }
}

/// val_cmp at any common scale
pub proof fn lemma_cmp_at(ai: int, a_s: int, bi: int, bs: int, m: int)
    requires m >= a_s, m >= bs
    ensures val_cmp(ai, a_s, bi, bs) == ord_of(val_at(ai, a_s, m), val_at(bi, bs, m))
{
    let m0 = imax(a_s, bs);
    let p = pow10(m - m0);
    lemma_pow10_pos(m - m0);
    lemma_val_at_rescale(ai, a_s, m0, m);
    lemma_val_at_rescale(bi, bs, m0, m);
    let x = val_at(ai, a_s, m0); let y = val_at(bi, bs, m0);
    assert(x < y ==> x * p < y * p) by (nonlinear_arith) requires p > 0;
    assert(x > y ==> x * p > y * p) by (nonlinear_arith) requires p > 0;
}

/// is_prod <==> product equation at a common scale: r at M, a at Ma, b at Mb with M == Ma + Mb
pub proof fn lemma_prod_at(ri: int, rs: int, ai: int, a_s: int, bi: int, bs: int, ma: int, mb: int)
    requires ma >= a_s, mb >= bs, ma + mb >= rs
    ensures is_prod(ri, rs, ai, a_s, bi, bs) <==> val_at(ri, rs, ma + mb) == val_at(ai, a_s, ma) * val_at(bi, bs, mb)
{
    let m = ma + mb;
    let m0 = imax(rs, a_s + bs);
    let p = pow10(m - m0);
    lemma_pow10_pos(m - m0);
    lemma_val_at_rescale(ri, rs, m0, m);
    lemma_val_at_rescale(ai * bi, a_s + bs, m0, m);
    lemma_pow10_add(ma - a_s, mb - bs);
    assert(val_at(ai, a_s, ma) * val_at(bi, bs, mb) == val_at(ai * bi, a_s + bs, m)) by (nonlinear_arith)
        requires val_at(ai, a_s, ma) == ai * pow10(ma - a_s), val_at(bi, bs, mb) == bi * pow10(mb - bs),
                 val_at(ai * bi, a_s + bs, m) == (ai * bi) * pow10(m - (a_s + bs)),
                 pow10(m - (a_s + bs)) == pow10(ma - a_s) * pow10(mb - bs);
    let x = val_at(ri, rs, m0); let y = val_at(ai * bi, a_s + bs, m0);
    if x * p == y * p { lemma_cancel(x, y, p); }
}

/// difference: r == a - b
pub open spec fn is_diff(ri: int, rs: int, ai: int, a_s: int, bi: int, bs: int) -> bool {
    is_sum(ri, rs, ai, a_s, -bi, bs)
}

/// scale of a product: a.s + b.s, or an operand's own scale (one/zero shortcuts), possibly lowered by
/// normalized() (at most the number of digits, < 2^60 by the size assumption)
pub open spec fn mul_scale_ok(rs: int, a_s: int, bs: int) -> bool {
    imin(0, imin(a_s + bs, imin(a_s, bs))) - 0x1000_0000_0000_0000 <= rs <= imax(0, imax(a_s + bs, imax(a_s, bs)))
}

/// a value is zero iff its unscaled integer is
pub proof fn lemma_same_zero(i: int, s: int)
    ensures same_val(i, s, 0, 0) <==> i == 0
{
    let m = imax(s, 0);
    lemma_pow10_pos(m - s);
    assert(0 * pow10(m - 0) == 0);
    if i != 0 { assert(i * pow10(m - s) != 0) by (nonlinear_arith) requires i != 0, pow10(m - s) > 0; }
    else { assert(0 * pow10(m - s) == 0); }
}



/// a decimal equal to one is 10^s / 10^s with s >= 0
pub proof fn lemma_one_val(ai: int, a_s: int)
    requires same_val(ai, a_s, 1, 0)
    ensures a_s >= 0, ai == pow10(a_s)
{
    if a_s < 0 {
        let k = -a_s;
        lemma_pow10_strict_mono(0, k);
        assert(val_at(1, 0, 0) == 1);
        assert(ai * pow10(k) != 1) by (nonlinear_arith) requires pow10(k) >= 10;
    } else {
        assert(val_at(ai, a_s, a_s) == ai);
        assert(val_at(1, 0, a_s) == 1 * pow10(a_s));
    }
}

pub proof fn lemma_prod_exact(ai: int, a_s: int, bi: int, bs: int)
    ensures is_prod(ai * bi, a_s + bs, ai, a_s, bi, bs)
{}

pub proof fn lemma_prod_same_result(r2i: int, r2s: int, ri: int, rs: int, ai: int, a_s: int, bi: int, bs: int)
    requires is_prod(ri, rs, ai, a_s, bi, bs), same_val(r2i, r2s, ri, rs)
    ensures is_prod(r2i, r2s, ai, a_s, bi, bs)
{
    let m = imax(imax(r2s, rs), a_s + bs);
    lemma_same_at(r2i, r2s, ri, rs, m);
    lemma_same_at(ri, rs, ai * bi, a_s + bs, m);
    lemma_same_at(r2i, r2s, ai * bi, a_s + bs, m);
}

pub proof fn lemma_prod_one_left(ai: int, a_s: int, bi: int, bs: int)
    requires same_val(ai, a_s, 1, 0)
    ensures is_prod(bi, bs, ai, a_s, bi, bs), a_s >= 0
{
    lemma_one_val(ai, a_s);
    let m = a_s + bs;
    assert(val_at(bi, bs, m) == bi * pow10(a_s));
    b_val_at_self(ai * bi, m);
    assert(bi * pow10(a_s) == pow10(a_s) * bi) by (nonlinear_arith);
}


/// r == a^3
pub open spec fn is_cube(ri: int, rs: int, ai: int, a_s: int) -> bool {
    let m = imax(rs, 3 * a_s);
    val_at(ri, rs, m) == val_at(ai * ai * ai, 3 * a_s, m)
}
/// zero and one are their own cubes; the exact cube is a cube
pub proof fn lemma_cube_cases(ai: int, a_s: int)
    ensures ai == 0 ==> is_cube(ai, a_s, ai, a_s),
            same_val(ai, a_s, 1, 0) ==> is_cube(ai, a_s, ai, a_s),
            is_cube(ai * ai * ai, a_s * 3, ai, a_s)
{
    if ai == 0 {
        let m = imax(a_s, 3 * a_s);
        assert(0int * 0int * 0int == 0);
        b_val_at_zero(a_s, m); b_val_at_zero(3 * a_s, m);
    }
    if same_val(ai, a_s, 1, 0) {
        lemma_one_val(ai, a_s);
        let p = pow10(a_s);
        let m = 3 * a_s;
        // val_at(p, a_s, 3 a_s) = p * 10^(2 a_s) = p*p*p = val_at(p^3, 3 a_s, 3 a_s)
        lemma_pow10_add(a_s, a_s);
        assert(val_at(ai, a_s, m) == p * pow10(2 * a_s));
        assert(p * (p * p) == p * p * p) by (nonlinear_arith);
        b_val_at_self(ai * ai * ai, m);
    }
    b_val_at_self(ai * ai * ai, 3 * a_s);
}
pub proof fn lemma_even_sign(i: int)
    requires i % 2 == 0
    ensures 2 * tdiv(i, 2) == i
{
    if i >= 0 { lemma_fundamental_div_mod(i, 2); }
    else {
        lemma_fundamental_div_mod(i, 2);
        let d = i / 2;
        assert(i == 2 * d);
        lemma_fundamental_div_mod_converse(-i, 2, -d, 0);
    }
}


/// value truncated toward zero: trunc(i * 10^-s)
pub open spec fn dec_trunc(i: int, s: int) -> int {
    if s <= 0 { i * pow10(-s) } else { tdiv(i, pow10(s)) }
}
pub proof fn lemma_trunc_zero(s: int) ensures dec_trunc(0, s) == 0
{
    lemma_pow10_pos(s);
    if s > 0 { assert(0int / pow10(s) == 0) by { lemma_div_basics(pow10(s)); } } else { assert(0 * pow10(-s) == 0); }
}
/// truncated remainder is zero exactly when the (euclidean) remainder is
pub proof fn lemma_trem_zero_iff(a: int, b: int)
    requires b > 0
    ensures trem(a, b) == 0 <==> a % b == 0
{
    lemma_fundamental_div_mod(a, b);
    lemma_trem_props(a, b);
    if a >= 0 { assert(trem(a, b) == a - b * (a / b)); }
    else {
        let q = (-a) / b; let r = (-a) % b;
        lemma_fundamental_div_mod(-a, b);
        assert(tdiv(a, b) == -q);
        assert(b * (-q) == -(b * q)) by (nonlinear_arith);
        assert(trem(a, b) == -r);
        if r == 0 { assert(a == b * (-q)); lemma_fundamental_div_mod_converse(a, b, -q, 0); }
        if a % b == 0 { let d = a / b; assert(a == b * d); assert(-a == b * (-d)) by (nonlinear_arith) requires a == b * d; lemma_fundamental_div_mod_converse(-a, b, -d, 0); }
    }
}


// ------------------------------------------------------------------ division
/// result (qi, S) of dividing n (at scale s0) by d with at least maxp significant digits:
/// with E = |n|*10^(S-s0), t = floor(E/|d|), rho = E mod |d|:  |qi| = t rounded half-up on rho/|d|,
/// digits are only dropped (rho != 0) once t has maxp digits, and the sign is the product of the signs
pub open spec fn div_post(n: int, d: int, s0: int, maxp: int, qi: int, ss: int) -> bool {
    let e = iabs(n) * pow10(ss - s0);
    let dd = iabs(d);
    let t = e / dd;
    let rho = e % dd;
    &&& ss >= s0
    &&& iabs(qi) == t + (if 2 * rho >= dd { 1int } else { 0int })
    &&& t >= 1
    &&& (rho != 0 ==> ndigits(t) >= maxp)
    &&& isgn(qi) == isgn(n) * isgn(d)
}

pub proof fn lemma_tdiv_nonneg(a: int, b: int)
    requires a >= 0, b > 0
    ensures tdiv(a, b) == a / b, trem(a, b) == a % b, a / b >= 0
{
    lemma_fundamental_div_mod(a, b);
    lemma_div_pos_is_pos(a, b);
}

pub proof fn lemma_div_exact(e: int, d: int, q: int)
    requires d > 0, e == d * q
    ensures e / d == q, e % d == 0
{
    assert(e == q * d + 0) by (nonlinear_arith) requires e == d * q;
    lemma_fundamental_div_mod_converse(e, d, q, 0);
}

/// the next quotient digit: 0 <= floor(10*rho/d) <= 9 for 0 <= rho < d
pub proof fn lemma_digit_quotient(rho: int, d: int)
    requires 0 <= rho < d
    ensures 0 <= (10 * rho) / d <= 9
{
    lemma_fundamental_div_mod(10 * rho, d);
    lemma_mod_bound(10 * rho, d);
    let q = (10 * rho) / d;
    lemma_div_pos_is_pos(10 * rho, d);
    if q >= 10 { assert(d * q >= d * 10) by (nonlinear_arith) requires d > 0, q >= 10; }
}

/// appending a digit adds exactly one decimal digit
pub proof fn lemma_ndigits_shift(x: int, q: int)
    requires x >= 1, 0 <= q <= 9
    ensures ndigits(x * 10 + q) == ndigits(x) + 1
{
    let y = x * 10 + q;
    assert(y >= 10);
    lemma_fundamental_div_mod_converse(y, 10, x, q);
    assert(y / 10 == x);
}

/// the rounding digit floor(10*rho/d) is >= 5 exactly when 2*rho >= d; a single digit has one decimal digit
pub proof fn lemma_round_digit(rho: int, d: int)
    requires 0 <= rho < d
    ensures ({ let dg = (10 * rho) / d; (dg > 0 && 2 * dg >= pow10(ndigits(dg))) <==> 2 * rho >= d })
{
    lemma_digit_quotient(rho, d);
    let dg = (10 * rho) / d;
    lemma_fundamental_div_mod(10 * rho, d);
    lemma_mod_bound(10 * rho, d);
    lemma_pow10_1();
    assert(ndigits(dg) == 1);
    let r = (10 * rho) % d;
    assert(10 * rho == d * dg + r);
    if dg >= 5 { assert(d * dg >= d * 5) by (nonlinear_arith) requires d > 0, dg >= 5; }
    else { assert(d * dg <= d * 4) by (nonlinear_arith) requires d > 0, dg <= 4; }
}


/// every shape a decimal / decimal result takes: zero numerator, unit divisor and equal unscaled integers are
/// returned exactly; everything else is div_post at the difference of scales with maxp digits
pub open spec fn quot_cases(ai: int, a_s: int, bi: int, bs: int, maxp: int, ri: int, rs: int) -> bool {
    ||| (ai == 0 && ri == 0)
    ||| (same_val(bi, bs, 1, 0) && ri == ai && rs == a_s)
    ||| (ai == bi && ri == 1 && rs == a_s - bs)
    ||| div_post(ai, bi, a_s - bs, maxp, ri, rs)
}


// ------------------------------------------------------------------ comparison helpers
pub proof fn lemma_pow2i_add(x: int, y: int)
    requires x >= 0, y >= 0
    ensures pow2i(x + y) == pow2i(x) * pow2i(y)
{
    reveal(pow);
    lemma_pow_adds(2, x as nat, y as nat);
}
pub proof fn lemma_pow2i_mono(x: int, y: int)
    requires 0 <= x <= y
    ensures pow2i(x) <= pow2i(y), pow2i(x) > 0
{
    lemma_pow2i_add(x, y - x);
    lemma_pow2i_succ(x); 
    if y - x > 0 { lemma_pow_positive(2, (y - x) as nat); }
    assert(pow2i(x) <= pow2i(x) * pow2i(y - x)) by (nonlinear_arith) requires pow2i(x) > 0, pow2i(y - x) >= 1;
}

/// bit-length pre-filter: a_bits < b_bits + e with 2^e <= 10^sc  ==>  a < b * 10^sc
pub proof fn lemma_bits_filter(a: int, b: int, ab: int, bb: int, e: int, sc: int)
    requires a > 0, b > 0, ab >= 1, bb >= 1, e >= 0, sc >= 0,
             a < pow2i(ab), pow2i(bb - 1) <= b, ab < bb + e, pow2i(e) <= pow10(sc)
    ensures a < b * pow10(sc)
{
    lemma_pow2i_mono(ab, bb + e - 1);
    lemma_pow2i_add(bb - 1, e);
    lemma_pow2i_mono(0, bb - 1);
    lemma_pow2i_mono(0, e);
    assert(pow2i(bb - 1) * pow2i(e) <= b * pow10(sc)) by (nonlinear_arith)
        requires 0 < pow2i(bb - 1) <= b, 0 < pow2i(e) <= pow10(sc);
}

/// digit counts decide when they differ
pub proof fn lemma_cmp_by_digit_count(a: int, b: int, sd: int)
    requires a > 0, b > 0, sd >= 0
    ensures ndigits(a) < ndigits(b) + sd ==> a < b * pow10(sd),
            ndigits(a) > ndigits(b) + sd ==> a > b * pow10(sd)
{
    lemma_ndigits_bounds(a);
    lemma_ndigits_bounds(b);
    let da = ndigits(a); let db = ndigits(b);
    lemma_pow10_pos(sd);
    if da < db + sd {
        // a < 10^da <= 10^(db-1+sd) = 10^(db-1) * 10^sd <= b * 10^sd
        lemma_pow10_mono(da, db - 1 + sd);
        lemma_pow10_add(db - 1, sd);
        assert(pow10(db - 1) * pow10(sd) <= b * pow10(sd)) by (nonlinear_arith) requires pow10(db - 1) <= b, pow10(sd) > 0;
    }
    if da > db + sd {
        // a >= 10^(da-1) >= 10^(db+sd) = 10^db * 10^sd > b * 10^sd
        lemma_pow10_mono(db + sd, da - 1);
        lemma_pow10_add(db, sd);
        assert(b * pow10(sd) < pow10(db) * pow10(sd)) by (nonlinear_arith) requires b < pow10(db), pow10(sd) > 0;
    }
}

/// the leading (most significant) parts decide: a = a_low + pa*ta, bb = b_low + pb*tb, pa = pb * 10^sd
pub proof fn lemma_cmp_by_top(a: int, a_low: int, pa: int, ta: int, bb: int, b_low: int, pb: int, tb: int, psd: int)
    requires a == a_low + pa * ta, 0 <= a_low < pa, bb == b_low + pb * tb, 0 <= b_low < pb, pa == pb * psd, psd > 0, pb > 0
    ensures ta < tb ==> a < bb * psd, ta > tb ==> a > bb * psd, ta == tb ==> (a - bb * psd == a_low - b_low * psd)
{
    assert(bb * psd == b_low * psd + pa * tb) by (nonlinear_arith) requires bb == b_low + pb * tb, pa == pb * psd;
    if ta < tb {
        assert(pa * tb >= pa * ta + pa) by (nonlinear_arith) requires ta + 1 <= tb, pa > 0;
        assert(b_low * psd >= 0) by (nonlinear_arith) requires b_low >= 0, psd > 0;
    }
    if ta > tb {
        assert(pa * ta >= pa * tb + pa) by (nonlinear_arith) requires tb + 1 <= ta, pa > 0;
        assert(b_low * psd < pa) by (nonlinear_arith) requires 0 <= b_low < pb, pa == pb * psd, psd > 0;
    }
}

/// sign of val_at is the sign of the unscaled integer
pub proof fn lemma_val_at_sign(i: int, s: int, m: int)
    ensures isgn(val_at(i, s, m)) == isgn(i)
{
    lemma_pow10_pos(m - s);
    let p = pow10(m - s);
    if i > 0 { assert(i * p > 0) by (nonlinear_arith) requires i > 0, p > 0; }
    if i < 0 { assert(i * p < 0) by (nonlinear_arith) requires i < 0, p > 0; }
    if i == 0 { assert(0 * p == 0); }
}


// ------------------------------------------------------------------ binary floats as exact decimals
/// (ri, rs) denotes exactly (+-) frac * 2^pow:   |ri| * 2^max(0,-pow) == frac * 2^max(0,pow) * 10^rs
pub open spec fn float_exact(neg: bool, frac: int, pow: int, ri: int, rs: int) -> bool {
    &&& rs >= 0
    &&& (neg ==> ri <= 0)
    &&& (!neg ==> ri >= 0)
    &&& iabs(ri) * pow2i(-pow) == frac * pow2i(pow) * pow10(rs)
}
/// what an f32 bit pattern denotes (finite values): zero, subnormal m * 2^-149, normal (m + 2^23) * 2^(e - 150)
pub open spec fn f32_exact(bits: u32, ri: int, rs: int) -> bool {
    let e = ((bits >> 23) & 0xff) as int;
    let m = (bits & 0x7f_ffff) as int;
    let neg = (bits >> 31) != 0;
    if e == 0 && m == 0 { ri == 0 }
    else if e == 0 { float_exact(neg, m, -149, ri, rs) }
    else { float_exact(neg, m + 0x80_0000, e - 150, ri, rs) }
}
pub open spec fn f64_exact(bits: u64, ri: int, rs: int) -> bool {
    let e = ((bits >> 52) & 0x7ff) as int;
    let m = (bits & 0xf_ffff_ffff_ffff) as int;
    let neg = (bits >> 63) != 0;
    if e == 0 && m == 0 { ri == 0 }
    else if e == 0 { float_exact(neg, m, -1074, ri, rs) }
    else { float_exact(neg, m + 0x10_0000_0000_0000, e - 1075, ri, rs) }
}
/// a normal float is not zero: its exact decimal has a non-zero unscaled integer
pub proof fn lemma_f32_normal_nonzero(bits: u32, ri: int, rs: int)
    requires f32_exact(bits, ri, rs), f32_category(bits) == core::num::FpCategory::Normal
    ensures ri != 0
{
    let e = ((bits >> 23) & 0xff) as int;
    let m = (bits & 0x7f_ffff) as int;
    assert(e != 0);
    lemma_pow10_pos(rs);
    let frac = m + 0x80_0000;
    if ri == 0 {
        assert(iabs(ri) == 0); assert(0 * pow2i(-(e - 150)) == 0);
        assert(pow2i(e - 150) >= 1) by { reveal(pow); if e - 150 > 0 { lemma_pow_positive(2, (e - 150) as nat); } }
        assert(frac * pow2i(e - 150) * pow10(rs) > 0) by (nonlinear_arith) requires frac > 0, pow2i(e - 150) >= 1, pow10(rs) > 0;
    }
}
pub proof fn lemma_f64_normal_nonzero(bits: u64, ri: int, rs: int)
    requires f64_exact(bits, ri, rs), f64_category(bits) == core::num::FpCategory::Normal
    ensures ri != 0
{
    let e = ((bits >> 52) & 0x7ff) as int;
    let m = (bits & 0xf_ffff_ffff_ffff) as int;
    assert(e != 0);
    lemma_pow10_pos(rs);
    let frac = m + 0x10_0000_0000_0000;
    if ri == 0 {
        assert(iabs(ri) == 0); assert(0 * pow2i(-(e - 1075)) == 0);
        assert(pow2i(e - 1075) >= 1) by { reveal(pow); if e - 1075 > 0 { lemma_pow_positive(2, (e - 1075) as nat); } }
        assert(frac * pow2i(e - 1075) * pow10(rs) > 0) by (nonlinear_arith) requires frac > 0, pow2i(e - 1075) >= 1, pow10(rs) > 0;
    }
}
pub proof fn lemma_shl_one_is_pow2(tz: u64)
    requires tz < 63
    ensures (1u64 << tz) as int == pow2i(tz as int)
    decreases tz
{
    reveal(pow);
    if tz == 0 { assert((1u64 << 0u64) == 1u64) by (bit_vector); }
    else {
        let p = (tz - 1) as u64;
        lemma_shl_one_is_pow2(p);
        assert((1u64 << tz) == 2 * (1u64 << p)) by (bit_vector) requires tz == p + 1, tz < 63;
        if p == 0 { assert(pow(2, 1) == 2 * pow(2, 0)); }
    }
}
/// shifting out tz <= trailing_zeros bits is exact (u32); t0 is trailing_zeros(frac) with vstd's axiom facts
pub proof fn lemma_shr_exact32(frac: u32, t0: u32, tz: u32)
    requires t0 <= 32, tz <= t0, tz < 32, t0 < 32 ==> (frac << ((32 - t0) as u32)) == 0u32, t0 == 32 ==> frac == 0
    ensures ((frac >> tz) as int) * pow2i(tz as int) == frac as int
{
    let rf = frac >> tz;
    if t0 == 32 { assert((0u32 >> tz) == 0u32) by (bit_vector); assert(0 * pow2i(tz as int) == 0); }
    else {
        let sh = (32 - t0) as u32;
        assert(((frac >> tz) << tz) == frac) by (bit_vector) requires (frac << sh) == 0u32, sh == 32 - t0, tz <= t0, t0 < 32;
        assert((rf as u64) * (1u64 << (tz as u64)) == (frac as u64)) by (bit_vector)
            requires ((frac >> tz) << tz) == frac, rf == frac >> tz, tz < 32;
        lemma_shl_one_is_pow2(tz as u64);
    }
}
pub proof fn lemma_shr_exact64(frac: u64, t0: u32, tz: u32)
    requires t0 <= 64, tz <= t0, tz < 62, frac < 0x20_0000_0000_0000, t0 < 64 ==> (frac << ((64 - t0) as u64)) == 0u64, t0 == 64 ==> frac == 0
    ensures ((frac >> tz) as int) * pow2i(tz as int) == frac as int
{
    let rf = frac >> tz;
    if t0 == 64 { assert((0u64 >> tz) == 0u64) by (bit_vector); assert(0 * pow2i(tz as int) == 0); }
    else {
        let sh = (64 - t0) as u64;
        assert(((frac >> tz) << tz) == frac) by (bit_vector) requires (frac << sh) == 0u64, sh == 64 - t0, tz <= t0, t0 < 64;
        assert((rf as u128) * ((1u64 << (tz as u64)) as u128) == (frac as u128)) by (bit_vector)
            requires ((frac >> tz) << tz) == frac, rf == frac >> tz, tz < 62;
        lemma_shl_one_is_pow2(tz as u64);
    }
}
// ------------------------------------------------------------------ u32-word sequences (equality word loop)
pub proof fn lemma_wle_top_step(s: Seq<u32>, i: int)
    requires 0 <= i < s.len()
    ensures wle(s.subrange(i, s.len() as int)) == s[i] as int + 0x1_0000_0000 * wle(s.subrange(i + 1, s.len() as int))
{
    let t = s.subrange(i, s.len() as int);
    assert(t[0] == s[i]);
    assert(t.drop_first() =~= s.subrange(i + 1, s.len() as int));
}
pub proof fn lemma_wle_nonneg(s: Seq<u32>)
    ensures wle(s) >= 0
    decreases s.len()
{
    if s.len() > 0 { lemma_wle_nonneg(s.drop_first()); }
}
/// a suffix that still contains the (non-zero) most significant word is positive
pub proof fn lemma_wle_suffix_pos(s: Seq<u32>, i: int)
    requires 0 <= i < s.len(), s.last() != 0
    ensures wle(s.subrange(i, s.len() as int)) > 0
    decreases s.len() - i
{
    lemma_wle_top_step(s, i);
    lemma_wle_nonneg(s.subrange(i + 1, s.len() as int));
    if i + 1 < s.len() { lemma_wle_suffix_pos(s, i + 1); }
    else { assert(s[i] == s.last()); }
}
pub proof fn lemma_wle_empty_suffix(s: Seq<u32>)
    ensures wle(s.subrange(s.len() as int, s.len() as int)) == 0
{
    assert(s.subrange(s.len() as int, s.len() as int).len() == 0);
}
/// one step of the word-wise comparison  a ?= b * p  (w = 2^32):  wide = bk*p + carry = tb + w*carry2
pub proof fn lemma_eq_word_step(p: int, bk: int, ak: int, carry: int, carry2: int, sa: int, sb_: int, wide: int, tb: int)
    requires wide == bk * p + carry, wide == tb + 0x1_0000_0000 * carry2, 0 <= tb < 0x1_0000_0000, 0 <= ak < 0x1_0000_0000
    ensures ak == tb ==> (bk + 0x1_0000_0000 * sb_) * p + carry - (ak + 0x1_0000_0000 * sa) == 0x1_0000_0000 * (sb_ * p + carry2 - sa),
            ak != tb ==> (bk + 0x1_0000_0000 * sb_) * p + carry - (ak + 0x1_0000_0000 * sa) != 0
{
    let q = sb_ * p;
    assert((bk + 0x1_0000_0000 * sb_) * p == bk * p + 0x1_0000_0000 * q) by (nonlinear_arith) requires q == sb_ * p;
    let k = q + carry2 - sa;
    assert((bk + 0x1_0000_0000 * sb_) * p + carry - (ak + 0x1_0000_0000 * sa) == (tb - ak) + 0x1_0000_0000 * k);
}
/// 0 < l < pt  is not a multiple of pt
pub proof fn lemma_not_multiple(l: int, pt: int, k: int)
    requires 0 < l < pt
    ensures pt * k != l
{
    if k <= 0 { assert(pt * k <= 0) by (nonlinear_arith) requires pt > 0, k <= 0; }
    else { assert(pt * k >= pt) by (nonlinear_arith) requires pt > 0, k >= 1; }
}
/// 5^k * 2^k == 10^k
pub proof fn lemma_pow5_pow2(k: int)
    requires k >= 0
    ensures pow(5, k as nat) * pow2i(k) == pow10(k)
{
    reveal(pow);
    if k == 0 { } else { lemma_pow_multiplies_base(5, 2, k as nat); }
}
pub proof fn lemma_pow_multiplies_base(a: int, b: int, e: nat)
    ensures pow(a, e) * pow(b, e) == pow(a * b, e)
    decreases e
{
    reveal(pow);
    if e > 0 {
        lemma_pow_multiplies_base(a, b, (e - 1) as nat);
        assert((a * pow(a, (e - 1) as nat)) * (b * pow(b, (e - 1) as nat)) == (a * b) * (pow(a, (e - 1) as nat) * pow(b, (e - 1) as nat))) by (nonlinear_arith);
    }
}

/// every shape a multiplication result takes in the crate: exact product, an operand (or anything equal
/// to it, e.g. its normalized form) when the other operand equals one, zero when an operand is zero
pub broadcast proof fn b_mul_cases(ri: int, rs: int, ai: int, a_s: int, bi: int, bs: int)
    ensures (   ((ri == ai * bi || ri == bi * ai) && rs == a_s + bs)
             || (same_val(ai, a_s, 1, 0) && same_val(ri, rs, bi, bs))
             || (same_val(bi, bs, 1, 0) && same_val(ri, rs, ai, a_s))
             || ((ai == 0 || bi == 0) && ri == 0)
            ) ==> #[trigger] is_prod(ri, rs, ai, a_s, bi, bs)
{
    if (ri == ai * bi || ri == bi * ai) && rs == a_s + bs { assert(ai * bi == bi * ai) by (nonlinear_arith); lemma_prod_exact(ai, a_s, bi, bs); assert(is_prod(ri, rs, ai, a_s, bi, bs)); }
    else if same_val(ai, a_s, 1, 0) && same_val(ri, rs, bi, bs) {
        lemma_prod_one_left(ai, a_s, bi, bs);
        lemma_prod_same_result(ri, rs, bi, bs, ai, a_s, bi, bs);
    } else if same_val(bi, bs, 1, 0) && same_val(ri, rs, ai, a_s) {
        lemma_prod_one_left(bi, bs, ai, a_s);
        assert(bi * ai == ai * bi) by (nonlinear_arith);
        assert(is_prod(ai, a_s, ai, a_s, bi, bs));
        lemma_prod_same_result(ri, rs, ai, a_s, ai, a_s, bi, bs);
    } else if (ai == 0 || bi == 0) && ri == 0 {
        assert(ai * bi == 0) by (nonlinear_arith) requires ai == 0 || bi == 0;
        let m = imax(rs, a_s + bs);
        b_val_at_zero(rs, m); b_val_at_zero(a_s + bs, m);
        assert(is_prod(ri, rs, ai, a_s, bi, bs));
    }
}
/// a decimal equal to one has a non-negative scale (used for the scale bound of products)
pub broadcast proof fn b_one_scale(ai: int, a_s: int)
    ensures #[trigger] same_val(ai, a_s, 1, 0) ==> a_s >= 0
{ if same_val(ai, a_s, 1, 0) { lemma_one_val(ai, a_s); } }

pub broadcast proof fn b_val_at_self(i: int, s: int) ensures #[trigger] val_at(i, s, s) == i {}
pub broadcast proof fn b_val_at_zero(s: int, m: int) ensures #[trigger] val_at(0, s, m) == 0 {}
pub broadcast proof fn b_val_at_neg(i: int, s: int, m: int) ensures #[trigger] val_at(-i, s, m) == -val_at(i, s, m)
{ assert((-i) * pow10(m - s) == -(i * pow10(m - s))) by (nonlinear_arith); }
pub broadcast group val_algebra_core { b_val_at_self, b_val_at_zero, b_val_at_neg, b_mul_cases, b_one_scale }
} // mod vs
} // verus!
