// Crate-root prologue of the generated file: imports, module aliases that make the
// crate's own paths resolve, ghost views of the crate's types, the rounding oracle
// and the symbolic build-time constants (R9).  Nothing here is executable crate code.
use vstd::prelude::*;
use vstd::arithmetic::power::*;
use vstd::arithmetic::mul::*;
use vstd::arithmetic::div_mod::*;
use vstd::std_specs::cmp::*;
use vstd::std_specs::convert::*;
use vstd::std_specs::ops::*;
use crate::prelude::*;
use crate::shim::*;
use crate::vs::*;

pub mod stdlib {
    pub use core::{cmp, convert, default, fmt, hash, mem, ops, iter, slice, str, f32, f64};
    pub mod num {
        pub use core::num::{FpCategory, ParseFloatError, ParseIntError};
        pub use crate::shim::{NonZeroU64, NonZeroU8, NonZeroUsize};
    }
    pub use std::{string, borrow};
    pub use std::vec::Vec;
}
pub mod num_bigint { pub use crate::shim::{BigInt, BigUint, Sign, ParseBigIntError, ToBigInt}; }
pub mod num_traits { pub use crate::shim::{Zero, One, Signed, ToPrimitive, FromPrimitive, CheckedSub}; pub use crate::shim::nt::NtPrimInt as PrimInt; pub use crate::shim::nt::nt_checked_pow as checked_pow; }
pub mod num_integer { pub use crate::shim::NumInteger as Integer; pub use crate::shim::integer_div_rem as div_rem; }

use self::stdlib::cmp::{self, Ordering};
use self::stdlib::convert::TryFrom;
use self::stdlib::default::Default;
use self::stdlib::ops::{
    Add, AddAssign, Div, DivAssign, Mul, MulAssign, Neg, Sub, SubAssign, Rem, RemAssign,
};
use self::stdlib::Vec;
use self::stdlib::num::{ParseFloatError, ParseIntError};
use self::stdlib::string::String;
use self::num_bigint::{BigInt, BigUint, ParseBigIntError, Sign};
use self::num_integer::Integer as IntegerTrait;
pub use self::num_traits::{One, Signed, ToPrimitive, Zero};
#[allow(unused_imports)] pub use self::rounding::*;
#[allow(unused_imports)] pub use self::context::*;
#[allow(unused_imports)] use self::arithmetic::*;

broadcast use {vstd::group_vstd_default, crate::ax::axiom_ref_into_self, crate::ax::axiom_ref_into_self_obeys, crate::shim::axiom_spec_magnitude, crate::vs::val_algebra_core};

// target assumption: 64-bit platform (u64 -> usize conversions cannot fail); listed in the evidence
global size_of usize == 8;

// ------------------------------------------------------------------ scale bound `B`
/// machine-range precondition on scales of arithmetic contracts: |s| <= 2^61
pub spec const SB: int = 0x2000_0000_0000_0000;
pub open spec fn sb(s: int) -> bool { -SB <= s <= SB }
/// wider bound (2^62) for a requested target scale
pub open spec fn sb2(s: int) -> bool { -2 * SB <= s <= 2 * SB }

// ------------------------------------------------------------------ views
impl BigDecimal {
    /// unscaled integer
    pub open(crate) spec fn i(&self) -> int { self.int_val@ }
    /// scale
    pub open(crate) spec fn s(&self) -> int { self.scale as int }
    pub open(crate) spec fn ival_ref(&self) -> &BigInt { &self.int_val }
}
impl<'a> BigDecimalRef<'a> {
    pub open(crate) spec fn i(&self) -> int { sgn(self.sign) * self.digits@ }
    pub open(crate) spec fn s(&self) -> int { self.scale as int }
    /// sign field / digit magnitude (ghost accessors for contracts of pub fns)
    pub open(crate) spec fn sg(&self) -> Sign { self.sign }
    pub open(crate) spec fn dg(&self) -> int { self.digits@ as int }
    pub open(crate) spec fn dref(&self) -> &'a BigUint { self.digits }
    pub open(crate) spec fn spec_new(sign: Sign, digits: &'a BigUint, scale: i64) -> Self { BigDecimalRef { sign: sign, digits: digits, scale: scale } }
    /// representation invariant of a reference view: fields are private and every constructor in
    /// the crate must establish it (checked by Verus at each struct expression)
    #[verifier::type_invariant]
    pub open(crate) spec fn wf(&self) -> bool { (self.sign == Sign::NoSign) <==> (self.digits@ == 0) }
}

pub proof fn lemma_ref_sign(sign: Sign, d: int)
    requires d >= 0, (sign == Sign::NoSign) <==> (d == 0)
    ensures sign_of(sgn(sign) * d) == sign, iabs(sgn(sign) * d) == d
{
    if sign == Sign::Plus { assert(1 * d == d); }
    if sign == Sign::Minus { assert(-1 * d == -d); }
}

// ------------------------------------------------------------------ Display dispatch (C20: exponent thresholds) and texts (C16)
/// mantissa of the exponential form: the first digit, then "." and the other digits when there are any
pub open spec fn sci_layout(sd: Seq<u8>) -> Seq<u8> {
    if sd.len() > 1 { sd.subrange(0, 1).push(46u8) + sd.subrange(1, sd.len() as int) } else { sd }
}
/// the significant digits `sd` and the exponent `e` printed by the exponential form for the magnitude n at scale s:
/// without precision all digits of n; with precision N exactly N+1 digits - n padded with zeros, or n rounded at that
/// digit with the oracle round_mag (normalised: a carry out of all nines prints 1000.. with the exponent raised by one)
pub open spec fn sci_digits_ok(sd: Seq<u8>, e: int, n: int, s: int, prec: Option<usize>, mode: RoundingMode, neg: bool) -> bool {
    let nd = ndigits(n);
    let k = if prec.is_some() { prec.unwrap() as int + 1 } else { nd };
    &&& ascii_digits(sd)
    &&& sd.len() == k
    &&& if k >= nd { dba(sd) == n * pow10(k - nd) && e == nd - 1 - s }
        else { 0 <= e - (nd - 1 - s) <= 1 && dba(sd) >= pow10(k - 1) && dba(sd) * pow10(e - (nd - 1 - s)) == round_mag(n, nd - k, mode, neg) }
}
/// text of the exponential form with the exponent symbol `sym` ("e" / "E") for the magnitude n (negative: neg) at scale s:
/// mantissa, then what std prints for "{}{:+}" of the symbol and the exponent (fmt_text: uninterpreted)
pub open spec fn sci_text(text: Seq<char>, sym: Seq<char>, n: int, neg: bool, s: int, prec: Option<usize>) -> bool {
    exists|sd: Seq<u8>, e: int| #[trigger] sci_digits_ok(sd, e, n, s, prec, cfg_default_rounding_mode(), neg)
        && text == b2c(sci_layout(sd)) + fmt_text("{}{:+}"@, seq![FmtVal::Str(sym), FmtVal::Int(e)])
}
/// text of the dotless form: all digits of the unscaled integer, then "e" and the negated scale
pub open spec fn dotless_text(text: Seq<char>, i: int, s: int) -> bool {
    let n = iabs(i);
    let tail = fmt_text("{}{:+}"@, seq![FmtVal::Str("e"@), FmtVal::Int(-s)]);
    exists|d: Seq<u8>| #[trigger] ascii_digits(d) && d.len() == ndigits(n) && dba(d) == n && text == b2c(d) + tail
}
/// the value the digits of the full-scale form read as, printed with ts fractional digits: rounded with the oracle, or padded
pub open spec fn full_want(n: int, s: int, ts: int, mode: RoundingMode, neg: bool) -> int {
    if ts < s { round_mag(n, s - ts, mode, neg) } else { n * pow10(ts - s) }
}
/// text of the full-scale form ({} inside the thresholds, {:.N}): see the cases
pub open spec fn full_text(text: Seq<char>, i: int, s: int, prec: Option<usize>) -> bool {
    let n = iabs(i);
    let nd = ndigits(n);
    let mode = cfg_default_rounding_mode();
    exists|out: Seq<u8>| #[trigger] ascii_bytes(out) && (
        if s <= 0 {
            // integer: the zeros of the exponent are written out (then "." and N zeros for a non-zero precision N) unless no
            // precision was given and there are more than 20 of them, or more characters than the configured limit would be
            // added; otherwise the digits are followed by "e+<exponent>" (nothing for the exponent 0)
            let ts = if prec.is_some() { prec.unwrap() as int } else { 0int };
            let added = -s + (if ts > 0 { ts + 1 } else { 0int });
            let pad = !(prec.is_none() && -s > 20) && added <= cfg_fmt_max_integer_padding();
            if pad { withint_render(out, ts, n * pow10(-s + ts)) && out.len() == nd + added && text == b2c(out) }
            else { ascii_digits(out) && out.len() == nd && dba(out) == n
                   && text == b2c(out) + (if s != 0 { fmt_text("e{:+}"@, seq![FmtVal::Int(-s)]) } else { Seq::<char>::empty() }) }
        } else {
            // exactly ts = N (or the scale, without precision) digits after the point, reading as the value rounded at that
            // digit with the oracle round_mag under the configured default mode (or the value padded with zeros)
            let ts = if prec.is_some() { prec.unwrap() as int } else { s };
            &&& text == b2c(out)
            &&& if ts + nd <= s { noint_small_render(out, ts, round_mag(n, s - ts, mode, i < 0)) }
                else { withint_render(out, ts, full_want(n, s, ts, mode, i < 0)) }
        })
}
/// `ret` is what Formatter::pad_integral returns when handed the sign flag, no prefix and a numeral that is the text of the
/// exponential form with symbol `sym`
pub open spec fn sci_routed2(ret: core::fmt::Result, sym: Seq<char>, n: int, neg: bool, nonneg: bool, s: int, f: core::fmt::Formatter<'_>) -> bool {
    exists|text: Seq<char>| #[trigger] sci_text(text, sym, n, neg, s, fmt_precision(&f)) && ret == pad_integral_spec(f, nonneg, ""@, text)
}
pub open spec fn sci_routed(ret: core::fmt::Result, sym: Seq<char>, i: int, s: int, f: core::fmt::Formatter<'_>) -> bool {
    sci_routed2(ret, sym, iabs(i), i < 0, i >= 0, s, f)
}
pub open spec fn dotless_routed(ret: core::fmt::Result, i: int, s: int, f: core::fmt::Formatter<'_>) -> bool {
    exists|text: Seq<char>| #[trigger] dotless_text(text, i, s) && ret == pad_integral_spec(f, i >= 0, ""@, text)
}
pub open spec fn full_routed(ret: core::fmt::Result, i: int, s: int, f: core::fmt::Formatter<'_>) -> bool {
    exists|text: Seq<char>| #[trigger] full_text(text, i, s, fmt_precision(&f)) && ret == pad_integral_spec(f, i >= 0, ""@, text)
}
/// ... the text of one of the three formatting routines (0: exponential "E" form, 1: dotless "e" form, 2: full scale)
pub open spec fn fmt_routed(ret: core::fmt::Result, kind: int, i: int, s: int, f: core::fmt::Formatter<'_>) -> bool {
    if kind == 0 { sci_routed(ret, "E"@, i, s, f) } else if kind == 1 { dotless_routed(ret, i, s, f) } else { full_routed(ret, i, s, f) }
}
/// the digits left by the ASCII rounding routine (value dl, l of them, r digits removed), padded with zeros to k digits, are
/// the normalised k-digit rounding of n: they read as the oracle's value (divided by ten, with the exponent raised, after a
/// carry out of all nines) and have a non-zero leading digit
pub proof fn lemma_sci_digits(n: int, k: int, dl: int, l: int, r: int, v: int)
    requires n >= 0, 1 <= k < ndigits(n), 1 <= l <= k, r >= ndigits(n) - k, dl * pow10(r - (ndigits(n) - k)) == v, 0 <= dl < pow10(l),
             l + r == ndigits(n) || (l + r == ndigits(n) + 1 && l == 1),
             n / pow10(ndigits(n) - k) <= v <= n / pow10(ndigits(n) - k) + 1
    ensures (dl * pow10(k - l)) * pow10(l + r - ndigits(n)) == v, dl * pow10(k - l) >= pow10(k - 1)
{
    let nd = ndigits(n);
    let m = nd - k;
    let x = dl * pow10(k - l);
    let delta = l + r - nd;
    lemma_ndigits_bounds(n);
    lemma_pow10_add(k - l, delta);
    assert(k - l + delta == r - m);
    assert(x * pow10(delta) == dl * pow10(r - m)) by (nonlinear_arith)
        requires x == dl * pow10(k - l), pow10(k - l + delta) == pow10(k - l) * pow10(delta), k - l + delta == r - m;
    // q = n / 10^m lies in [10^(k-1), 10^k)
    lemma_pow10_add(k - 1, m);
    lemma_pow10_add(k, m);
    lemma_pow10_pos(m);
    lemma_pow10_pos(k - 1);
    let q = n / pow10(m);
    assert(q >= pow10(k - 1)) by (nonlinear_arith)
        requires q == n / pow10(m), n >= pow10(k - 1) * pow10(m), pow10(m) > 0;
    assert(q < pow10(k)) by (nonlinear_arith)
        requires q == n / pow10(m), n < pow10(k) * pow10(m), pow10(m) > 0;
    if delta == 0 {
        lemma_pow10_0();
        assert(x * 1 == x);
    } else {
        // carry out of all nines: a single digit c with c * 10^k == v in [10^(k-1), 10^k]
        assert(l == 1 && r - m == k);
        lemma_pow10_1();
        lemma_pow10_pos(k);
        lemma_pow10_strict_mono(k - 1, k);
        assert(dl == 1) by (nonlinear_arith)
            requires dl * pow10(k) == v, pow10(k - 1) <= v <= pow10(k), 0 <= dl, pow10(k) > 0, pow10(k - 1) > 0;
        assert(x == pow10(k - 1)) by (nonlinear_arith) requires x == dl * pow10(k - l), dl == 1, l == 1;
    }
}

pub proof fn lemma_withint_ascii(out: Seq<u8>, ts: int)
    requires ts >= 0, out.len() >= (if ts == 0 { 1int } else { ts + 2 }), ts > 0 ==> out[out.len() - ts - 1] == 46u8, ascii_digits(strip_point(out, ts))
    ensures ascii_bytes(out)
{
    let sp = strip_point(out, ts);
    assert forall|i: int| 0 <= i < out.len() implies (#[trigger] out[i]) < 128 by {
        if ts == 0 { assert(sp[i] == out[i]); }
        else {
            let p = out.len() - ts - 1;
            if i < p { assert(sp[i] == out[i]); } else if i > p { assert(sp[i - 1] == out[i]); }
        }
    }
}
pub proof fn lemma_noint_ascii(out: Seq<u8>, ts: int, v: int)
    requires ts >= 0, noint_small_render(out, ts, v)
    ensures ascii_bytes(out)
{
    assert forall|i: int| 0 <= i < out.len() implies (#[trigger] out[i]) < 128 by {
        if i == out.len() - 1 { assert(out[i] == out.last()); }
    }
}

/// which routine Display picks: the exponential form when more than `lead` zeros separate the point from the first digit,
/// the dotless form when more than `trail` zeros would have to be appended, never when a precision is requested
pub open spec fn display_route(nd: int, s: int, prec: Option<usize>, lead: int, trail: int) -> int {
    let lz = if s >= nd { s - nd } else { 0 };
    let tz = if prec.is_some() { 0 } else if s <= 0 && s > -0x8000_0000_0000_0000 { -s } else { 0 };
    if prec.is_none() && lead < lz { 0 } else if trail < tz { 1 } else { 2 }
}

// ------------------------------------------------------------------ R9: build-time configuration as uninterpreted symbols
pub uninterp spec fn cfg_default_precision() -> u64;
pub uninterp spec fn cfg_default_rounding_mode() -> RoundingMode;
pub uninterp spec fn cfg_fmt_leading_zero_threshold() -> usize;
pub uninterp spec fn cfg_fmt_trailing_zero_threshold() -> usize;
pub uninterp spec fn cfg_fmt_max_integer_padding() -> usize;

/// result (unscaled magnitude, scale) of the Newton reciprocal on a magnitude: NOT specified (accuracy undecided)
pub uninterp spec fn inv_mag_spec(n: int, s: int, p: u64, m: RoundingMode) -> (int, int);

/// floor square root
pub open spec fn is_isqrt(r: int, x: int) -> bool { r >= 0 && r * r <= x && x < (r + 1) * (r + 1) }
/// number of zeros the square-root core appends to an nd-digit integer at scale s for precision p: enough for 2(p+5) digits,
/// plus one if that leaves an odd scale
pub open spec fn sqrt_shift(nd: int, s: int, p: int) -> int {
    let e0 = if 2 * (p + 5) > nd { 2 * (p + 5) - nd } else { 0 };
    e0 + (if (s + e0) % 2 == 0 { 0int } else { 1int })
}
/// THE REAL SQUARE ROOT of the integer n >= 0, ROUNDED at the decimal position 10^t under (mode, neg), over integers only
/// (same construction as cbrt_round_real: exactness  n == (q*10^t)^2,  midpoint test  4n  vs  ((2q+1)*10^t)^2 )
pub open spec fn sqrt_round_real(n: int, t: int, mode: RoundingMode, neg: bool, q: int) -> int {
    let pw = pow10(t);
    let lo = q * pw;
    let h2 = (2 * q + 1) * pw;
    if n == lo * lo { q }
    else if round_up(mode, neg, cmp3(4 * n, h2 * h2), q % 2 == 1) { q + 1 } else { q }
}
/// what the square-root core returns for the integer nv > 0 at scale s:  with N = nv * 10^e (e = sqrt_shift), R = floor(sqrt(N)),
/// t = digits(R) - p > 0:  the REAL square root of N rounded at 10^t (sqrt_round_real) at scale (s + e)/2 - t, i.e. the real square
/// root of nv * 10^-s rounded to p significant digits (p + 1 after a carry to a power of ten) under the mode
pub open spec fn sqrt_mag_post(nv: int, s: int, p: int, mode: RoundingMode, ri: int, rs: int) -> bool {
    let e = sqrt_shift(ndigits(nv), s, p);
    exists|r: int| #[trigger] is_isqrt(r, nv * pow10(e)) && ndigits(r) > p
        && ri == sqrt_round_real(nv * pow10(e), ndigits(r) - p, mode, false, r / pow10(ndigits(r) - p))
        && rs == (s + e) / 2 - (ndigits(r) - p)
}
pub proof fn lemma_square_mono(a: int, b: int)
    requires 0 <= a <= b
    ensures a * a <= b * b
{
    assert(a * a <= b * b) by (nonlinear_arith) requires 0 <= a <= b;
}
pub proof fn lemma_square_strict_mono(a: int, b: int)
    requires 0 <= a < b
    ensures a * a < b * b
{
    assert(a * a < b * b) by (nonlinear_arith) requires 0 <= a < b;
}
pub proof fn lemma_isqrt_unique(r1: int, r2: int, x: int)
    requires is_isqrt(r1, x), is_isqrt(r2, x)
    ensures r1 == r2
{
    if r1 < r2 { lemma_square_mono(r1 + 1, r2); }
    if r2 < r1 { lemma_square_mono(r2 + 1, r1); }
}
/// (R+1)^2 > N >= b^2  ==>  R >= b
pub proof fn lemma_square_root_lower(r: int, n: int, b: int)
    requires r >= 0, b >= 0, n < (r + 1) * (r + 1), n >= b * b
    ensures r >= b
{
    if r < b { lemma_square_mono(r + 1, b); }
}
pub proof fn lemma_sqrt_mid(n: int, r: int, q: int, rr: int, pw: int)
    requires is_isqrt(r, n), r == pw * q + rr, 0 <= rr < pw, q >= 0, pw % 2 == 0, pw > 0
    ensures ({
        let st = if r * r == n { 0int } else { 1int };
        let h2 = (2 * q + 1) * pw;
        cmp3(2 * (10 * rr + st), 10 * pw) == cmp3(4 * n, h2 * h2)
    })
{
    let st = if r * r == n { 0int } else { 1int };
    let h2 = (2 * q + 1) * pw;
    assert(2 * r - h2 == 2 * rr - pw) by (nonlinear_arith) requires r == pw * q + rr, h2 == (2 * q + 1) * pw;
    assert((2 * r) * (2 * r) == 4 * (r * r)) by (nonlinear_arith);
    assert((2 * (r + 1)) * (2 * (r + 1)) == 4 * ((r + 1) * (r + 1))) by (nonlinear_arith);
    if 2 * rr < pw {
        assert(2 * rr <= pw - 2);
        lemma_square_mono(2 * (r + 1), h2);
    } else if 2 * rr > pw {
        assert(2 * rr >= pw + 2);
        assert(h2 >= 0) by (nonlinear_arith) requires h2 == (2 * q + 1) * pw, q >= 0, pw > 0;
        lemma_square_strict_mono(h2, 2 * r);
    } else {
        assert(2 * r == h2);
    }
}
pub proof fn lemma_sqrt_exact(n: int, r: int, q: int, rr: int, pw: int)
    requires is_isqrt(r, n), r == pw * q + rr, 0 <= rr < pw, q >= 0, pw > 0
    ensures ({ let lo = q * pw; (n == lo * lo) == (rr == 0 && r * r == n) })
{
    let lo = q * pw;
    assert(lo == pw * q) by (nonlinear_arith) requires lo == q * pw;
    assert(lo >= 0) by (nonlinear_arith) requires lo == q * pw, q >= 0, pw > 0;
    if n == lo * lo {
        lemma_square_strict_mono(lo, lo + 1);
        assert(is_isqrt(lo, n));
        lemma_isqrt_unique(lo, r, n);
    }
}
/// the floor root R with a sticky digit rounds exactly like the real root:
/// round_mag(10*R + (exact ? 0 : 1), t + 1) == sqrt_round_real(N, t, .., R / 10^t)
pub proof fn lemma_sqrt_sticky(n: int, r: int, t: int, mode: RoundingMode, neg: bool)
    requires is_isqrt(r, n), t >= 1
    ensures round_mag(10 * r + (if r * r == n { 0int } else { 1int }), t + 1, mode, neg) == sqrt_round_real(n, t, mode, neg, r / pow10(t))
{
    let pw = pow10(t);
    lemma_pow10_pos(t); lemma_pow10_pos(t - 1); lemma_pow10_succ(t - 1); lemma_pow10_succ(t);
    let q = r / pw; let rr = r % pw;
    lemma_fundamental_div_mod(r, pw);
    assert(q >= 0) by { lemma_div_pos_is_pos(r, pw); }
    let st = if r * r == n { 0int } else { 1int };
    let v = 10 * r + st;
    let k = pow10(t + 1);
    let tt = 10 * rr + st;
    assert(v == q * k + tt) by (nonlinear_arith) requires v == 10 * r + st, r == pw * q + rr, k == 10 * pw, tt == 10 * rr + st;
    lemma_fundamental_div_mod_converse(v, k, q, tt);
    assert(pw % 2 == 0) by { assert(pw == 2 * (5 * pow10(t - 1))); }
    lemma_sqrt_mid(n, r, q, rr, pw);
    lemma_sqrt_exact(n, r, q, rr, pw);
    assert((tt == 0) == (rr == 0 && st == 0));
}
/// appending a zero digit below does not change a rounding one place higher up
pub proof fn lemma_round_mag_times10(x: int, k: int, mode: RoundingMode, neg: bool)
    requires x >= 0, k >= 0
    ensures round_mag(10 * x, k + 1, mode, neg) == round_mag(x, k, mode, neg)
{
    let pk = pow10(k);
    lemma_pow10_pos(k); lemma_pow10_succ(k);
    let q = x / pk; let t = x % pk;
    lemma_fundamental_div_mod(x, pk);
    assert(10 * x == q * (10 * pk) + 10 * t) by (nonlinear_arith) requires x == pk * q + t;
    lemma_fundamental_div_mod_converse(10 * x, 10 * pk, q, 10 * t);
    assert(cmp3(2 * (10 * t), 10 * pk) == cmp3(2 * t, pk));
}
/// a sticky digit adds exactly one decimal digit
pub proof fn lemma_ndigits_sticky(r: int)
    requires r >= 1
    ensures ndigits(10 * r + 1) == ndigits(r) + 1
{
    let d = ndigits(r);
    lemma_ndigits_bounds(r);
    lemma_pow10_succ(d - 1); lemma_pow10_succ(d);
    lemma_ndigits_unique(10 * r + 1, d + 1);
}
/// floor cube root
pub open spec fn is_icbrt(r: int, x: int) -> bool { r >= 0 && r * r * r <= x && x < (r + 1) * (r + 1) * (r + 1) }
/// number of zeros the cube-root core appends to an nd-digit integer at scale s for precision p: enough for 3(p+4) digits,
/// then up to the next exponent that makes the scale a multiple of three
pub open spec fn cbrt_shift(nd: int, s: int, p: int) -> int {
    let e0 = if 3 * (p + 4) > nd { 3 * (p + 4) - nd } else { 0 };
    let m3 = (s + e0) % 3;
    e0 + (if m3 == 0 { 0 } else { 3 - m3 })
}
/// THE REAL CUBE ROOT of the integer n > 0, ROUNDED at the decimal position 10^t under (mode, neg), stated over integers only:
/// with q = floor(cbrt(n) / 10^t)  (given as argument, pinned by  (q*10^t)^3 <= n < ((q+1)*10^t)^3 )
///   * the root is exactly q * 10^t            iff  n == (q * 10^t)^3            -> q, no rounding
///   * the root is below / at / above the midpoint (q + 1/2) * 10^t   iff  8n  <  /  ==  /  >  ((2q+1) * 10^t)^3
///     (x -> x^3 is strictly monotonic), and the mode table round_up decides between q and q + 1 exactly as for round_mag.
pub open spec fn cbrt_round_real(n: int, t: int, mode: RoundingMode, neg: bool, q: int) -> int {
    let pw = pow10(t);
    let lo = q * pw;
    let h2 = (2 * q + 1) * pw;
    if n == lo * lo * lo { q }
    else if round_up(mode, neg, cmp3(8 * n, h2 * h2 * h2), q % 2 == 1) { q + 1 } else { q }
}
/// what the cube-root core returns for the magnitude nv > 0 at scale s:  with N = nv * 10^e (e = cbrt_shift), R = floor(cbrt(N)),
/// t = digits(R) - p > 0:  sign * (the REAL cube root of N rounded at 10^t, see cbrt_round_real) at scale (s + e)/3 - t,
/// i.e. the real cube root of nv * 10^-s rounded to p significant digits (p + 1 after a carry) under the mode, on the signed value.
pub open spec fn cbrt_mag_post(nv: int, s: int, p: int, mode: RoundingMode, sign: Sign, ri: int, rs: int) -> bool {
    let e = cbrt_shift(ndigits(nv), s, p);
    exists|r: int| #[trigger] is_icbrt(r, nv * pow10(e)) && ndigits(r) > p
        && ri == sgn(sign) * cbrt_round_real(nv * pow10(e), ndigits(r) - p, mode, sign == Sign::Minus, r / pow10(ndigits(r) - p))
        && rs == (s + e) / 3 - (ndigits(r) - p)
}
pub open spec fn cbrt_core_post(i: int, s: int, p: int, m: RoundingMode, ri: int, rs: int) -> bool {
    cbrt_mag_post(iabs(i), s, p, m, sign_of(i), ri, rs)
}
/// (R+1)^3 > N >= b^3  ==>  R >= b
pub proof fn lemma_cube_root_lower(r: int, n: int, b: int)
    requires r >= 0, b >= 0, n < (r + 1) * (r + 1) * (r + 1), n >= b * b * b
    ensures r >= b
{
    if r < b {
        let a = r + 1;
        assert(a * a * a <= b * b * b) by (nonlinear_arith) requires 0 <= a <= b;
    }
}
pub proof fn lemma_cube_mono(a: int, b: int)
    requires 0 <= a <= b
    ensures a * a * a <= b * b * b
{
    assert(a * a * a <= b * b * b) by (nonlinear_arith) requires 0 <= a <= b;
}
pub proof fn lemma_pow10_cube(k: int)
    requires k >= 0
    ensures pow10(3 * k) == pow10(k) * pow10(k) * pow10(k)
{
    lemma_pow10_add(k, k); lemma_pow10_add(2 * k, k);
}
pub proof fn lemma_cube_strict_mono(a: int, b: int)
    requires 0 <= a < b
    ensures a * a * a < b * b * b
{
    assert(a * a * a < b * b * b) by (nonlinear_arith) requires 0 <= a < b;
}
pub proof fn lemma_icbrt_unique(r1: int, r2: int, x: int)
    requires is_icbrt(r1, x), is_icbrt(r2, x)
    ensures r1 == r2
{
    if r1 < r2 { lemma_cube_mono(r1 + 1, r2); }
    if r2 < r1 { lemma_cube_mono(r2 + 1, r1); }
}
pub proof fn lemma_cube_double(x: int)
    ensures (2 * x) * (2 * x) * (2 * x) == 8 * (x * x * x)
{
    assert((2 * x) * (2 * x) * (2 * x) == 8 * (x * x * x)) by (nonlinear_arith);
}
/// midpoint test of the cube root: with r = pw*q + rr (0 <= rr < pw, pw even), h2 = (2q+1)*pw:
/// 2*(10*rr + st) vs 10*pw  decides exactly like  8n vs h2^3   (st = 0 iff r^3 == n)
pub proof fn lemma_cbrt_mid(n: int, r: int, q: int, rr: int, pw: int)
    requires is_icbrt(r, n), r == pw * q + rr, 0 <= rr < pw, q >= 0, pw % 2 == 0, pw > 0
    ensures ({
        let st = if r * r * r == n { 0int } else { 1int };
        let h2 = (2 * q + 1) * pw;
        cmp3(2 * (10 * rr + st), 10 * pw) == cmp3(8 * n, h2 * h2 * h2)
    })
{
    let st = if r * r * r == n { 0int } else { 1int };
    let h2 = (2 * q + 1) * pw;
    assert(2 * r - h2 == 2 * rr - pw) by (nonlinear_arith) requires r == pw * q + rr, h2 == (2 * q + 1) * pw;
    lemma_cube_double(r); lemma_cube_double(r + 1);
    if 2 * rr < pw {
        assert(2 * rr <= pw - 2);
        lemma_cube_mono(2 * (r + 1), h2);
    } else if 2 * rr > pw {
        assert(2 * rr >= pw + 2);
        assert(h2 >= 0) by (nonlinear_arith) requires h2 == (2 * q + 1) * pw, q >= 0, pw > 0;
        lemma_cube_strict_mono(h2, 2 * r);
    } else {
        assert(2 * r == h2);
    }
}
/// exactness test of the cube root: n == (q*pw)^3  iff  rr == 0 and r^3 == n
pub proof fn lemma_cbrt_exact(n: int, r: int, q: int, rr: int, pw: int)
    requires is_icbrt(r, n), r == pw * q + rr, 0 <= rr < pw, q >= 0, pw > 0
    ensures ({ let lo = q * pw; (n == lo * lo * lo) == (rr == 0 && r * r * r == n) })
{
    let lo = q * pw;
    assert(lo == pw * q) by (nonlinear_arith) requires lo == q * pw;
    assert(lo >= 0) by (nonlinear_arith) requires lo == q * pw, q >= 0, pw > 0;
    if n == lo * lo * lo {
        lemma_cube_strict_mono(lo, lo + 1);
        assert(is_icbrt(lo, n));
        lemma_icbrt_unique(lo, r, n);
    }
}
/// the floor root R with a sticky digit rounds exactly like the real root:
/// round_mag(10*R + (exact ? 0 : 1), t + 1) == cbrt_round_real(N, t, .., R / 10^t)
pub proof fn lemma_cbrt_sticky(n: int, r: int, t: int, mode: RoundingMode, neg: bool)
    requires is_icbrt(r, n), t >= 1
    ensures round_mag(10 * r + (if r * r * r == n { 0int } else { 1int }), t + 1, mode, neg) == cbrt_round_real(n, t, mode, neg, r / pow10(t))
{
    let pw = pow10(t);
    lemma_pow10_pos(t); lemma_pow10_pos(t - 1); lemma_pow10_succ(t - 1); lemma_pow10_succ(t);
    let q = r / pw; let rr = r % pw;
    lemma_fundamental_div_mod(r, pw);
    assert(q >= 0) by { lemma_div_pos_is_pos(r, pw); }
    let st = if r * r * r == n { 0int } else { 1int };
    let v = 10 * r + st;
    let k = pow10(t + 1);
    let tt = 10 * rr + st;
    assert(v == q * k + tt) by (nonlinear_arith) requires v == 10 * r + st, r == pw * q + rr, k == 10 * pw, tt == 10 * rr + st;
    lemma_fundamental_div_mod_converse(v, k, q, tt);
    assert(pw % 2 == 0) by { assert(pw == 2 * (5 * pow10(t - 1))); }
    lemma_cbrt_mid(n, r, q, rr, pw);
    lemma_cbrt_exact(n, r, q, rr, pw);
    assert((tt == 0) == (rr == 0 && st == 0));
}
/// n >= 10^k (n >= 0)  ==>  n has more than k digits
pub proof fn lemma_ndigits_lower(n: int, k: int)
    requires n >= 0, k >= 0, n >= pow10(k)
    ensures ndigits(n) >= k + 1
{
    lemma_ndigits_bounds(n);
    if ndigits(n) <= k { lemma_pow10_mono(ndigits(n), k); }
}
/// n < 10^k (n >= 0, k >= 1)  ==>  n has at most k digits
pub proof fn lemma_ndigits_upper(n: int, k: int)
    requires n >= 0, k >= 1, n < pow10(k)
    ensures ndigits(n) <= k
{
    lemma_ndigits_bounds(n);
    if ndigits(n) > k { if n > 0 { lemma_pow10_mono(k, ndigits(n) - 1); } }
}
/// digits of a floor cube root: 3*digits(R) - 2 <= digits(N) <= 3*digits(R)
pub proof fn lemma_icbrt_digits(r: int, n: int)
    requires is_icbrt(r, n), r >= 1
    ensures 3 * ndigits(r) - 2 <= ndigits(n) <= 3 * ndigits(r)
{
    let d = ndigits(r);
    lemma_ndigits_bounds(r);
    lemma_pow10_cube(d - 1); lemma_pow10_cube(d);
    lemma_pow10_pos(d - 1); lemma_pow10_pos(d);
    lemma_cube_mono(pow10(d - 1), r);
    lemma_cube_mono(r + 1, pow10(d));
    assert(n >= pow10(3 * (d - 1)));
    assert(n < pow10(3 * d));
    lemma_ndigits_lower(n, 3 * (d - 1));
    lemma_ndigits_upper(n, 3 * d);
}
/// truncated division by three against the Euclidean one
pub proof fn lemma_tdiv3(x: int)
    ensures x == 3 * tdiv(x, 3) + trem(x, 3), -2 <= trem(x, 3) <= 2,
            x >= 0 ==> trem(x, 3) == x % 3 && tdiv(x, 3) == x / 3,
            x < 0 ==> (trem(x, 3) == 0 <==> x % 3 == 0) && (x % 3 != 0 ==> trem(x, 3) == x % 3 - 3) && trem(x, 3) <= 0
{
    if x < 0 {
        let y = -x;
        // x = -(3*(y/3) + y%3)
        assert(y == 3 * (y / 3) + y % 3) by { lemma_fundamental_div_mod(y, 3); }
        assert(tdiv(x, 3) == -(y / 3));
        let r = y % 3;
        if r == 0 { lemma_fundamental_div_mod_converse(x, 3, -(y / 3), 0); }
        else { lemma_fundamental_div_mod_converse(x, 3, -(y / 3) - 1, 3 - r); }
    } else {
        lemma_fundamental_div_mod(x, 3);
    }
}
/// entry-point behaviour of sqrt: zero and one are returned unchanged, negative => None, else the core on the magnitude
pub open spec fn sqrt_post(i: int, s: int, p: u64, m: RoundingMode, ret: Option<BigDecimal>) -> bool {
    if i == 0 || same_val(i, s, 1, 0) { ret.is_some() && ret.unwrap().i() == i && ret.unwrap().s() == s }
    else if i < 0 { ret.is_none() }
    else { ret.is_some() && sqrt_mag_post(i, s, p as int, m, ret.unwrap().i(), ret.unwrap().s()) }
}
pub open spec fn cbrt_post(i: int, s: int, p: u64, m: RoundingMode, ri: int, rs: int) -> bool {
    if i == 0 || same_val(i, s, 1, 0) { ri == i && rs == s }
    else { cbrt_core_post(i, s, p as int, m, ri, rs) }
}

// derive(Debug) on the error type (needed by Result::unwrap)
impl core::fmt::Debug for ParseBigDecimalError {
    #[verifier::external_body]
    fn fmt(&self, f: &mut core::fmt::Formatter<'_>) -> core::fmt::Result { unimplemented!() }
}
// derive(Clone) on the crate's structs (derives are dropped by R7; these bodies are what derive expands to)
impl Clone for BigDecimal {
    fn clone(&self) -> (ret: BigDecimal) ensures ret.i() == self.i(), ret.s() == self.s() {
        BigDecimal { int_val: self.int_val.clone(), scale: self.scale }
    }
}
impl<'a> Clone for BigDecimalRef<'a> {
    fn clone(&self) -> (ret: Self) ensures ret == *self { *self }
}
impl<'a> Copy for BigDecimalRef<'a> {}
impl Clone for RoundingMode {
    fn clone(&self) -> (ret: Self) ensures ret == *self { *self }
}
impl Copy for RoundingMode {}
impl Clone for NonDigitRoundingData {
    fn clone(&self) -> (ret: Self) ensures ret == *self { *self }
}
impl Copy for NonDigitRoundingData {}
impl Clone for InsigData {
    fn clone(&self) -> (ret: Self) ensures ret == *self { *self }
}
impl Copy for InsigData {}
impl Eq for BigDecimal {}
impl<'a> Eq for BigDecimalRef<'a> {}

// ------------------------------------------------------------------ rounding oracle (from the RoundingMode documentation)
/// c: sign of (discarded tail - half unit); odd: parity of the kept last digit
pub open spec fn round_up(mode: RoundingMode, neg: bool, c: int, odd: bool) -> bool {
    match mode {
        RoundingMode::Up => true,
        RoundingMode::Down => false,
        RoundingMode::Ceiling => !neg,
        RoundingMode::Floor => neg,
        RoundingMode::HalfUp => c >= 0,
        RoundingMode::HalfDown => c > 0,
        RoundingMode::HalfEven => c > 0 || (c == 0 && odd),
    }
}

/// magnitude n >= 0 with k >= 0 digits dropped
pub open spec fn round_mag(n: int, k: int, mode: RoundingMode, neg: bool) -> int {
    let q = n / pow10(k);
    let t = n % pow10(k);
    if t == 0 { q } else if round_up(mode, neg, cmp3(2 * t, pow10(k)), q % 2 == 1) { q + 1 } else { q }
}

pub open spec fn pair_c(r: u8, tz: bool) -> int { if r < 5 { -1 } else if r > 5 { 1 } else if tz { 0 } else { 1 } }
pub open spec fn round_pair_spec(mode: RoundingMode, sign: Sign, l: u8, r: u8, tz: bool) -> int {
    if r == 0 && tz { l as int } else if round_up(mode, sign == Sign::Minus, pair_c(r, tz), l % 2 == 1) { l + 1 } else { l as int }
}

/// the bridge: digit pair + tail flag decide exactly like round_mag
pub proof fn lemma_pair_is_round_mag(n: int, k: int, q: int, r: u8, tail: int, mode: RoundingMode, sign: Sign)
    requires k >= 1, q >= 0, r <= 9, 0 <= tail < pow10(k - 1),
             n == tail + pow10(k - 1) * r + pow10(k) * q,
    ensures round_mag(n, k, mode, sign == Sign::Minus)
            == q - (q % 10) + round_pair_spec(mode, sign, (q % 10) as u8, r, tail == 0)
{
    let p = pow10(k - 1);
    lemma_pow10_pos(k - 1);
    lemma_pow10_succ(k - 1);
    let t = tail + p * r;
    assert(0 <= t < 10 * p) by (nonlinear_arith) requires 0 <= tail < p, 0 <= r <= 9, t == tail + p * r;
    assert(pow10(k) * q == (10 * p) * q);
    assert(n == (10 * p) * q + t);
    assert(10 * p != 0);
    assert(n == q * (10 * p) + t) by (nonlinear_arith) requires n == (10 * p) * q + t;
    lemma_fundamental_div_mod_converse(n, 10 * p, q, t);
    assert(n / pow10(k) == q && n % pow10(k) == t);
    assert((t == 0) == (r == 0 && tail == 0)) by (nonlinear_arith) requires 0 <= tail < p, 0 <= r <= 9, t == tail + p * r, p > 0;
    assert(cmp3(2 * t, 10 * p) == pair_c(r, tail == 0)) by (nonlinear_arith)
        requires 0 <= tail < p, 0 <= r <= 9, t == tail + p * r, p > 0;
    assert((q % 10) % 2 == q % 2) by { lemma_mod_mod(q, 2, 5); }
}

/// the rounded value of a decimal at a lower scale, as a signed integer
pub open spec fn round_int(i: int, k: int, mode: RoundingMode) -> int {
    isgn(i) * round_mag(iabs(i), k, mode, i < 0)
}

// ------------------------------------------------------------------ Into<BigDecimalRef> (generic operands)
/// the reference view a generic operand converts to
pub open spec fn into_ref<'a, T: Into<BigDecimalRef<'a>>>(x: T) -> BigDecimalRef<'a> {
    IntoSpec::<BigDecimalRef<'a>>::into_spec(x)
}
/// the conversion is one of the crate's own (specified) conversions
pub open spec fn into_ok<'a, T: Into<BigDecimalRef<'a>>>(x: T) -> bool {
    <T as IntoSpec<BigDecimalRef<'a>>>::obeys_into_spec()
}
pub mod ax {
    use vstd::prelude::*;
    use vstd::std_specs::convert::*;
    use crate::*;
    use crate::prelude::*;
    use crate::shim::*;

    /// the reference view of a &BigDecimal / &BigInt denotes the same number
    pub broadcast proof fn b_into_ref_dec<'a>(n: &'a BigDecimal)
        ensures (#[trigger] into_ref(n)).i() == n.i(), into_ref(n).s() == n.s(), into_ok(n)
    {
        broadcast use crate::shim::axiom_spec_magnitude;
        let g = sgn(sign_of(n.i()));
        assert(g * iabs(n.i()) == n.i()) by (nonlinear_arith) requires g == isgn(n.i());
    }
    pub broadcast proof fn b_into_ref_int<'a>(n: &'a BigInt)
        ensures (#[trigger] into_ref(n)).i() == n@, into_ref(n).s() == 0, into_ok(n)
    {
        broadcast use crate::shim::axiom_spec_magnitude;
        let g = sgn(sign_of(n@));
        assert(g * iabs(n@) == n@) by (nonlinear_arith) requires g == isgn(n@);
    }
    pub broadcast proof fn b_into_ref_ref<'a>(n: BigDecimalRef<'a>)
        ensures #[trigger] into_ref(n) == n, into_ok(n)
    { broadcast use {axiom_ref_into_self, axiom_ref_into_self_obeys}; }
    pub broadcast group val_algebra { crate::vs::b_val_at_self, crate::vs::b_val_at_zero, crate::vs::b_val_at_neg, crate::vs::b_mul_cases, crate::vs::b_one_scale, b_into_ref_dec, b_into_ref_int, b_into_ref_ref }
/// the crate's LowerExp / UpperExp impls for BigDecimalRef have no precondition (vstd gives every formatting trait method
/// the precondition fmt_req, true for the types declared fmt_req_all; the impls are verified WITHOUT using it)
#[verifier::external_body]
pub broadcast proof fn axiom_fmt_req_all_ref_view<'a>()
    ensures #[trigger] vstd::std_specs::fmt::fmt_req_all::<BigDecimalRef<'a>>()
{}
/// std's reflexive `impl<T> From<T> for T` is the identity (assumed)
#[verifier::external_body]
pub broadcast proof fn axiom_ref_into_self<'a>(x: BigDecimalRef<'a>)
    ensures <BigDecimalRef<'a> as FromSpec<BigDecimalRef<'a>>>::obeys_from_spec(),
            #[trigger] <BigDecimalRef<'a> as FromSpec<BigDecimalRef<'a>>>::from_spec(x) == x
{}
#[verifier::external_body]
pub broadcast proof fn axiom_ref_into_self_obeys<'a>()
    ensures #[trigger] <BigDecimalRef<'a> as FromSpec<BigDecimalRef<'a>>>::obeys_from_spec()
{}

}
pub use ax::*;

// ------------------------------------------------------------------ comparison specs on reference views
/// outside the representation invariant (unreachable for exec values) the result is left unspecified
pub uninterp spec fn ref_eq_unspecified<'a, 'b>(a: BigDecimalRef<'a>, b: BigDecimalRef<'b>) -> bool;
pub uninterp spec fn ref_cmp_unspecified<'a, 'b>(a: BigDecimalRef<'a>, b: BigDecimalRef<'b>) -> Ordering;
pub open spec fn ref_eq_spec<'a, 'b>(a: BigDecimalRef<'a>, b: BigDecimalRef<'b>) -> bool {
    if a.wf() && b.wf() { same_val(a.i(), a.s(), b.i(), b.s()) } else { ref_eq_unspecified(a, b) }
}
pub open spec fn ref_cmp_spec<'a, 'b>(a: BigDecimalRef<'a>, b: BigDecimalRef<'b>) -> Ordering {
    if a.wf() && b.wf() { val_cmp(a.i(), a.s(), b.i(), b.s()) } else { ref_cmp_unspecified(a, b) }
}

pub proof fn lemma_round_int_sign(i: int, r: int, n: int, k: int, mode: RoundingMode, sign: Sign)
    requires n == iabs(i), sign == sign_of(i), r == sgn(sign) * round_mag(n, k, mode, sign == Sign::Minus)
    ensures r == round_int(i, k, mode)
{}

/// truncating division by 10^k is rounding Down
pub proof fn lemma_trunc_is_round_down(i: int, k: int)
    requires k >= 0
    ensures tdiv(i, pow10(k)) == round_int(i, k, RoundingMode::Down)
{
    lemma_pow10_pos(k);
    let p = pow10(k);
    let n = iabs(i);
    assert(round_mag(n, k, RoundingMode::Down, i < 0) == n / p);
    if i == 0 { assert(0int / p == 0) by { lemma_div_basics(p); } }
    else if i > 0 { assert(1 * (n / p) == n / p); }
    else { assert(-1 * (n / p) == -(n / p)); }
}

// ------------------------------------------------------------------ rounding to a precision
/// (ri, rs) is (i, s) rounded at its p-th significant digit under `mode`: exact and zero-padded to p digits
/// when the input has at most p digits
pub open spec fn prec_round_post(i: int, s: int, p: int, mode: RoundingMode, ri: int, rs: int) -> bool {
    let d = ndigits(iabs(i));
    &&& rs == s + (p - d)
    &&& (d <= p ==> ri == i * pow10(p - d))
    &&& (d > p ==> ri == round_int(i, d - p, mode))
}

/// with_prec's remainder test: for i >= 0 the truncated quotient plus [remainder has no leading zero and its
/// leading digit is >= 5] is HalfUp rounding; the contract demands the mirror image for i < 0
pub proof fn lemma_with_prec_round(i: int, k: int)
    requires k >= 1
    ensures ({
        let p = pow10(k); let n = iabs(i); let q = n / p; let r = n % p;
        round_mag(n, k, RoundingMode::HalfUp, i < 0) == q + (if p < 10 * r && 2 * r >= pow10(ndigits(r)) { 1int } else { 0int })
    })
{
    let p = pow10(k); let n = iabs(i); let q = n / p; let r = n % p;
    lemma_pow10_pos(k);
    lemma_mod_bound(n, p);
    lemma_pow10_succ(k - 1);
    if r == 0 { }
    else {
        lemma_ndigits_bounds(r);
        if p < 10 * r {
            // 10^(k-1) < r < 10^k : r has exactly k digits
            lemma_ndigits_unique(r, k);
        } else {
            // r <= 10^(k-1): 2r < 10^k unless k-1 == 0 ... r <= p/10 so 2r <= p/5 < p
            assert(2 * r < p);
        }
    }
}

// ------------------------------------------------------------------ primitive divisors
/// decimal / primitive integer d: +-1 and +-2 are exact (unchanged / negated / exact half), anything else is
/// the decimal division by the converted integer
pub open spec fn prim_quot_cases(ai: int, a_s: int, d: int, maxp: int, ri: int, rs: int) -> bool {
    if d == 1 { ri == ai && rs == a_s }
    else if d == -1 { ri == -ai && rs == a_s }
    else if d == 2 { is_sum(ai, a_s, ri, rs, ri, rs) }
    else if d == -2 { is_sum(-ai, a_s, ri, rs, ri, rs) }
    else { quot_cases(ai, a_s, d, 0, maxp, ri, rs) }
}
/// Floor and Ceiling exchanged (the mode as seen from the other side of zero)
pub open spec fn mirror_mode(m: RoundingMode) -> RoundingMode {
    match m { RoundingMode::Floor => RoundingMode::Ceiling, RoundingMode::Ceiling => RoundingMode::Floor, o => o }
}
/// entry-point behaviour of inverse_with_context
pub open spec fn inverse_ctx_post(i: int, s: int, p: u64, m: RoundingMode, ri: int, rs: int) -> bool {
    if i == 0 || same_val(i, s, 1, 0) { ri == i && rs == s }
    else {
        let mm = if i < 0 { mirror_mode(m) } else { m };
        rs == inv_mag_spec(iabs(i), s, p, mm).1 && ri == isgn(i) * inv_mag_spec(iabs(i), s, p, mm).0
    }
}
/// result of x.inverse() at the configured default context (see contracts/58_inverse.ctr)
pub open spec fn inverse_post(i: int, s: int, ri: int, rs: int) -> bool {
    inverse_ctx_post(i, s, cfg_default_precision(), cfg_default_rounding_mode(), ri, rs)
}
/// the mirror law of C12 follows from the entry-point contract alone: inverse(-x)|m == -inverse(x)|mirror(m)
pub proof fn lemma_inverse_mirror(i: int, s: int, p: u64, m: RoundingMode, ai: int, a_s: int, bi: int, bs: int)
    requires i != 0, !same_val(i, s, 1, 0), !same_val(-i, s, 1, 0),
             inverse_ctx_post(-i, s, p, m, ai, a_s), inverse_ctx_post(i, s, p, mirror_mode(m), bi, bs)
    ensures ai == -bi, a_s == bs
{
    assert(mirror_mode(mirror_mode(m)) == m);
    assert(iabs(-i) == iabs(i));
    let z = inv_mag_spec(iabs(i), s, p, if i < 0 { m } else { mirror_mode(m) }).0;
    assert(isgn(-i) * z == -(isgn(i) * z)) by (nonlinear_arith) requires isgn(-i) == -isgn(i);
}

/// when does the "all further digits are zero" flag influence rounding (RoundingMode::needs_trailing_zeros)
pub open spec fn needs_tz(mode: RoundingMode, d: u8) -> bool {
    if mode == RoundingMode::HalfUp || mode == RoundingMode::HalfDown || mode == RoundingMode::HalfEven { d == 5 } else { d == 0 }
}
pub proof fn lemma_tz_irrelevant(mode: RoundingMode, sign: Sign, l: u8, d: u8, tz: bool)
    requires !needs_tz(mode, d), l <= 9, d <= 9
    ensures round_pair_spec(mode, sign, l, d, tz) == round_pair_spec(mode, sign, l, d, false)
{}

/// the printed characters without the decimal point (which sits ts+1 characters from the end when ts > 0)
pub open spec fn strip_point(out: Seq<u8>, ts: int) -> Seq<u8> {
    if ts == 0 { out } else { out.subrange(0, out.len() - ts - 1) + out.subrange(out.len() - ts, out.len() as int) }
}
/// `out` is "III.FFF" with exactly ts fractional digits (no point when ts == 0), at least one integer digit, and its
/// digits read as the integer v  (i.e. the printed number is v * 10^-ts)
pub open spec fn withint_render(out: Seq<u8>, ts: int, v: int) -> bool {
    &&& out.len() >= (if ts == 0 { 1int } else { ts + 2 })
    &&& (ts > 0 ==> out[out.len() - ts - 1] == 46u8)
    &&& ascii_digits(strip_point(out, ts))
    &&& dba(strip_point(out, ts)) == v
}
/// leading '0' characters do not change the value of an ASCII digit string
pub proof fn lemma_dba_leading_zeros(s: Seq<u8>, t: Seq<u8>, z: int)
    requires ascii_digits(s), z >= 0, t.len() == s.len() + z, t.subrange(z, t.len() as int) =~= s,
             forall|i: int| 0 <= i < z ==> t[i] == 48u8
    ensures ascii_digits(t), dba(t) == dba(s)
{
    assert forall|i: int| 0 <= i < t.len() implies 48 <= (#[trigger] t[i]) && t[i] <= 57 by {
        if i >= z { assert(t[i] == t.subrange(z, t.len() as int)[i - z]); }
    }
    let ut = unascii(t);
    lemma_dbe_split(ut, z);
    let pre = ut.subrange(0, z);
    assert forall|i: int| 0 <= i < pre.len() implies pre[i] == 0 by { assert(pre[i] == ut[i]); }
    lemma_dbe_all_zero(pre);
    assert(ut.subrange(z, ut.len() as int) =~= unascii(s)) by {
        assert forall|i: int| 0 <= i < s.len() implies ut[z + i] == unascii(s)[i] by { assert(t[z + i] == t.subrange(z, t.len() as int)[i]); }
    }
    assert(0 * pow10(ut.len() - z) == 0);
}
/// "0.00ddd00": the characters other than the point are '0' except for the block d1 that ends tz places before the end;
/// the printed digits then read as d1 followed by tz zeros
pub proof fn lemma_noint_layout(out: Seq<u8>, d1: Seq<u8>, ts: int, ds: int)
    requires ascii_digits(d1), d1.len() >= 1, ts >= 1, 0 <= ds <= ts, out.len() == ts + 2, out[1] == 46u8,
             d1.len() <= ds || (ds == 0 && d1.len() == 1),
             ds != 0 ==> (forall|i: int| 0 <= i < ts + 2 && i != 1 ==> out[i] == (if 2 + ds - d1.len() <= i < 2 + ds { d1[i - (2 + ds - d1.len())] } else { 48u8 })),
             ds == 0 ==> out[0] == d1[0] && (forall|i: int| 2 <= i < ts + 2 ==> out[i] == 48u8),
    ensures withint_render(out, ts, dba(d1) * pow10(ts - ds))
{
    let l1 = d1.len() as int;
    let tz = ts - ds;
    let sp = strip_point(out, ts);
    assert(sp.len() == ts + 1);
    if ds != 0 {
        let idx = 2 + ds - l1;
        let mid = sp.subrange(0, idx - 1 + l1);
        assert forall|i: int| 0 <= i < sp.len() implies sp[i] == (if idx - 1 <= i < idx - 1 + l1 { d1[i - (idx - 1)] } else { 48u8 }) by {
            if i < 1 { assert(sp[i] == out[i]); } else { assert(sp[i] == out[i + 1]); }
        }
        assert(mid.subrange(idx - 1, mid.len() as int) =~= d1);
        lemma_dba_leading_zeros(d1, mid, idx - 1);
        assert(sp.subrange(0, mid.len() as int) =~= mid);
        lemma_dba_append_zeros(mid, sp, tz);
    } else {
        assert forall|i: int| 0 <= i < sp.len() implies sp[i] == (if i < 1 { d1[i] } else { 48u8 }) by {
            if i < 1 { assert(sp[i] == out[i]); } else { assert(sp[i] == out[i + 1]); }
        }
        assert(sp.subrange(0, 1) =~= d1);
        lemma_dba_append_zeros(d1, sp, ts);
    }
}
/// a big-endian ASCII digit string split at its k-th digit: n == tail + 10^(m-1) * r + 10^m * q  with q the first k digits,
/// r the next one and tail the rest (m = len - k >= 1); the facts the rounding routines need about the pieces
pub proof fn lemma_ascii_round_split(d0: Seq<u8>, k: int)
    requires ascii_digits(d0), 1 <= k < d0.len()
    ensures ({
        let ud = unascii(d0); let len = d0.len() as int; let m = len - k;
        let q = dbe(ud.subrange(0, k)); let pfx = dbe(ud.subrange(0, k - 1)); let tail = dbe(ud.subrange(k + 1, len));
        &&& dba(d0) == tail + pow10(m - 1) * (ud[k] as int) + pow10(m) * q
        &&& q == 10 * pfx + ud[k - 1] && q % 10 == ud[k - 1] as int && q >= 0
        &&& 0 <= tail < pow10(m - 1)
        &&& 0 <= pfx < pow10(k - 1)
        &&& ud[k] <= 9 && ud[k - 1] <= 9 && ud[k] == d0[k] - 48 && ud[k - 1] == d0[k - 1] - 48
        &&& (tail == 0) == (forall|i: int| k + 1 <= i < len ==> d0[i] == 48u8)
    })
{
    let ud = unascii(d0); let len = d0.len() as int; let m = len - k;
    let q = dbe(ud.subrange(0, k)); let pfx = dbe(ud.subrange(0, k - 1)); let tail = dbe(ud.subrange(k + 1, len));
    let n = dba(d0);
    lemma_unascii(d0);
    lemma_dbe_split(ud, k);
    let lo = ud.subrange(k, len);
    lemma_dbe_split(lo, 1);
    assert(lo.subrange(1, m) =~= ud.subrange(k + 1, len));
    let one = lo.subrange(0, 1);
    assert(one.drop_last() =~= Seq::<u8>::empty());
    assert(dbe(one) == 10 * dbe(one.drop_last()) + one.last() as int);
    assert(dbe(one) == ud[k] as int);
    let tl = ud.subrange(k + 1, len);
    assert forall|i: int| 0 <= i < tl.len() implies tl[i] <= 9 by { assert(tl[i] == ud[k + 1 + i]); }
    lemma_dbe_bounds(tl);
    lemma_dbe_all_zero(tl);
    let top = ud.subrange(0, k);
    assert(top.drop_last() =~= ud.subrange(0, k - 1));
    assert(top.last() == ud[k - 1]);
    lemma_dbe_nonneg(ud.subrange(0, k - 1));
    assert(q % 10 == ud[k - 1] as int) by { lemma_fundamental_div_mod_converse(q, 10, pfx, ud[k - 1] as int); }
    lemma_pow10_pos(m - 1); lemma_pow10_succ(m - 1);
    let r = ud[k] as int;
    assert(n == tail + pow10(m - 1) * r + pow10(m) * q) by (nonlinear_arith)
        requires n == q * pow10(m) + dbe(lo), dbe(lo) == r * pow10(m - 1) + tail;
    let pf = ud.subrange(0, k - 1);
    assert forall|i: int| 0 <= i < pf.len() implies pf[i] <= 9 by { assert(pf[i] == ud[i]); }
    lemma_dbe_bounds(pf);
    assert((tail == 0) == (forall|i: int| k + 1 <= i < len ==> d0[i] == 48u8)) by {
        if all_zero(tl) { assert forall|i: int| k + 1 <= i < len implies d0[i] == 48u8 by { assert(tl[i - k - 1] == 0); } }
        if forall|i: int| k + 1 <= i < len ==> d0[i] == 48u8 { assert forall|i: int| 0 <= i < tl.len() implies tl[i] == 0 by { assert(d0[k + 1 + i] == 48u8); } }
    }
}
pub proof fn lemma_dba_append_zeros(s: Seq<u8>, t: Seq<u8>, z: int)
    requires ascii_digits(s), z >= 0, t.len() == s.len() + z, t.subrange(0, s.len() as int) =~= s,
             forall|i: int| s.len() <= i < t.len() ==> t[i] == 48u8
    ensures ascii_digits(t), dba(t) == dba(s) * pow10(z)
{
    assert forall|i: int| 0 <= i < t.len() implies 48 <= (#[trigger] t[i]) && t[i] <= 57 by {
        if i < s.len() { assert(t[i] == t.subrange(0, s.len() as int)[i]); }
    }
    let ut = unascii(t);
    lemma_dbe_trailing_zeros(ut, z);
    assert(ut.subrange(0, ut.len() - z) =~= unascii(s)) by {
        assert forall|i: int| 0 <= i < s.len() implies ut[i] == unascii(s)[i] by { assert(t[i] == t.subrange(0, s.len() as int)[i]); }
    }
}
/// rendering of a value v in {0, 1} units of 10^-ts with no integer part: "v" when ts == 0, else "0." + zeros + v
pub open spec fn noint_small_render(out: Seq<u8>, ts: int, v: int) -> bool {
    &&& 0 <= v <= 1
    &&& out.len() == (if ts == 0 { 1int } else { ts + 2 })
    &&& out.last() == 48 + v
    &&& (ts > 0 ==> out[1] == 46u8 && out[0] == 48u8 && (forall|i: int| 2 <= i < ts + 1 ==> #[trigger] out[i] == 48u8))
}
