// Crate-root prologue of the generated file: imports, module aliases that make the
// crate's own paths resolve, ghost views of the crate's types, the rounding oracle
// and the symbolic build-time constants (R9).  Nothing here is executable crate code.
use vstd::prelude::*;
use vstd::arithmetic::power::*;
use vstd::arithmetic::mul::*;
use vstd::arithmetic::div_mod::*;
use vstd::std_specs::cmp::*;
use vstd::std_specs::convert::*;
use vstd::std_specs::ops::*;
use crate::prelude::*;
use crate::shim::*;

pub mod stdlib {
    pub use core::{cmp, convert, default, fmt, hash, mem, num, ops, iter, slice, str, f32, f64};
    pub use std::{string, borrow};
    pub use std::vec::Vec;
}
pub mod num_bigint { pub use crate::shim::{BigInt, BigUint, Sign, ParseBigIntError}; }
pub mod num_traits { pub use crate::shim::{Zero, One, Signed, ToPrimitive}; }
pub mod num_integer { pub use crate::shim::NumInteger as Integer; }

use self::stdlib::cmp::{self, Ordering};
use self::stdlib::convert::TryFrom;
use self::stdlib::default::Default;
use self::stdlib::ops::{
    Add, AddAssign, Div, DivAssign, Mul, MulAssign, Neg, Sub, SubAssign, Rem, RemAssign,
};
use self::stdlib::Vec;
use self::num_bigint::{BigInt, BigUint, ParseBigIntError, Sign};
use self::num_integer::Integer as IntegerTrait;
pub use self::num_traits::{One, Signed, ToPrimitive, Zero};
#[allow(unused_imports)] pub use self::rounding::*;
#[allow(unused_imports)] pub use self::context::*;
#[allow(unused_imports)] use self::arithmetic::*;

// ------------------------------------------------------------------ scale bound `B`
/// machine-range precondition on scales of arithmetic contracts: |s| <= 2^61
pub spec const SB: int = 0x2000_0000_0000_0000;
pub open spec fn sb(s: int) -> bool { -SB <= s <= SB }

// ------------------------------------------------------------------ views
impl BigDecimal {
    /// unscaled integer
    pub open(crate) spec fn i(&self) -> int { self.int_val@ }
    /// scale
    pub open(crate) spec fn s(&self) -> int { self.scale as int }
}
impl<'a> BigDecimalRef<'a> {
    pub open(crate) spec fn i(&self) -> int { sgn(self.sign) * self.digits@ }
    pub open(crate) spec fn s(&self) -> int { self.scale as int }
    /// representation invariant of a reference view (fields are private; every constructor keeps it)
    pub open(crate) spec fn wf(&self) -> bool { (self.sign == Sign::NoSign) <==> (self.digits@ == 0) }
}

// derive(Clone) on the crate's structs (derives are dropped by R7; these bodies are what derive expands to)
impl Clone for BigDecimal {
    fn clone(&self) -> (ret: BigDecimal) ensures ret.i() == self.i(), ret.s() == self.s() {
        BigDecimal { int_val: self.int_val.clone(), scale: self.scale }
    }
}
impl<'a> Clone for BigDecimalRef<'a> {
    fn clone(&self) -> (ret: Self) ensures ret == *self { *self }
}
impl<'a> Copy for BigDecimalRef<'a> {}

// ------------------------------------------------------------------ value relations (cross-multiplied, integers only)
/// a.i * 10^-a.s == b.i * 10^-b.s
pub open spec fn same_val(ai: int, a_s: int, bi: int, bs: int) -> bool {
    let m = imax(a_s, bs);
    ai * pow10(m - a_s) == bi * pow10(m - bs)
}
/// r == a + b
pub open spec fn is_sum(ri: int, rs: int, ai: int, a_s: int, bi: int, bs: int) -> bool {
    let m = imax(rs, imax(a_s, bs));
    ri * pow10(m - rs) == ai * pow10(m - a_s) + bi * pow10(m - bs)
}
/// r == a * b
pub open spec fn is_prod(ri: int, rs: int, ai: int, a_s: int, bi: int, bs: int) -> bool {
    let m = imax(rs, a_s + bs);
    ri * pow10(m - rs) == (ai * bi) * pow10(m - (a_s + bs))
}
/// sign of (a - b) as an Ordering
pub open spec fn val_cmp(ai: int, a_s: int, bi: int, bs: int) -> Ordering {
    let m = imax(a_s, bs);
    ord_of(ai * pow10(m - a_s), bi * pow10(m - bs))
}

// ------------------------------------------------------------------ rounding oracle (from the RoundingMode documentation)
/// c: sign of (discarded tail - half unit); odd: parity of the kept last digit
pub open spec fn round_up(mode: RoundingMode, neg: bool, c: int, odd: bool) -> bool {
    match mode {
        RoundingMode::Up => true,
        RoundingMode::Down => false,
        RoundingMode::Ceiling => !neg,
        RoundingMode::Floor => neg,
        RoundingMode::HalfUp => c >= 0,
        RoundingMode::HalfDown => c > 0,
        RoundingMode::HalfEven => c > 0 || (c == 0 && odd),
    }
}

/// magnitude n >= 0 with k >= 0 digits dropped
pub open spec fn round_mag(n: int, k: int, mode: RoundingMode, neg: bool) -> int {
    let q = n / pow10(k);
    let t = n % pow10(k);
    if t == 0 { q } else if round_up(mode, neg, cmp3(2 * t, pow10(k)), q % 2 == 1) { q + 1 } else { q }
}

pub open spec fn pair_c(r: u8, tz: bool) -> int { if r < 5 { -1 } else if r > 5 { 1 } else if tz { 0 } else { 1 } }
pub open spec fn round_pair_spec(mode: RoundingMode, sign: Sign, l: u8, r: u8, tz: bool) -> int {
    if r == 0 && tz { l as int } else if round_up(mode, sign == Sign::Minus, pair_c(r, tz), l % 2 == 1) { l + 1 } else { l as int }
}

/// the bridge: digit pair + tail flag decide exactly like round_mag
pub proof fn lemma_pair_is_round_mag(n: int, k: int, q: int, r: u8, tail: int, mode: RoundingMode, sign: Sign)
    requires k >= 1, q >= 0, r <= 9, 0 <= tail < pow10(k - 1),
             n == tail + pow10(k - 1) * r + pow10(k) * q,
    ensures round_mag(n, k, mode, sign == Sign::Minus)
            == q - (q % 10) + round_pair_spec(mode, sign, (q % 10) as u8, r, tail == 0)
{
    let p = pow10(k - 1);
    lemma_pow10_pos(k - 1);
    lemma_pow10_succ(k - 1);
    let t = tail + p * r;
    assert(0 <= t < 10 * p) by (nonlinear_arith) requires 0 <= tail < p, 0 <= r <= 9, t == tail + p * r;
    assert(n == t + (10 * p) * q);
    lemma_fundamental_div_mod_converse(n, 10 * p, q, t);
    assert(n / pow10(k) == q && n % pow10(k) == t);
    assert((t == 0) == (r == 0 && tail == 0)) by (nonlinear_arith) requires 0 <= tail < p, 0 <= r <= 9, t == tail + p * r, p > 0;
    assert(cmp3(2 * t, 10 * p) == pair_c(r, tail == 0)) by (nonlinear_arith)
        requires 0 <= tail < p, 0 <= r <= 9, t == tail + p * r, p > 0;
    assert((q % 10) % 2 == q % 2) by { lemma_mod_mod(q, 2, 5); }
}

/// the rounded value of a decimal at a lower scale, as a signed integer
pub open spec fn round_int(i: int, k: int, mode: RoundingMode) -> int {
    isgn(i) * round_mag(iabs(i), k, mode, i < 0)
}
