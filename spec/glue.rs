// Crate-root prologue of the generated file: imports, module aliases that make the
// crate's own paths resolve, ghost views of the crate's types, the rounding oracle
// and the symbolic build-time constants (R9).  Nothing here is executable crate code.
use vstd::prelude::*;
use vstd::arithmetic::power::*;
use vstd::arithmetic::mul::*;
use vstd::arithmetic::div_mod::*;
use vstd::std_specs::cmp::*;
use vstd::std_specs::convert::*;
use vstd::std_specs::ops::*;
use crate::prelude::*;
use crate::shim::*;

pub mod stdlib {
    pub use core::{cmp, convert, default, fmt, hash, mem, ops, iter, slice, str, f32, f64};
    pub mod num {
        pub use core::num::{FpCategory, ParseFloatError, ParseIntError};
        pub use crate::shim::{NonZeroU64, NonZeroU8, NonZeroUsize};
    }
    pub use std::{string, borrow};
    pub use std::vec::Vec;
}
pub mod num_bigint { pub use crate::shim::{BigInt, BigUint, Sign, ParseBigIntError}; }
pub mod num_traits { pub use crate::shim::{Zero, One, Signed, ToPrimitive, CheckedSub}; }
pub mod num_integer { pub use crate::shim::NumInteger as Integer; }

use self::stdlib::cmp::{self, Ordering};
use self::stdlib::convert::TryFrom;
use self::stdlib::default::Default;
use self::stdlib::ops::{
    Add, AddAssign, Div, DivAssign, Mul, MulAssign, Neg, Sub, SubAssign, Rem, RemAssign,
};
use self::stdlib::Vec;
use self::num_bigint::{BigInt, BigUint, ParseBigIntError, Sign};
use self::num_integer::Integer as IntegerTrait;
pub use self::num_traits::{One, Signed, ToPrimitive, Zero};
#[allow(unused_imports)] pub use self::rounding::*;
#[allow(unused_imports)] pub use self::context::*;
#[allow(unused_imports)] use self::arithmetic::*;

// ------------------------------------------------------------------ scale bound `B`
/// machine-range precondition on scales of arithmetic contracts: |s| <= 2^61
pub spec const SB: int = 0x2000_0000_0000_0000;
pub open spec fn sb(s: int) -> bool { -SB <= s <= SB }

// ------------------------------------------------------------------ views
impl BigDecimal {
    /// unscaled integer
    pub open(crate) spec fn i(&self) -> int { self.int_val@ }
    /// scale
    pub open(crate) spec fn s(&self) -> int { self.scale as int }
    pub open(crate) spec fn ival_ref(&self) -> &BigInt { &self.int_val }
}
impl<'a> BigDecimalRef<'a> {
    pub open(crate) spec fn i(&self) -> int { sgn(self.sign) * self.digits@ }
    pub open(crate) spec fn s(&self) -> int { self.scale as int }
    /// sign field / digit magnitude (ghost accessors for contracts of pub fns)
    pub open(crate) spec fn sg(&self) -> Sign { self.sign }
    pub open(crate) spec fn dg(&self) -> int { self.digits@ as int }
    pub open(crate) spec fn dref(&self) -> &'a BigUint { self.digits }
    pub open(crate) spec fn spec_new(sign: Sign, digits: &'a BigUint, scale: i64) -> Self { BigDecimalRef { sign: sign, digits: digits, scale: scale } }
    /// representation invariant of a reference view: fields are private and every constructor in
    /// the crate must establish it (checked by Verus at each struct expression)
    #[verifier::type_invariant]
    pub open(crate) spec fn wf(&self) -> bool { (self.sign == Sign::NoSign) <==> (self.digits@ == 0) }
}

pub proof fn lemma_ref_sign(sign: Sign, d: int)
    requires d >= 0, (sign == Sign::NoSign) <==> (d == 0)
    ensures sign_of(sgn(sign) * d) == sign, iabs(sgn(sign) * d) == d
{
    if sign == Sign::Plus { assert(1 * d == d); }
    if sign == Sign::Minus { assert(-1 * d == -d); }
}

// derive(Clone) on the crate's structs (derives are dropped by R7; these bodies are what derive expands to)
impl Clone for BigDecimal {
    fn clone(&self) -> (ret: BigDecimal) ensures ret.i() == self.i(), ret.s() == self.s() {
        BigDecimal { int_val: self.int_val.clone(), scale: self.scale }
    }
}
impl<'a> Clone for BigDecimalRef<'a> {
    fn clone(&self) -> (ret: Self) ensures ret == *self { *self }
}
impl<'a> Copy for BigDecimalRef<'a> {}
impl Eq for BigDecimal {}
impl<'a> Eq for BigDecimalRef<'a> {}

// ------------------------------------------------------------------ value relations (cross-multiplied, integers only)
/// a.i * 10^-a.s == b.i * 10^-b.s
pub open spec fn same_val(ai: int, a_s: int, bi: int, bs: int) -> bool {
    let m = imax(a_s, bs);
    ai * pow10(m - a_s) == bi * pow10(m - bs)
}
/// r == a + b
pub open spec fn is_sum(ri: int, rs: int, ai: int, a_s: int, bi: int, bs: int) -> bool {
    let m = imax(rs, imax(a_s, bs));
    ri * pow10(m - rs) == ai * pow10(m - a_s) + bi * pow10(m - bs)
}
/// r == a * b
pub open spec fn is_prod(ri: int, rs: int, ai: int, a_s: int, bi: int, bs: int) -> bool {
    let m = imax(rs, a_s + bs);
    ri * pow10(m - rs) == (ai * bi) * pow10(m - (a_s + bs))
}
/// sign of (a - b) as an Ordering
pub open spec fn val_cmp(ai: int, a_s: int, bi: int, bs: int) -> Ordering {
    let m = imax(a_s, bs);
    ord_of(ai * pow10(m - a_s), bi * pow10(m - bs))
}

// ------------------------------------------------------------------ rounding oracle (from the RoundingMode documentation)
/// c: sign of (discarded tail - half unit); odd: parity of the kept last digit
pub open spec fn round_up(mode: RoundingMode, neg: bool, c: int, odd: bool) -> bool {
    match mode {
        RoundingMode::Up => true,
        RoundingMode::Down => false,
        RoundingMode::Ceiling => !neg,
        RoundingMode::Floor => neg,
        RoundingMode::HalfUp => c >= 0,
        RoundingMode::HalfDown => c > 0,
        RoundingMode::HalfEven => c > 0 || (c == 0 && odd),
    }
}

/// magnitude n >= 0 with k >= 0 digits dropped
pub open spec fn round_mag(n: int, k: int, mode: RoundingMode, neg: bool) -> int {
    let q = n / pow10(k);
    let t = n % pow10(k);
    if t == 0 { q } else if round_up(mode, neg, cmp3(2 * t, pow10(k)), q % 2 == 1) { q + 1 } else { q }
}

pub open spec fn pair_c(r: u8, tz: bool) -> int { if r < 5 { -1 } else if r > 5 { 1 } else if tz { 0 } else { 1 } }
pub open spec fn round_pair_spec(mode: RoundingMode, sign: Sign, l: u8, r: u8, tz: bool) -> int {
    if r == 0 && tz { l as int } else if round_up(mode, sign == Sign::Minus, pair_c(r, tz), l % 2 == 1) { l + 1 } else { l as int }
}

/// the bridge: digit pair + tail flag decide exactly like round_mag
pub proof fn lemma_pair_is_round_mag(n: int, k: int, q: int, r: u8, tail: int, mode: RoundingMode, sign: Sign)
    requires k >= 1, q >= 0, r <= 9, 0 <= tail < pow10(k - 1),
             n == tail + pow10(k - 1) * r + pow10(k) * q,
    ensures round_mag(n, k, mode, sign == Sign::Minus)
            == q - (q % 10) + round_pair_spec(mode, sign, (q % 10) as u8, r, tail == 0)
{
    let p = pow10(k - 1);
    lemma_pow10_pos(k - 1);
    lemma_pow10_succ(k - 1);
    let t = tail + p * r;
    assert(0 <= t < 10 * p) by (nonlinear_arith) requires 0 <= tail < p, 0 <= r <= 9, t == tail + p * r;
    assert(n == t + (10 * p) * q);
    lemma_fundamental_div_mod_converse(n, 10 * p, q, t);
    assert(n / pow10(k) == q && n % pow10(k) == t);
    assert((t == 0) == (r == 0 && tail == 0)) by (nonlinear_arith) requires 0 <= tail < p, 0 <= r <= 9, t == tail + p * r, p > 0;
    assert(cmp3(2 * t, 10 * p) == pair_c(r, tail == 0)) by (nonlinear_arith)
        requires 0 <= tail < p, 0 <= r <= 9, t == tail + p * r, p > 0;
    assert((q % 10) % 2 == q % 2) by { lemma_mod_mod(q, 2, 5); }
}

/// the rounded value of a decimal at a lower scale, as a signed integer
pub open spec fn round_int(i: int, k: int, mode: RoundingMode) -> int {
    isgn(i) * round_mag(iabs(i), k, mode, i < 0)
}

// ------------------------------------------------------------------ Into<BigDecimalRef> (generic operands)
/// the reference view a generic operand converts to
pub open spec fn into_ref<'a, T: Into<BigDecimalRef<'a>>>(x: T) -> BigDecimalRef<'a> {
    IntoSpec::<BigDecimalRef<'a>>::into_spec(x)
}
/// the conversion is one of the crate's own (specified) conversions
pub open spec fn into_ok<'a, T: Into<BigDecimalRef<'a>>>(x: T) -> bool {
    <T as IntoSpec<BigDecimalRef<'a>>>::obeys_into_spec()
}
/// std's reflexive `impl<T> From<T> for T` is the identity (assumed)
#[verifier::external_body]
pub broadcast proof fn axiom_ref_into_self<'a>(x: BigDecimalRef<'a>)
    ensures <BigDecimalRef<'a> as FromSpec<BigDecimalRef<'a>>>::obeys_from_spec(),
            #[trigger] <BigDecimalRef<'a> as FromSpec<BigDecimalRef<'a>>>::from_spec(x) == x
{}
#[verifier::external_body]
pub broadcast proof fn axiom_ref_into_self_obeys<'a>()
    ensures #[trigger] <BigDecimalRef<'a> as FromSpec<BigDecimalRef<'a>>>::obeys_from_spec()
{}

// ------------------------------------------------------------------ comparison specs on reference views
/// outside the representation invariant (unreachable for exec values) the result is left unspecified
pub uninterp spec fn ref_eq_unspecified<'a, 'b>(a: BigDecimalRef<'a>, b: BigDecimalRef<'b>) -> bool;
pub uninterp spec fn ref_cmp_unspecified<'a, 'b>(a: BigDecimalRef<'a>, b: BigDecimalRef<'b>) -> Ordering;
pub open spec fn ref_eq_spec<'a, 'b>(a: BigDecimalRef<'a>, b: BigDecimalRef<'b>) -> bool {
    if a.wf() && b.wf() { same_val(a.i(), a.s(), b.i(), b.s()) } else { ref_eq_unspecified(a, b) }
}
pub open spec fn ref_cmp_spec<'a, 'b>(a: BigDecimalRef<'a>, b: BigDecimalRef<'b>) -> Ordering {
    if a.wf() && b.wf() { val_cmp(a.i(), a.s(), b.i(), b.s()) } else { ref_cmp_unspecified(a, b) }
}

// ------------------------------------------------------------------ value algebra: everything at a common scale M
/// the integer i*10^(M-s): value of (i,s) in units of 10^-M   (M >= s)
pub open spec fn val_at(i: int, s: int, m: int) -> int { i * pow10(m - s) }

pub proof fn lemma_val_at_rescale(i: int, s: int, m: int, m2: int)
    requires s <= m <= m2
    ensures val_at(i, s, m2) == val_at(i, s, m) * pow10(m2 - m)
{
    lemma_pow10_add(m - s, m2 - m);
    assert(i * (pow10(m - s) * pow10(m2 - m)) == (i * pow10(m - s)) * pow10(m2 - m)) by (nonlinear_arith);
}
pub proof fn lemma_val_at_neg(i: int, s: int, m: int)
    ensures val_at(-i, s, m) == -val_at(i, s, m)
{
    assert((-i) * pow10(m - s) == -(i * pow10(m - s))) by (nonlinear_arith);
}
pub proof fn lemma_val_at_zero(s: int, m: int) ensures val_at(0, s, m) == 0 {}
pub proof fn lemma_val_at_self(i: int, s: int) ensures val_at(i, s, s) == i {}

pub proof fn lemma_cancel(x: int, y: int, p: int)
    requires p > 0, x * p == y * p
    ensures x == y
{
    assert(x == y) by (nonlinear_arith) requires p > 0, x * p == y * p;
}

/// is_sum <==> the sum equation at any common scale M >= all three scales
pub proof fn lemma_sum_at(ri: int, rs: int, ai: int, a_s: int, bi: int, bs: int, m: int)
    requires m >= rs, m >= a_s, m >= bs
    ensures is_sum(ri, rs, ai, a_s, bi, bs) <==> val_at(ri, rs, m) == val_at(ai, a_s, m) + val_at(bi, bs, m)
{
    let m0 = imax(rs, imax(a_s, bs));
    let p = pow10(m - m0);
    lemma_pow10_pos(m - m0);
    lemma_val_at_rescale(ri, rs, m0, m);
    lemma_val_at_rescale(ai, a_s, m0, m);
    lemma_val_at_rescale(bi, bs, m0, m);
    let x = val_at(ri, rs, m0); let y = val_at(ai, a_s, m0) + val_at(bi, bs, m0);
    assert((val_at(ai, a_s, m0) + val_at(bi, bs, m0)) * p == val_at(ai, a_s, m0) * p + val_at(bi, bs, m0) * p) by (nonlinear_arith);
    if x * p == y * p { lemma_cancel(x, y, p); }
}

/// same_val <==> equal at any common scale
pub proof fn lemma_same_at(ai: int, a_s: int, bi: int, bs: int, m: int)
    requires m >= a_s, m >= bs
    ensures same_val(ai, a_s, bi, bs) <==> val_at(ai, a_s, m) == val_at(bi, bs, m)
{
    let m0 = imax(a_s, bs);
    let p = pow10(m - m0);
    lemma_pow10_pos(m - m0);
    lemma_val_at_rescale(ai, a_s, m0, m);
    lemma_val_at_rescale(bi, bs, m0, m);
    let x = val_at(ai, a_s, m0); let y = val_at(bi, bs, m0);
    if x * p == y * p { lemma_cancel(x, y, p); }
}

/// val_cmp at any common scale
pub proof fn lemma_cmp_at(ai: int, a_s: int, bi: int, bs: int, m: int)
    requires m >= a_s, m >= bs
    ensures val_cmp(ai, a_s, bi, bs) == ord_of(val_at(ai, a_s, m), val_at(bi, bs, m))
{
    let m0 = imax(a_s, bs);
    let p = pow10(m - m0);
    lemma_pow10_pos(m - m0);
    lemma_val_at_rescale(ai, a_s, m0, m);
    lemma_val_at_rescale(bi, bs, m0, m);
    let x = val_at(ai, a_s, m0); let y = val_at(bi, bs, m0);
    assert(x < y ==> x * p < y * p) by (nonlinear_arith) requires p > 0;
    assert(x > y ==> x * p > y * p) by (nonlinear_arith) requires p > 0;
}

/// is_prod <==> product equation at a common scale: r at M, a at Ma, b at Mb with M == Ma + Mb
pub proof fn lemma_prod_at(ri: int, rs: int, ai: int, a_s: int, bi: int, bs: int, ma: int, mb: int)
    requires ma >= a_s, mb >= bs, ma + mb >= rs
    ensures is_prod(ri, rs, ai, a_s, bi, bs) <==> val_at(ri, rs, ma + mb) == val_at(ai, a_s, ma) * val_at(bi, bs, mb)
{
    let m = ma + mb;
    let m0 = imax(rs, a_s + bs);
    let p = pow10(m - m0);
    lemma_pow10_pos(m - m0);
    lemma_val_at_rescale(ri, rs, m0, m);
    lemma_val_at_rescale(ai * bi, a_s + bs, m0, m);
    lemma_pow10_add(ma - a_s, mb - bs);
    assert(val_at(ai, a_s, ma) * val_at(bi, bs, mb) == val_at(ai * bi, a_s + bs, m)) by (nonlinear_arith)
        requires val_at(ai, a_s, ma) == ai * pow10(ma - a_s), val_at(bi, bs, mb) == bi * pow10(mb - bs),
                 val_at(ai * bi, a_s + bs, m) == (ai * bi) * pow10(m - (a_s + bs)),
                 pow10(m - (a_s + bs)) == pow10(ma - a_s) * pow10(mb - bs);
    let x = val_at(ri, rs, m0); let y = val_at(ai * bi, a_s + bs, m0);
    if x * p == y * p { lemma_cancel(x, y, p); }
}

/// difference: r == a - b
pub open spec fn is_diff(ri: int, rs: int, ai: int, a_s: int, bi: int, bs: int) -> bool {
    is_sum(ri, rs, ai, a_s, -bi, bs)
}

/// scale of a product: a.s + b.s, or an operand's own scale (one/zero shortcuts), possibly lowered by
/// normalized() (at most the number of digits, < 2^60 by the size assumption)
pub open spec fn mul_scale_ok(rs: int, a_s: int, bs: int) -> bool {
    imin(a_s + bs, imin(a_s, bs)) - 0x1000_0000_0000_0000 <= rs <= imax(a_s + bs, imax(a_s, bs))
}

/// a value is zero iff its unscaled integer is
pub proof fn lemma_same_zero(i: int, s: int)
    ensures same_val(i, s, 0, 0) <==> i == 0
{
    let m = imax(s, 0);
    lemma_pow10_pos(m - s);
    assert(0 * pow10(m - 0) == 0);
    if i != 0 { assert(i * pow10(m - s) != 0) by (nonlinear_arith) requires i != 0, pow10(m - s) > 0; }
    else { assert(0 * pow10(m - s) == 0); }
}
