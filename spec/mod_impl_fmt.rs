use crate::stdlib::num::NonZeroUsize;
use crate::stdlib::fmt;
