use crate::stdlib::num::NonZeroUsize;
