use crate::stdlib::num::NonZeroUsize;
use crate::stdlib::fmt;
#[allow(unused_imports)] use crate::shim_write as write;
