use crate::num_bigint::ToBigInt;
use crate::num_traits::FromPrimitive;
