use crate::num_bigint::ToBigInt;
