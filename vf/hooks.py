"""additional deciders attached to properties: Kani harness groups, replay of known findings"""
import json
import os
import subprocess

from . import kani
from .gen import ROOT, REPO

REPLAY_BIN = os.path.join(ROOT, 'build', 'replay-target', 'release', 'replay')


def kani_hook(harnesses, tiers=('thorough',), stubbing=(), bounded=None, timeout=1500):
    """harnesses: list of harness names; a FAILED verdict is a violation (CBMC gives the failing check),
    TIMEOUT / ERROR is undecided (reported in the evidence, never a violation)."""
    def run(pid, P, tier, seed, ctx):
        if tier not in tiers:
            return [], {}
        kani.prepare()
        results = []
        failures = []
        try:
            for h in harnesses:
                r = kani.run_harness(h, timeout=timeout, stubbing=(h in stubbing))
                results.append({k: r[k] for k in ('harness', 'verdict', 'wall_s', 'cmd') if k in r} | {
                    'checks': r.get('checks'), 'failed': r.get('failed')})
                if r['verdict'] == 'FAILED':
                    failures.append(dict(obligation='kani/%s [%s]' % (h, '; '.join(r['failed_checks'])[:200]), kind='kani',
                                         item='kani/' + h, entry='kani/' + h, repo_file=None, repo_lines=None,
                                         message='Kani/CBMC: VERIFICATION FAILED', rendered=r['tail']))
        finally:
            kani.cleanup()
        cov = {'kani': results}
        if bounded:
            cov['kani_bound'] = bounded
        return failures, cov
    return run


def build_replay():
    env = dict(os.environ, CARGO_TARGET_DIR=os.path.join(ROOT, 'build', 'replay-target'), CARGO_NET_OFFLINE='true')
    # the replay crate depends on /repo by path; VERIF_REPO (scratch copies in mutation tests) is honoured through a patched manifest
    manifest = os.path.join(ROOT, 'replay', 'Cargo.toml')
    if REPO != '/repo':
        d = os.path.join(ROOT, 'build', 'replay-alt')
        os.makedirs(os.path.join(d, 'src'), exist_ok=True)
        open(os.path.join(d, 'Cargo.toml'), 'w').write(open(manifest).read().replace('path = "/repo"', 'path = "%s"' % REPO))
        for f in ('Cargo.lock',):
            if os.path.exists(os.path.join(ROOT, 'replay', f)):
                open(os.path.join(d, f), 'w').write(open(os.path.join(ROOT, 'replay', f)).read())
        open(os.path.join(d, 'src', 'main.rs'), 'w').write(open(os.path.join(ROOT, 'replay', 'src', 'main.rs')).read())
        manifest = os.path.join(d, 'Cargo.toml')
        env['CARGO_TARGET_DIR'] = os.path.join(ROOT, 'build', 'replay-alt-target')
    p = subprocess.run(['cargo', 'build', '--offline', '--release', '--manifest-path', manifest], env=env,
                       stdout=subprocess.PIPE, stderr=subprocess.STDOUT, text=True)
    if p.returncode != 0:
        return None, p.stdout[-2000:]
    return os.path.join(env['CARGO_TARGET_DIR'], 'release', 'replay'), ''


def replay(binary, args, timeout=120):
    try:
        p = subprocess.run([binary] + args, stdout=subprocess.PIPE, stderr=subprocess.STDOUT, text=True, timeout=timeout)
        return p.returncode, p.stdout[-1500:]
    except subprocess.TimeoutExpired:
        return 124, 'TIMEOUT'


def replay_hook(scenarios, tiers=('quick', 'thorough')):
    """scenarios: list of dict(name, args, what, known=bool).  Each is a concrete input run against the real crate with an
    integer oracle.  A failing scenario that is listed in known_findings.json is a KNOWN-FINDING; any other failing scenario
    is a violation with a concrete failing input."""
    def run(pid, P, tier, seed, ctx):
        if tier not in tiers:
            return [], {}
        binary, err = build_replay()
        if binary is None:
            return [], {'replay': 'build failed: ' + err}
        known = json.load(open(os.path.join(ROOT, 'known_findings.json')))
        known_replays = {tuple(k.get('replay', [])): k for k in known.get('findings', []) if k['property'] == pid}
        failures = []
        res = []
        for sc in scenarios:
            rc, out = replay(binary, sc['args'])
            res.append(dict(args=sc['args'], holds=(rc == 0), output=out.strip().split('\n')[-2:] if out else []))
            if rc == 1:
                k = known_replays.get(tuple(sc['args']))
                if k:
                    print('KNOWN-FINDING: property=%s %s' % (pid, k['what']))
                else:
                    failures.append(dict(obligation='replay/%s' % ' '.join(sc['args']), kind='replay', item='replay', entry='replay/' + ' '.join(sc['args']),
                                         repo_file=None, repo_lines=None, message=sc.get('what', ''), rendered=out,
                                         failing_input=' '.join(sc['args']), replay=[binary] + sc['args']))
        return failures, {'replayed_inputs': res}
    return run
