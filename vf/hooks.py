"""additional deciders attached to properties: Kani harness groups, replay of known findings"""
import json
import os
import re
import subprocess

from . import kani
from .gen import ROOT, REPO

REPLAY_BIN = os.path.join(ROOT, 'build', 'replay-target', 'release', 'replay')


class HookUndecided(Exception):
    """a decider that the property depends on gave no verdict (time-out, back-end failure): exit 2, never a violation"""


def kani_hook(harnesses, tiers=('thorough',), stubbing=(), bounded=None, timeout=1500, jobs=4, required=False, concretize=None):
    """harnesses: list of harness names; a FAILED verdict is a violation (CBMC gives the failing check),
    TIMEOUT / ERROR is undecided (reported in the evidence, never a violation).  Up to `jobs` harnesses run side by side
    (one CBMC process each, separate cargo target directories)."""
    def run(pid, P, tier, seed, ctx):
        if tier not in tiers:
            return [], {}
        import concurrent.futures
        import queue
        kani.prepare()
        results = []
        failures = []
        slots = queue.Queue()
        for i in range(jobs):
            slots.put(i)

        def one(h):
            sl = slots.get()
            try:
                return kani.run_harness(h, timeout=timeout, stubbing=(h in stubbing), slot=sl)
            finally:
                slots.put(sl)
        try:
            with concurrent.futures.ThreadPoolExecutor(max_workers=jobs) as ex:
                rs = list(ex.map(one, harnesses))
            for h, r in zip(harnesses, rs):
                results.append({k: r[k] for k in ('harness', 'verdict', 'wall_s', 'cmd', 'note') if k in r} | {
                    'checks': r.get('checks'), 'failed': r.get('failed')})
                if r['verdict'] == 'FAILED':
                    failures.append(dict(obligation='kani/%s [%s]' % (h, '; '.join(r['failed_checks'])[:200]), kind='kani',
                                         item='kani/' + h, entry='kani/' + h, repo_file=None, repo_lines=None,
                                         message='Kani/CBMC: VERIFICATION FAILED', rendered=r['tail']))
        finally:
            kani.cleanup()
        cov = {'kani': ctx_merge(P, results)}
        if bounded:
            cov['kani_bound'] = bounded
        if failures and concretize:
            # CBMC's trace is not turned into a Rust value here; a native search of the same input space on the real crate
            # supplies the concrete failing input for the replay file
            binary, err = build_replay()
            if binary:
                rc, out = replay(binary, concretize, timeout=600)
                m = re.search(r'mismatches: \[(.*?)(?:, "|\])', out)
                if rc == 1 and m:
                    for f in failures:
                        f['failing_input'] = m.group(1)[:300]
                        f['replay'] = [binary] + concretize
                        f['rendered'] = (f.get('rendered') or '') + '\n--- native search (%s) ---\n%s' % (' '.join(concretize), out)
        noverdict = [r['harness'] + ':' + r['verdict'] for r in results if r['verdict'] not in ('SUCCESSFUL', 'FAILED')]
        if required and noverdict and not failures:
            raise HookUndecided('Kani gave no verdict for %s' % ', '.join(noverdict))
        return failures, cov
    return run


def ctx_merge(P, results):
    """several Kani hooks of one property append to one list"""
    acc = P.setdefault('_kani_results', [])
    acc.extend(results)
    return list(acc)


def build_replay():
    env = dict(os.environ, CARGO_TARGET_DIR=os.path.join(ROOT, 'build', 'replay-target'), CARGO_NET_OFFLINE='true')
    # the replay crate depends on /repo by path; VERIF_REPO (scratch copies in mutation tests) is honoured through a patched manifest
    manifest = os.path.join(ROOT, 'replay', 'Cargo.toml')
    if REPO != '/repo':
        d = os.path.join(ROOT, 'build', 'replay-alt')
        os.makedirs(os.path.join(d, 'src'), exist_ok=True)
        open(os.path.join(d, 'Cargo.toml'), 'w').write(open(manifest).read().replace('path = "/repo"', 'path = "%s"' % REPO))
        for f in ('Cargo.lock',):
            if os.path.exists(os.path.join(ROOT, 'replay', f)):
                open(os.path.join(d, f), 'w').write(open(os.path.join(ROOT, 'replay', f)).read())
        open(os.path.join(d, 'src', 'main.rs'), 'w').write(open(os.path.join(ROOT, 'replay', 'src', 'main.rs')).read())
        manifest = os.path.join(d, 'Cargo.toml')
        env['CARGO_TARGET_DIR'] = os.path.join(ROOT, 'build', 'replay-alt-target')
    p = subprocess.run(['cargo', 'build', '--offline', '--release', '--manifest-path', manifest], env=env,
                       stdout=subprocess.PIPE, stderr=subprocess.STDOUT, text=True)
    if p.returncode != 0:
        return None, p.stdout[-2000:]
    return os.path.join(env['CARGO_TARGET_DIR'], 'release', 'replay'), ''


def replay(binary, args, timeout=120):
    try:
        p = subprocess.run([binary] + args, stdout=subprocess.PIPE, stderr=subprocess.STDOUT, text=True, timeout=timeout)
        return p.returncode, p.stdout[-1500:]
    except subprocess.TimeoutExpired:
        return 124, 'TIMEOUT'


def replay_hook(scenarios, tiers=('quick', 'thorough')):
    """scenarios: list of dict(name, args, what, known=bool).  Each is a concrete input run against the real crate with an
    integer oracle.  A failing scenario that is listed in known_findings.json is a KNOWN-FINDING; any other failing scenario
    is a violation with a concrete failing input."""
    def run(pid, P, tier, seed, ctx):
        if tier not in tiers:
            return [], {}
        binary, err = build_replay()
        if binary is None:
            return [], {'replay': 'build failed: ' + err}
        known = json.load(open(os.path.join(ROOT, 'known_findings.json')))
        known_replays = {tuple(k.get('replay', [])): k for k in known.get('findings', []) if k['property'] == pid}
        failures = []
        res = []
        for sc in scenarios:
            rc, out = replay(binary, sc['args'])
            res.append(dict(args=sc['args'], holds=(rc == 0), output=out.strip().split('\n')[-2:] if out else []))
            if rc == 1:
                k = known_replays.get(tuple(sc['args']))
                if k:
                    print('KNOWN-FINDING: property=%s %s' % (pid, k['what']))
                else:
                    failures.append(dict(obligation='replay/%s' % ' '.join(sc['args']), kind='replay', item='replay', entry='replay/' + ' '.join(sc['args']),
                                         repo_file=None, repo_lines=None, message=sc.get('what', ''), rendered=out,
                                         failing_input=' '.join(sc['args']), replay=[binary] + sc['args']))
        return failures, {'replayed_inputs': res}
    return run
