"""./check <PROPERTY> [--tier quick|thorough] [--replay FILE]

exit 0  property held on everything decided (KNOWN-FINDING lines allowed)
exit 1  VIOLATION property=<id> replay=<path>
exit 2  undecided because of the machinery (never printed as a violation)
"""
import hashlib
import json
import os
import re
import shutil
import subprocess
import sys
import time

from . import gen, props, tool
from .hooks import HookUndecided

ROOT = gen.ROOT
BUILD = os.path.join(ROOT, 'build')
EVID = os.path.join(ROOT, 'evidence')
REPLAYS = os.path.join(ROOT, 'replays')

# messages Verus uses for a failed proof obligation (anything else is a front-end / machinery error)
OBLIGATION_MSG = [
    ('postcondition not satisfied', 'ensures'),
    ('precondition not satisfied', 'requires@call'),
    ('assertion failed', 'assert'),
    ('invariant not satisfied before loop', 'invariant(init)'),
    ('invariant not satisfied at end of loop body', 'invariant(step)'),
    ('loop invariant not satisfied', 'invariant'),
    ('possible arithmetic underflow/overflow', 'overflow'),
    ('possible division by zero', 'div0'),
    ('possible bit shift underflow/overflow', 'shift'),
    ('decreases not satisfied', 'decreases'),
    ('could not prove termination', 'decreases'),
    ('failed to prove', 'assert'),
    ('index out of bounds', 'index'),
    ('may fail to meet its declared type invariant', 'type-invariant'),
    ('unreachable', 'unreachable'),
    ('cannot prove', 'assert'),
    ('unable to prove post-condition of closure', 'closure-ensures'),
    ('unable to prove pre-condition of closure', 'closure-requires'),
]


class Undecided(Exception):
    pass


def run(cmd, timeout, cwd=None, env=None):
    t0 = time.time()
    try:
        p = subprocess.run(cmd, cwd=cwd, env=env, stdout=subprocess.PIPE, stderr=subprocess.PIPE,
                           timeout=timeout, text=True)
        return p.returncode, p.stdout, p.stderr, time.time() - t0
    except subprocess.TimeoutExpired as e:
        return 124, (e.stdout or b'').decode() if isinstance(e.stdout, bytes) else (e.stdout or ''), 'TIMEOUT', time.time() - t0


def run_verus(path, seed=None, rlimit=60, timeout=1500, extra=()):
    cmd = ['verus', os.path.basename(path), '--output-json', '--time-expanded', '--error-format=json',
           '--multiple-errors', '4', '--rlimit', str(rlimit), '--num-threads', '16'] + list(extra)
    if seed is not None:
        cmd += ['--smt-option', 'smt.random_seed=%d' % seed, '--smt-option', 'sat.random_seed=%d' % seed]
    rc, out, err, wall = run(cmd, timeout, cwd=os.path.dirname(path))
    res = dict(rc=rc, wall=wall, cmd=' '.join(cmd), raw_err=err)
    try:
        res['json'] = json.loads(out)
    except Exception:
        res['json'] = None
    diags = []
    for line in err.split('\n'):
        line = line.strip()
        if line.startswith('{') and '"$message_type"' in line:
            try:
                diags.append(json.loads(line))
            except Exception:
                pass
    res['diags'] = diags
    return res


def classify(diag):
    msg = diag.get('message', '')
    for pat, kind in OBLIGATION_MSG:
        if pat in msg:
            return kind
    return None


def locate(line_map, line):
    for lo, hi, meta in line_map:
        if lo <= line <= hi:
            return meta
    return None


def assumption_scan(text):
    """count trusted constructs; assume()/admit() are only tolerated inside prelude/shim (none expected)"""
    crate_start = text.index('\nverus! {\n', text.index('pub mod shim'))
    shim_part, crate_part = text[:crate_start], text[crate_start:]
    def cnt(s, pat):
        return len(re.findall(pat, s))
    return dict(
        shim_external_body=cnt(shim_part, r'verifier::external_body'),
        shim_assume_specification=cnt(shim_part, r'assume_specification'),
        crate_external_body_stubs=cnt(crate_part, r'verifier::external_body'),
        crate_assume=cnt(crate_part, r'\bassume\s*\('),
        crate_admit=cnt(crate_part, r'\badmit\s*\('),
        shim_assume=cnt(shim_part, r'\bassume\s*\('),
        shim_admit=cnt(shim_part, r'\badmit\s*\('),
    )


def count_clauses(text):
    crate_start = text.index('\nverus! {\n', text.index('pub mod shim'))
    c = text[crate_start:]
    return dict(ensures=len(re.findall(r'\bensures\b', c)), requires=len(re.findall(r'\brequires\b', c)),
                invariants=len(re.findall(r'\binvariant(_except_break)?\b', c)),
                asserts=len(re.findall(r'\bassert\s*(\(|forall)', c)), decreases=len(re.findall(r'\bdecreases\b', c)))


def load_known():
    p = os.path.join(ROOT, 'known_findings.json')
    if os.path.exists(p):
        return json.load(open(p))
    return {'findings': [], 'fixed': []}


def write_evidence(pid, ev):
    os.makedirs(EVID, exist_ok=True)
    with open(os.path.join(EVID, pid + '.json'), 'w') as f:
        json.dump(ev, f, indent=1)


def verus_phase(pid, P, tier, seed, t0):
    """returns (failures, evidence_fragment).  failures: list of dicts(obligation, kind, file, lines, message, rendered)"""
    units = props.closure(P['units'])
    text, line_map, em, entries = tool.generate(set(units))
    os.makedirs(BUILD, exist_ok=True)
    path = os.path.join(BUILD, '%s.rs' % pid)
    open(path, 'w').write(text)
    scan = assumption_scan(text)
    if scan['crate_assume'] or scan['crate_admit'] or scan['shim_assume'] or scan['shim_admit']:
        raise Undecided('assume()/admit() present in generated file: %r' % scan)
    r = run_verus(path, rlimit=P.get('rlimit', 60))
    j = r['json']
    drifted = [f['key'] for f in em.functions if f['drift_tokens']]
    if drifted and j is not None and not j['verification-results'].get('verified') and any(
            d.get('level') == 'error' and classify(d) is None and not d['message'].startswith('aborting') for d in r['diags']):
        # the source of some contracted items changed and the file does not compile with their proof hints (e.g. a hint
        # names a variable that no longer exists): retry with the body-level hints of the changed items dropped
        # only the changed items in which the compile errors sit lose their hints first; if that is not enough, all changed items
        culprits = set()
        for d in r['diags']:
            if d.get('level') == 'error' and classify(d) is None:
                for sp in d.get('spans', []):
                    meta = locate(line_map, sp['line_start'])
                    if meta and meta['entry'] in drifted:
                        culprits.add(meta['entry'])
        for drop in ([culprits] if culprits and culprits != set(drifted) else []) + [set(drifted)]:
            text, line_map, em, entries = tool.generate(set(units), no_body_hints=set(drop))
            open(path, 'w').write(text)
            r = run_verus(path, rlimit=P.get('rlimit', 60))
            j = r['json']
            if j is not None and not any(d.get('level') == 'error' and classify(d) is None and not d['message'].startswith('aborting')
                                         for d in r['diags']):
                break
    elif drifted and j is not None and not j['verification-results'].get('success') and em.lost:
        # a changed item kept some of its proof hints and does not verify: a kept hint may state something about the old
        # shape of the code that is no longer true although the contract still holds.  Try once without the body-level
        # hints of the changed items and accept that run if everything verifies (a pass is a pass; a fail stays a fail).
        text2, line_map2, em2, entries2 = tool.generate(set(units), no_body_hints=set(drifted))
        path2 = os.path.join(BUILD, '%s_nohints.rs' % pid)
        open(path2, 'w').write(text2)
        r2 = run_verus(path2, rlimit=P.get('rlimit', 60))
        if r2['json'] is not None and r2['json']['verification-results'].get('success'):
            text, line_map, em, entries, r, j, path = text2, line_map2, em2, entries2, r2, r2['json'], path2
    def _resource_limited(rr):
        return any(d.get('level') == 'error' and ('rlimit' in d['message'].lower() or 'resource limit' in d['message'].lower())
                   for d in rr['diags'])
    # a resource-limit hit is not a verdict: retry with a larger budget and another solver seed before giving up (exit 2)
    for sd, mult in ((7, 3), (23, 8)):
        if j is None or r['rc'] == 124 or not _resource_limited(r):
            break
        r = run_verus(path, seed=sd, rlimit=P.get('rlimit', 60) * mult)
        j = r['json']
    if r['rc'] == 124:
        raise Undecided('verus timeout')
    if j is None:
        raise Undecided('verus produced no JSON (front-end failure):\n' + r['raw_err'][-3000:])
    vr = j['verification-results']
    failures = []
    machinery = []
    for d in r['diags']:
        if d.get('level') != 'error':
            continue
        if d['message'].startswith('aborting due to'):
            continue
        kind = classify(d)
        prim = [s for s in d.get('spans', []) if s.get('is_primary')] or d.get('spans', [])
        line = prim[0]['line_start'] if prim else None
        if kind is None:
            if 'rlimit' in d['message'].lower() or 'resource limit' in d['message'].lower():
                machinery.append('rlimit: ' + d['message'])
            else:
                machinery.append(d['message'] + (' @gen:%s' % line if line else ''))
            continue
        meta = None
        # attribute the failure to the contracted item containing any of the spans
        for s in prim + d.get('spans', []):
            meta = locate(line_map, s['line_start'])
            if meta:
                break
        where = meta['key'] if meta else 'spec/prelude-or-glue'
        off = ''
        if meta and line:
            lo = [l for l, h, m in line_map if m is meta][0]
            off = '+%d' % (line - lo)
        snippet = ''
        if prim and prim[0].get('text'):
            tx = prim[0]['text'][0]
            snippet = tx['text'][tx['highlight_start'] - 1:tx['highlight_end'] - 1].strip()[:80]
        failures.append(dict(obligation='%s/%s%s [%s]' % (where, kind, off, snippet), kind=kind, item=where, entry=(meta['entry'] if meta else None),
                             repo_file=('src/' + meta['file']) if meta else None,
                             repo_lines=list(meta['lines']) if meta else None,
                             message=d['message'], rendered=d.get('rendered', '')))
    # Stability: an obligation of an item whose source text is unchanged (no token drift) was discharged when the contract
    # was written; if it fails now the usual cause is SMT instability (the solver sees the whole file).  Such failures are
    # re-tried under other solver seeds and only kept if they fail under every seed; failures in changed items are kept as is.
    drift_of = {f['key']: f['drift_tokens'] for f in em.functions}
    unstable = []
    def entry_drift(f):
        return drift_of.get(f.get('entry') or '', 0)
    suspects = [f for f in failures if not entry_drift(f)]
    if suspects and not vr.get('encountered-vir-error'):
        surviving = set(f['obligation'] for f in suspects)
        for sd in (7, 23):
            r2 = run_verus(path, seed=sd, rlimit=P.get('rlimit', 60))
            failed_now = set()
            for d in r2['diags']:
                if d.get('level') != 'error' or classify(d) is None:
                    continue
                prim = [s_ for s_ in d.get('spans', []) if s_.get('is_primary')] or d.get('spans', [])
                meta = None
                for s_ in prim + d.get('spans', []):
                    meta = locate(line_map, s_['line_start'])
                    if meta:
                        break
                failed_now.add((meta['entry'] if meta else None, classify(d)))
            surviving = set(o for o in surviving if any((f.get('entry'), f['kind']) in failed_now for f in suspects if f['obligation'] == o))
            if not surviving:
                break
        unstable = [f['obligation'] for f in suspects if f['obligation'] not in surviving]
        failures = [f for f in failures if entry_drift(f) or f['obligation'] in surviving]
        if unstable:
            machinery.append('unstable under solver seed (discharged under another seed): ' + '; '.join(unstable)[:600])
    if vr.get('encountered-vir-error') or (machinery and not failures and not unstable) or (vr.get('encountered-error') and not failures and not vr.get('errors')):
        raise Undecided('verus front-end / resource problem: ' + '; '.join(machinery)[:3000] + '\n' + r['raw_err'][-2000:])
    if machinery and failures:
        # e.g. rlimit in one function and a real failure in another: report the real ones, note the rest
        pass
    # per-function times
    fb = []
    try:
        for m in j['times-ms']['smt']['smt-run-module-times']:
            fb.extend(m.get('function-breakdown', []))
    except Exception:
        pass
    crate_fns = [f for f in fb if not f['function'].startswith(('vstd::', 'core::', 'alloc::', 'std::'))]
    slow = sorted(crate_fns, key=lambda f: -f['time'])[:5]
    verified_fns = [f for f in em.functions if f['verified']]
    stub_fns = [f for f in em.functions if not f['verified']]
    seeds_ok = None
    if tier == 'thorough' and not failures:
        # re-verification under two more solver seeds: a seed-only failure is instability (reported), not a violation
        seeds_ok = []
        for sd in (11, 29):
            r3 = run_verus(path, seed=sd, rlimit=P.get('rlimit', 60))
            ok3 = bool(r3['json'] and r3['json']['verification-results'].get('success'))
            seeds_ok.append(dict(seed=sd, success=ok3, wall_s=round(r3['wall'], 1)))
            if not ok3:
                machinery.append('unstable: fails under smt.random_seed=%d although it verifies under the default seed' % sd)
    frag = dict(
        solver_seeds_thorough=seeds_ok,
        obligations=vr['verified'] + vr['errors'],
        discharged=vr['verified'] + (vr['errors'] if (unstable and not failures) else 0),
        unstable_obligations=unstable,
        checker_cmd=r['cmd'] + '   (cwd /verif/build; file regenerated from /repo working tree)',
        verus_wall_s=round(r['wall'], 2),
        smt_time_ms=j['times-ms'].get('smt', {}).get('smt-run'),
        generated_file='build/%s.rs' % pid,
        generated_sha256=hashlib.sha256(text.encode()).hexdigest(),
        units_verified=units,
        functions_under_contract=[dict(key=f['key'], src='%s:%d-%d' % (f['file'], f['lines'][0], f['lines'][1]),
                                       sha256=f['sha256'][:16], rewrites=f['rewrites'], instances=f['instances'],
                                       drift_tokens=f['drift_tokens']) for f in verified_fns],
        contracts_assumed_here_proved_elsewhere=[f['key'] for f in stub_fns],
        rewrites_applied=em.rewrites,
        # drift of the items verified in this run (assumed-here stubs have an empty body in their contract copy by construction)
        anchor_drift_tokens=sum(f['drift_tokens'] for f in em.functions if f['verified'] and f.get('stub') != 'always'), hints_lost=em.lost,
        clause_counts=count_clauses(text),
        assumption_scan=scan,
        slowest_functions=[dict(function=f['function'], ms=f['time'], rlimit=f.get('rlimit')) for f in slow],
        machinery_notes=machinery,
    )
    return failures, frag, (text, line_map, em)


def vacuity_phase(pid, P):
    """thorough tier: every verified exec function gets `proof { assert(false); }` as its first statement; each of these
    MUST fail.  One that verifies means a contradictory precondition / assumption (the normal run would be vacuous)."""
    units = props.closure(P['units'])
    text, line_map, em, entries = tool.generate(set(units), vacuity=True)
    path = os.path.join(BUILD, '%s_vacuity.rs' % pid)
    open(path, 'w').write(text)
    r = run_verus(path, rlimit=20)
    if r['json'] is None or not (r['json']['verification-results'].get('verified') or r['json']['verification-results'].get('errors')):
        raise Undecided('vacuity variant did not run: ' + r['raw_err'][-1500:])
    src = text.split('\n')
    probe_lines = set(i + 1 for i, l in enumerate(src) if 'proof { assert(false); } ' in l)
    failed = set()
    for d in r['diags']:
        if d.get('level') == 'error' and 'assertion failed' in d.get('message', ''):
            for sp in d.get('spans', []):
                if sp['line_start'] in probe_lines:
                    failed.add(sp['line_start'])
    vacuous = sorted(probe_lines - failed)
    names = []
    for ln in vacuous:
        m = locate(line_map, ln)
        names.append(m['key'] if m else 'line %d' % ln)
    return dict(vacuity_probes=len(probe_lines), vacuity_probes_failed_as_required=len(failed), vacuous_functions=names)


def main(argv):
    if not argv:
        print(__doc__)
        return 2
    pid = argv[0]
    tier = os.environ.get('VERIF_TIER', 'quick')
    seed = int(os.environ.get('VERIF_SEED', '0') or 0)
    i = 1
    while i < len(argv):
        if argv[i] == '--tier':
            tier = argv[i + 1]
            i += 2
        elif argv[i] == '--replay':
            from . import replay
            return replay.replay_file(argv[i + 1])
        else:
            i += 1
    if pid not in props.PROPS:
        print('unknown or not-applicable property', pid)
        return 2
    P = props.PROPS[pid]
    t0 = time.time()
    ev = dict(property_id=pid, tier=tier, seed=seed, level=P.get('level', 'proof'), coverage={}, assumptions=[],
              wall_s=0.0, violations=0)
    try:
        failures, frag, ctx = ([], {}, None)
        if P.get('units'):
            failures, frag, ctx = verus_phase(pid, P, tier, seed, t0)
        ev['coverage'].update(frag)
        if tier == 'thorough' and P.get('units'):
            vac = vacuity_phase(pid, P)
            ev['coverage'].update(vac)
            if vac['vacuous_functions']:
                raise Undecided('vacuity guard: these functions verify `assert(false)` (contradictory precondition or assumption): %s' % vac['vacuous_functions'][:10])
        extra_fail = []
        for hook in P.get('hooks', []):
            # additional deciders (Kani harness groups, replay of known findings, thorough extras)
            f2, cov2 = hook(pid, P, tier, seed, ctx)
            extra_fail.extend(f2)
            for k, v in cov2.items():
                ev['coverage'][k] = v
        failures = failures + extra_fail
    except (Undecided, HookUndecided) as u:
        ev['wall_s'] = round(time.time() - t0, 2)
        ev['coverage']['explanation'] = 'UNDECIDED (machinery): ' + str(u)[:2000]
        ev['level'] = 'other'
        write_evidence(pid, ev)
        print('UNDECIDED property=%s reason=%s' % (pid, str(u).split('\n')[0][:300]))
        sys.stderr.write(str(u) + '\n')
        return 2
    except gen.GenError as g:
        ev['wall_s'] = round(time.time() - t0, 2)
        ev['coverage']['explanation'] = 'UNDECIDED (extraction): ' + str(g)[:2000]
        ev['level'] = 'other'
        write_evidence(pid, ev)
        print('UNDECIDED property=%s reason=extraction: %s' % (pid, str(g)[:300]))
        return 2

    # macro / generic instances of one contract entry that fail the same clause are one obligation family
    fam = {}
    for f in failures:
        k = (f.get('entry') or f['item'], f['kind'], f['obligation'].split('/')[-1])
        if k in fam:
            fam[k].setdefault('instances', [fam[k]['item']]).append(f['item'])
        else:
            fam[k] = f
    failures = list(fam.values())
    known = load_known()
    kf = [k for k in known.get('findings', []) if k['property'] == pid]
    reported = []
    known_hit = []
    for f in failures:
        hit = None
        for k in kf:
            if k.get('obligation_pattern') and re.search(k['obligation_pattern'], f['obligation']):
                hit = k
        if hit:
            known_hit.append((hit, f))
        else:
            reported.append(f)
    for k, f in known_hit:
        print('KNOWN-FINDING: property=%s %s' % (pid, k['what']))
    from . import finish
    return finish.finish(pid, P, tier, seed, ev, reported, known, t0)


if __name__ == '__main__':
    sys.exit(main(sys.argv[1:]))
