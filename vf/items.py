"""Item-level scanner for the crate's source files.

Finds impl blocks, free functions, functions inside impls, macro_rules
definitions and their invocations; resolves #[cfg] alternatives; expands the
crate's single-fragment macros the way rustc does.
"""
import re
from .lex import lex, Tok, match_close, norm, OPEN

# cfg atoms that are true for this build (what build.rs/autocfg emits for the
# installed rustc, default features).  `rust_1_50` (sic, impl_fmt.rs) is never set.
TRUE_CFG = {'rustc_1_70', 'rustc_1_60', 'rustc_1_50', 'rustc_1_46', 'feature="std"'}


def cfg_eval(expr):
    """expr: token-normalised text inside cfg( ... )"""
    expr = expr.strip()
    m = re.match(r'^(not|all|any)\s*\((.*)\)$', expr, re.S)
    if m:
        op, inner = m.group(1), m.group(2)
        parts, depth, cur = [], 0, ''
        for ch in inner:
            if ch == '(':
                depth += 1
            elif ch == ')':
                depth -= 1
            if ch == ',' and depth == 0:
                parts.append(cur)
                cur = ''
            else:
                cur += ch
        if cur.strip():
            parts.append(cur)
        vals = [cfg_eval(p) for p in parts]
        if op == 'not':
            return not vals[0]
        if op == 'all':
            return all(vals)
        return any(vals)
    return expr.replace(' ', '') in TRUE_CFG


class Item:
    def __init__(self, kind, name, header, attrs, toks, lo, hi, body_lo=None, body_hi=None):
        self.kind = kind          # impl | fn | macro_rules | macro_call | struct | enum | mod | other
        self.name = name
        self.header = header      # normalised header text (impl ... / fn name)
        self.attrs = attrs        # list of attribute texts (normalised)
        self.toks = toks          # the full token list of the file/fragment
        self.lo, self.hi = lo, hi  # token index range [lo, hi) incl. attributes
        self.body_lo, self.body_hi = body_lo, body_hi  # indices of '{' and '}' tokens
        self.first = lo           # first token index after attributes (set by scanner)

    def text(self, with_attrs=False):
        lo = self.lo if with_attrs else self.first
        return ''.join(t.text for t in self.toks[lo:self.hi])

    def active(self):
        for a in self.attrs:
            m = re.match(r'^# \[ cfg \( (.*) \) \]$', a, re.S)
            if m and not cfg_eval(m.group(1)):
                return False
        return True

    def is_test(self):
        return any(re.search(r'\btest\b', a) and a.startswith('# [ cfg') for a in self.attrs)


def _skip_trivia(toks, i, hi):
    while i < hi and not toks[i].code:
        i += 1
    return i


def scan_items(toks, lo, hi):
    """scan items between token indices [lo,hi) (file level or inside an impl body)"""
    items = []
    i = lo
    while True:
        i = _skip_trivia(toks, i, hi)
        if i >= hi:
            break
        start = i
        attrs = []
        # attributes (outer and inner)
        while i < hi and toks[i].text == '#':
            j = _skip_trivia(toks, i + 1, hi)
            if toks[j].text == '!':
                j = _skip_trivia(toks, j + 1, hi)
            assert toks[j].text == '[', toks[j]
            k = match_close(toks, j)
            attrs.append(' '.join(t.text for t in toks[i:k + 1] if t.code))
            i = _skip_trivia(toks, k + 1, hi)
        first = i
        if i >= hi:
            break
        # collect header tokens up to '{' or ';' at depth 0 (angle brackets are not brackets here)
        j = i
        kind = None
        words = []
        body_lo = body_hi = None
        while j < hi:
            t = toks[j]
            if t.kind == 'punct' and t.text in '([':
                j = match_close(toks, j) + 1
                continue
            if t.kind == 'punct' and t.text == '{':
                body_lo = j
                body_hi = match_close(toks, j)
                j = body_hi + 1
                break
            if t.kind == 'punct' and t.text == ';':
                j += 1
                break
            if t.code:
                words.append(t.text)
            j += 1
        end = j
        header_toks = [t for t in toks[first:(body_lo if body_lo is not None else end)] if t.code]
        htxt = ' '.join(t.text for t in header_toks)
        w = [t.text for t in header_toks]
        name = None
        # strip visibility / qualifiers
        k = 0
        while k < len(w) and w[k] in ('pub', 'const', 'unsafe', 'async', 'extern', 'default'):
            if w[k] == 'pub' and k + 1 < len(w) and w[k + 1] == '(':
                k = w.index(')', k)
            if w[k] == 'const' and k + 1 < len(w) and w[k + 1] not in ('fn', 'unsafe'):
                break
            k += 1
        kw = w[k] if k < len(w) else ''
        if kw == 'impl':
            kind = 'impl'
            name = htxt[htxt.index('impl'):]
        elif kw == 'fn':
            kind = 'fn'
            name = w[k + 1]
        elif kw == 'macro_rules':
            kind = 'macro_rules'
            name = w[k + 2]
            # macro_rules! name { ... }  -- body may be {} () []
            if body_lo is None:
                # delimited by () or [] and terminated by ;
                for q in range(first, end):
                    if toks[q].text in '([' and toks[q].kind == 'punct':
                        body_lo, body_hi = q, match_close(toks, q)
                        break
        elif kw in ('struct', 'enum', 'mod', 'trait', 'use', 'type', 'static'):
            kind = kw
            name = w[k + 1] if k + 1 < len(w) else None
        elif len(w) >= 2 and w[k + 1:k + 2] == ['!']:
            kind = 'macro_call'
            name = w[k]
            for q in range(first, end):
                if toks[q].text in OPEN and toks[q].kind == 'punct':
                    body_lo, body_hi = q, match_close(toks, q)
                    break
        else:
            kind = 'other'
        it = Item(kind, name, htxt, attrs, toks, start, end, body_lo, body_hi)
        it.first = first
        items.append(it)
        i = end
    return items


class SourceFile:
    def __init__(self, path, relname):
        self.path, self.rel = path, relname
        self.src = open(path, encoding='utf-8').read()
        self.toks = lex(self.src)
        self.items = [it for it in scan_items(self.toks, 0, len(self.toks))]

    def line_of(self, tok_index):
        return self.src.count('\n', 0, self.toks[tok_index].start) + 1


def impl_header_key(header):
    """canonical key for an impl header: drop leading generics' whitespace differences"""
    return header


def find_fn_in(items, name):
    return [it for it in items if it.kind == 'fn' and it.name == name and it.active() and not it.is_test()]


# ---------------------------------------------------------------- macros

class MacroArm:
    def __init__(self, pat_toks, body_toks):
        self.pat = [t for t in pat_toks if t.code]
        self.body = body_toks  # full tokens incl. trivia (inside the braces)

    def pat_text(self):
        return ' '.join(t.text for t in self.pat)


def parse_macro_rules(item):
    toks = item.toks
    arms = []
    i = item.body_lo + 1
    hi = item.body_hi
    while True:
        i = _skip_trivia(toks, i, hi)
        if i >= hi:
            break
        assert toks[i].text in OPEN, toks[i]
        pc = match_close(toks, i)
        pat = toks[i + 1:pc]
        j = _skip_trivia(toks, pc + 1, hi)
        assert toks[j].text == '=' and toks[j + 1].text == '>', toks[j]
        j = _skip_trivia(toks, j + 2, hi)
        assert toks[j].text in OPEN
        bc = match_close(toks, j)
        arms.append(MacroArm(pat, toks[j + 1:bc]))
        i = _skip_trivia(toks, bc + 1, hi)
        if i < hi and toks[i].text == ';':
            i += 1
    return arms


def _match_arm(arm, args):
    """args: list of code tokens.  Returns bindings dict or None.
    Supported fragments: $x:ty (optional & + lifetime-free path type without generics), $x:ident"""
    pat = arm.pat
    b = {}
    i = j = 0
    while i < len(pat):
        p = pat[i]
        if p.text == '$' and i + 3 < len(pat) + 1 and pat[i + 2].text == ':':
            var, frag = pat[i + 1].text, pat[i + 3].text
            if frag == 'ty':
                k = j
                if k < len(args) and args[k].text == '&':
                    k += 1
                if k >= len(args) or args[k].kind != 'ident':
                    return None
                # a type must not be followed by ':' '!' etc. for our macros
                k += 1
                b[var] = args[j:k]
                j = k
            elif frag == 'ident':
                if j >= len(args) or args[j].kind != 'ident':
                    return None
                b[var] = args[j:j + 1]
                j += 1
            else:
                raise ValueError('unsupported macro fragment ' + frag)
            i += 4
        else:
            if j >= len(args) or args[j].text != p.text:
                return None
            i += 1
            j += 1
    if j != len(args):
        return None
    return b


def expand_macro(arms, args, name, depth=0):
    """Expand one invocation.  Returns list of (arm_index, bindings, token list) for leaf
    arms, i.e. arms whose body is not just further invocations of the same macro."""
    assert depth < 8
    for idx, arm in enumerate(arms):
        b = _match_arm(arm, args)
        if b is None:
            continue
        body = arm.body
        # does the body consist of nested invocations of `name` only?
        code = [t for t in body if t.code]
        out = []
        nested = []
        k = 0
        only_nested = True
        while k < len(code):
            if code[k].text == name and k + 1 < len(code) and code[k + 1].text == '!':
                # find the parenthesised args
                assert code[k + 2].text in OPEN
                # match in code-token list
                d, q = 0, k + 2
                while True:
                    if code[q].kind == 'punct' and code[q].text in OPEN:
                        d += 1
                    elif code[q].kind == 'punct' and code[q].text in ')]}':
                        d -= 1
                        if d == 0:
                            break
                    q += 1
                inner = code[k + 3:q]
                # substitute bindings
                sub = []
                m = 0
                while m < len(inner):
                    if inner[m].text == '$' and m + 1 < len(inner) and inner[m + 1].text in b:
                        sub.extend(b[inner[m + 1].text])
                        m += 2
                    else:
                        sub.append(inner[m])
                        m += 1
                nested.append(sub)
                k = q + 1
                if k < len(code) and code[k].text == ';':
                    k += 1
            else:
                only_nested = False
                break
        if only_nested and nested:
            for sub in nested:
                out.extend(expand_macro(arms, sub, name, depth + 1))
            return out
        return [(idx, b, body)]
    raise ValueError('no macro arm of %s matches %s' % (name, ' '.join(t.text for t in args)))


def substitute(text, bindings):
    """textual $var substitution on already merged text"""
    for var, toks in bindings.items():
        rep = ''.join(t.text for t in toks)
        text = text.replace('${%s}' % var, rep)
        text = re.sub(r'\$' + var + r'\b', rep.replace('\\', r'\\'), text)
    return text
