"""Property table: which contract units decide which property, plus the texts that go
into MANIFEST.json / evidence.  Units are groups of contract entries (see contracts/*.ctr).

`units`  : units whose functions are VERIFIED in this property's run (all other
           contracted functions are present as external_body stubs = assumed here,
           proved in their own unit; the evidence lists them).
`kani`   : Kani harness groups run for the property (quick / thorough).
"""

PROPS = {}


def prop(pid, **kw):
    PROPS[pid] = kw


# unit dependency closure: a property's run verifies the listed units AND everything
# they (transitively) depend on, so that a change in a callee is seen by every
# property that relies on it.
UNIT_DEPS = {
    'types': [],
    'pow10': ['types'],
}


def closure(units):
    seen = []

    def go(u):
        if u in seen:
            return
        for d in UNIT_DEPS.get(u, []):
            go(d)
        seen.append(u)
    for u in units:
        go(u)
    return seen


FIX_COMMITS = []
NOTES = ('Contract-based deductive verification (Verus) of functions re-extracted from /repo on every run; '
         'see DESIGN.md.  exit 2 = undecided because of the machinery (never a violation).')

_WIP = 'check not built yet in this session (work in progress; see DESIGN.md section 9 for the order)'
NOT_APPLICABLE = {
    'C03': 'no contract within reach: Hash uses an FnMut closure mutating a captured counter + str patterns (rejected by Verus); the Kani stand-in reached 36 GB in CBMC (DESIGN.md section 7)',
    'C04': 'needs a byte-level spec of the fmt machinery and of the parser composed; no str reasoning in Verus, far beyond CBMC (DESIGN.md section 7)',
    'C13': 'statement about the real function e^x to one ulp; contracts here are integer-only and the Taylor loop has no termination measure (DESIGN.md section 7)',
    'C17': 'feature-gated code generic over foreign serde traits and strings; no contract within reach (DESIGN.md section 7)',
}
for _p in ['C01', 'C02', 'C05', 'C06', 'C07', 'C08', 'C09', 'C10', 'C11', 'C12', 'C14', 'C15', 'C16', 'C19', 'C20']:
    NOT_APPLICABLE[_p] = _WIP

_NOTE_COMMON = ('Assumed: num-bigint/num-traits/num-integer contracts (spec/shim_base.rs, vf/shimgen.py), std specs, '
                'size bound 2^60 on digit vectors, the extractor and its rewrite table; machine arithmetic is NOT treated as mathematical '
                '(every i64/u64/usize operation carries an overflow obligation).')

prop('C18', units=['pow10'], level='proof',
     level_text='Verus proves value-exact postconditions for the power-of-ten constructors (all three algorithms of ten_to_the_uint, for every pow) on the real function bodies; more of the property is added as units are built',
     level_note=_NOTE_COMMON,
     technique='deductive verification with Verus: requires/ensures/loop invariants on mechanically re-extracted functions')
