"""Property table: which contract units decide which property, plus the texts that go
into MANIFEST.json / evidence.  Units are groups of contract entries (see contracts/*.ctr).

`units`  : units whose functions are VERIFIED in this property's run (all other
           contracted functions are present as external_body stubs = assumed here,
           proved in their own unit; the evidence lists them).
`kani`   : Kani harness groups run for the property (quick / thorough).
"""

PROPS = {}
from . import hooks as _h


def prop(pid, **kw):
    PROPS[pid] = kw


# unit dependency closure: a property's run verifies the listed units AND everything
# they (transitively) depend on, so that a change in a callee is seen by every
# property that relies on it.
UNIT_DEPS = {
    'types': [],
    'pow10': ['types'],
    'core': ['types', 'cmp'],
    'conv': ['types'],
    'scale': ['types', 'pow10', 'core'],
    'canon': ['types', 'core', 'cmp'],
    'cmp': ['types', 'core', 'scale', 'pow10'],
    'add': ['core', 'scale', 'conv', 'pow10'],
    'sub': ['core', 'scale', 'conv', 'pow10', 'add'],
    'mul': ['core', 'conv', 'canon'],
    'derived': ['core'],
    'prim_add': ['add', 'conv'],
    'prim_sub': ['sub', 'add', 'conv'],
    'prim_mul': ['mul', 'conv'],
    'round': ['core', 'pow10', 'types', 'context'],
    'config': ['types'],
    'float': ['core', 'types', 'conv'],
    'fmt': ['insig', 'round', 'config', 'types'],
    'insig': ['round', 'config', 'types'],
    'clients': ['add', 'sub', 'mul', 'derived', 'prim_add', 'prim_sub', 'prim_mul', 'canon', 'cmp', 'scale', 'core'],
    'roots': ['core', 'context', 'config', 'cmp', 'cbrt'],
    'cbrt': ['core', 'context', 'config', 'pow10', 'digits', 'insig', 'round', 'types'],
    'inverse': ['core', 'context', 'config'],
    'prim_div': ['div', 'derived', 'conv', 'inverse', 'float'],
    'prec': ['round', 'digits', 'context', 'add', 'core'],
    'div': ['core', 'digits', 'config', 'cmp', 'derived', 'conv'],
    'toint': ['core', 'scale', 'pow10', 'conv'],
    'digits': ['pow10', 'core'],
    'rem': ['core', 'scale', 'pow10'],
    'context': ['types', 'config', 'round'],
}


def closure(units):
    seen = []
    todo = list(units)
    while todo:
        u = todo.pop(0)
        if u in seen:
            continue
        seen.append(u)
        todo.extend(UNIT_DEPS.get(u, []))
    return seen


FIX_COMMITS = ['6dbd058 fix: with_prec rounds negative values symmetrically (C07)',
               'c977df5 fix: DivAssign<integer> panics on a zero divisor (C08)',
               'beb88f2 fix: equality no longer overflows when adding the carry (C02)',
               '49ca308 fix: inverse_with_context exchanges Floor and Ceiling for negative values (C12)',
               '343238e fix: parser rejects a sign character after the decimal point (C05)',
               '45ab761 fix: 1 / 0 panics for a primitive one over a zero decimal (C08)',
               '6dcf90d fix: cube root rounds an inexact integer root as inexact (C11)',
               'c9bca48 fix: square root of long inputs: even shifted scale, exact result scale, sticky digit (C10)']
NOTES = ('Contract-based deductive verification (Verus) of functions re-extracted from /repo on every run; '
         'see DESIGN.md.  exit 2 = undecided because of the machinery (never a violation).')

_WIP = 'check not built yet in this session (work in progress; see DESIGN.md section 9 for the order)'
NOT_APPLICABLE = {
    'C03': 'no contract within reach: Hash uses an FnMut closure mutating a captured counter + str patterns (rejected by Verus); the Kani stand-in reached 36 GB in CBMC (DESIGN.md section 7)',
    'C04': 'needs a byte-level spec of the fmt machinery and of the parser composed; no str reasoning in Verus, far beyond CBMC (DESIGN.md section 7)',
    'C13': 'statement about the real function e^x to one ulp; contracts here are integer-only and the Taylor loop has no termination measure (DESIGN.md section 7)',
    'C17': 'feature-gated code generic over foreign serde traits and strings; no contract within reach (DESIGN.md section 7)',
}

_NOTE_COMMON = ('Assumed: num-bigint/num-traits/num-integer contracts (spec/shim_base.rs, vf/shimgen.py), std specs, '
                'size bound 2^60 on digit vectors, the extractor and its rewrite table; machine arithmetic is NOT treated as mathematical '
                '(every i64/u64/usize operation carries an overflow obligation).')

_TECH = 'deductive verification with Verus: requires/ensures/loop invariants spliced onto functions re-extracted from /repo on every run'

prop('C01', units=['add', 'sub', 'mul', 'derived', 'prim_add', 'prim_sub', 'prim_mul', 'core', 'scale', 'pow10', 'conv', 'canon'], level='proof',
     hooks=[_h.kani_hook(['diff_i64', 'checked_diff_i64'])],
     level_text=('Verus proves, for every operand value and every scale within |s| <= 2^61, that each Add/Sub/Mul/Neg impl and compound '
                 'assignment (every owned/borrowed/reference-view/BigInt form, every arm of the primitive-integer macros at all ten integer '
                 'types by value and by reference), double/half/square/cube, abs and the alignment helpers return exactly the mathematical '
                 'sum/difference/product (integer relation is_sum/is_diff/is_prod over i*10^-s), plus freedom from i64 overflow; '
                 'not covered: the two Sum impls (Iterator::fold with a closure has no Verus spec)'),
     level_note=_NOTE_COMMON + ' Verus resolves `x op &y` through the owned impl; every ownership variant carries the same contract and is proved against its own body.',
     technique=_TECH)

prop('C02', units=['cmp', 'core', 'scale', 'digits', 'pow10'], level='proof',
     hooks=[_h.kani_hook(['checked_diff_i64', 'a2_log2_scale'])],
     level_text=('Verus proves that cmp / partial_cmp on values and on reference views return exactly the comparison of the denoted numbers '
                 '(sign handling, checked scale difference with the order decided by the scales when it overflows, reversal for negatives; '
                 'compare_scaled_biguints: bit-length pre-filter, digit-count comparison and the digit-wise loop with its remaining-digits-all-zero tail) '
                 'with no scale precondition and no overflow, and that eq on values and views forwards to the equality routine; the equality routine '
                 '(check_equality_bigdecimal_ref) is proved on its real body to return true exactly when the two denoted numbers are equal -- sign screening, scale-gap overflow, '
                 'the bit-length pre-filter, the allocation-free u32-word loop with its multiply-and-carry (inductive invariant  b*10^k - a == 2^(32j) * (rest_b*10^k + carry - rest_a)), '
                 'its overflow fall-back, and the decimal-digit path for gaps >= 20 -- and free of overflow / failed unwrap / bad indexing (this found the tmp + carry defect, now fixed). '
                 'The u64/u128 fast path (compare_scalar_biguints and the generic compare_scaled_uints<T>) is proved generically over an assumed PrimInt trait contract, with the facts about T::try_from(&BigUint) as preconditions discharged for u64 and u128 at the two call sites. Totality, antisymmetry and '
                 'transitivity follow because the result is a function of the pair of denoted integers at a common scale (lemma_cmp_at)'),
     level_note=_NOTE_COMMON + ' Float axiom A2 for the bit-length pre-filter; 64-bit target (size_of usize == 8); the reversed digit iterator and the u32 word iterator are explicit-state stand-ins (R6).',
     technique=_TECH)

prop('C06', units=['round', 'scale', 'context', 'config', 'core', 'pow10'], level='proof',
     hooks=[_h.kani_hook(['round_pair_table', 'carries', 'diff_i64'])],
     level_text=('Verus proves on the real body of with_scale_round that the result carries exactly the requested scale and equals '
                 'sign * round_mag(|i|, k, mode) -- the mode table of the RoundingMode documentation applied to the whole discarded tail -- '
                 'in all three regimes (rounding point left of / at / inside the digits) including the carry loop; round_pair equals the '
                 'mode table for every digit pair, sign and tail flag; with_scale truncation equals rounding Down; round(n) uses the '
                 'configured default mode (symbolic constant); extension multiplies by the exact power of ten; round_u32 returns the u32 rounded at a decimal position '
                 'by the same table (sticky-tail flag included)'),
     level_note=_NOTE_COMMON + ' round_u32 is under contract for at_digit <= 9 and results that fit u32 (its documented domain).',
     technique=_TECH)

prop('C07', units=['prec', 'round', 'digits', 'context', 'config', 'add', 'core'], level='proof',
     hooks=[_h.kani_hook(['a1_digit_estimate'])],
     level_text=('Verus proves that with_precision_round returns the input rounded at its p-th significant digit under the given mode (new scale = s + p - digits with '
                 'checked arithmetic that cannot fail under the scale bound; exact and zero-padded when the input has at most p digits), that Context::round_decimal, '
                 'round_decimal_ref, BigDecimalRef::round_with_context, Context::add_refs / add_refs_into (exact sum, then rounded) forward to it with the precision and mode of the context '
                 'and that with_prec(p) is the same operation under HalfUp for both signs (after the fix: commit)'),
     level_note=_NOTE_COMMON + ' get_rounding_term / digits() rely on float axiom A1. Closures inside with_precision_round carry inline contracts; the tuple-pattern closure parameter is rewritten (R2).',
     technique=_TECH)

prop('C08', units=['div', 'prim_div', 'inverse', 'digits', 'core', 'config', 'pow10', 'derived', 'conv'], level='proof',
     hooks=[_h.kani_hook(['a1_digit_estimate']), _h.replay_hook([dict(args=['one_div_zero'], what='1 / 0 must panic'), dict(args=['div_assign_zero', '5'], what='x /= 0 must panic')])],
     level_text=('Verus proves on the real body of impl_division (sign recursion, shift loop, digit loop, final rounding) that the result is '
                 'sign * (floor(E/|d|) rounded half-up on the remainder) with E = |n|*10^(S-s0), that digits are dropped only once the quotient has '
                 'max_precision digits (so a quotient that terminates earlier is returned exactly), loop termination, and freedom from i64 overflow; '
                 'and for the four decimal/decimal Div impls: a return implies a non-zero divisor (the intended panic is modelled as divergence), the '
                 'zero-numerator / unit-divisor / equal-integers shortcuts are exact, otherwise impl_division is called with the configured precision; '
                 'for all ten primitive integer types, by value and by reference, on either side and as /=: +-1 and +-2 are exact (identity / negation / exact half), '
                 '1/x routes to inverse(), everything else is the decimal division of the converted integer, and a return implies a non-zero divisor in EVERY one of these forms, 1 / x included (after two fix: commits, for /= 0 and for 1 / 0)'),
     level_note=_NOTE_COMMON + (' get_rounding_term relies on float axiom A1. The ten float forms (f32/f64 x Div<f>, &Div<f>, f / BigDecimal, f / &BigDecimal, /= f) are under contract in the '
                                'strength the verifier allows: the exec IEEE comparison `denom == 1.0` is specified one-directionally by vstd, so the contract cannot say which literal selects which shortcut; '
                                'it pins the result to zero for a non-normal float and otherwise to {the value, its negation, the exact half, the negated half, the quotient by the EXACT decimal value of the float '
                                '(f32_exact / f64_exact, C14) at the configured precision}; a zero decimal divisor never returns.'),
     technique=_TECH)

prop('C09', units=['rem', 'scale', 'core', 'pow10'], level='proof',
     level_text=('Verus proves for each of the four Rem impls and RemAssign, on its own body, that a return implies a non-zero divisor '
                 '(the big-integer % diverges on zero), that the result scale is max(sa, sb) and that the unscaled result is the truncated '
                 'remainder of the operands aligned to that scale; prelude lemma lemma_trem_props proves that this is a - b*trunc(a/b), '
                 'smaller than |b| in magnitude, zero or of the sign of a, and independent of the sign of b'),
     level_note=_NOTE_COMMON,
     technique=_TECH)

_X42 = '1.000000000000000000000000000000000000000001'
prop('C10', units=['roots', 'cbrt', 'prec', 'core', 'context', 'config', 'digits', 'pow10'], level='proof',
     hooks=[_h.replay_hook([
         dict(args=['sqrt', '4' + '0' * 210]), dict(args=['sqrt_ctx', _X42, '5', 'Up']), dict(args=['sqrt_ctx', _X42, '20', 'Up']),
         dict(args=['sqrt_ctx', '2', '10', 'Down']), dict(args=['sqrt_ctx', '2', '7', 'Up']), dict(args=['sqrt_ctx', '152.2756', '4', 'HalfEven']),
         dict(args=['sqrt', '1e-30']), dict(args=['sqrt_ctx', '99999999', '3', 'Floor']),
         dict(args=['sqrt_ctx', '3036.01001102000001', '3', 'Up']), dict(args=['sqrt_ctx', '3052.56001105000001', '3', 'HalfDown']),
         dict(args=['sqrt_ctx', '12345678901234567', '3', 'Down'])])],
     level_text=('Verus proves on the real body of impl_sqrt (after the fix: commit c9bca48) that for x = n * 10^-s > 0 the result is THE REAL SQUARE ROOT ROUNDED to p significant '
                 'digits under the mode, stated over integers: with N = n * 10^e (e = appended zeros: enough for 2(p+5) digits, plus one if the scale would be odd), R = floor(sqrt(N)) '
                 '(num-bigint sqrt, assumed), t = digits(R) - p and q = floor(R / 10^t): the result is q if N == (q*10^t)^2, otherwise q or q+1 as the mode table decides from the comparison of '
                 '4N with ((2q+1)*10^t)^2 -- i.e. the true root against the midpoint -- and the parity of q, at scale (s+e)/2 - t. So it is exact when the root is representable, never below '
                 'the root for Up/Ceiling, never above for Down/Floor, and ties are decided on the true value (lemma_sqrt_sticky: a floor root with a sticky digit rounds like the real root; '
                 'with_precision_round is proved in C07). Entry points: sqrt() is sqrt_with_context at the configured default context, zero and one are returned unchanged, a negative input gives '
                 'None, the reference forms give None / zero / the root of the magnitude, the absolute-value form takes the root of |x| and the copy-sign form returns that root with the sign of x. '
                 'Three genuine defects found earlier by replay are fixed by that commit; their inputs stay as replayed regression inputs'),
     level_note=_NOTE_COMMON + ' Preconditions: |s| <= 2^61 and p <= 2^59 (so that 2(p+5) and the result scale fit their machine types). BigUint::sqrt is an assumed contract (floor square root).',
     technique=_TECH + '; integer characterisation of the rounded real root; former findings replayed with integer oracles')

prop('C11', units=['roots', 'cbrt', 'core', 'context', 'config', 'digits', 'pow10', 'insig', 'round'], level='proof',
     hooks=[_h.replay_hook([
         dict(args=['cbrt_ctx', _X42, '5', 'Up']), dict(args=['cbrt_ctx', '607', '4', 'Ceiling']),
         dict(args=['cbrt_ctx', '-27', '5', 'Floor']), dict(args=['cbrt_ctx', '2', '12', 'Down']), dict(args=['cbrt_ctx', '-2', '12', 'Ceiling']),
         dict(args=['cbrt_ctx', '1e-7', '6', 'HalfUp']), dict(args=['cbrt_ctx', '123456.789', '9', 'Up']),
         dict(args=['cbrt_ctx', '123456789012345678901234567890.1', '5', 'Down'])])],
     level_text=('Verus proves on the real bodies of impl_cbrt_int_scale / impl_cbrt_uint_scale (after the fix: commit 6dcf90d; also WithScale, its From impl, multiply_by_ten_to_the_uint) '
                 'that for a non-zero x = i * 10^-s the result is sign(i) * THE REAL CUBE ROOT of |x| ROUNDED to p significant digits under the mode with the sign of x '
                 '(so Floor / Ceiling act on the signed value), stated over integers: with N = |i| * 10^e (e = appended zeros: enough for 3(p+4) digits, then up to the next exponent making '
                 's + e a multiple of three -- proved against truncated i64 division), R = floor(cbrt(N)) (num-bigint nth_root, assumed), t = digits(R) - p, q = floor(R / 10^t): the result magnitude is '
                 'q if N == (q*10^t)^3, otherwise q or q+1 as the mode table decides from the comparison of 8N with ((2q+1)*10^t)^3 and the parity of q, at scale (s+e)/3 - t. The three debug '
                 'assertions of the function are proved; no overflow for |s| <= 2^61, p <= 2^60. Entry points: cbrt() is cbrt_with_context at the configured default context, zero and one are '
                 'returned unchanged. The genuine defect found earlier by replay (remainder of the root extraction ignored) is fixed by that commit; its input stays as a replayed regression input'),
     level_note=_NOTE_COMMON + ' BigUint::nth_root(3) is an assumed contract (floor cube root). Cow<BigUint> + to_mut() is rewritten to an owned copy (R6).',
     technique=_TECH + '; integer characterisation of the rounded real root; former finding replayed with an integer oracle')

prop('C12', units=['inverse', 'prim_div', 'core', 'context', 'config'], level='proof',
     hooks=[_h.replay_hook([
         dict(args=['inverse_mirror', '3e-9', '100']), dict(args=['inverse_mirror', '7', '5']),
         dict(args=['inverse_ctx', '7.8125e16', '3', 'Down']), dict(args=['inverse_ctx', '8', '5', 'Up']), dict(args=['inverse_ctx', '-3', '4', 'Floor']),
         dict(args=['inverse_ctx', '3', '1', 'Down']), dict(args=['inverse_ctx', '0.0009765625', '10', 'HalfEven']),
         dict(args=['inverse_ctx', '2', '1', 'Down']), dict(args=['inverse_ctx', '2', '1', 'Floor']), dict(args=['inverse_ctx', '125', '2', 'Down']),
         dict(args=['inverse_ctx', '0.5', '1', 'Down']), dict(args=['inverse_ctx', '2', '1', 'HalfDown']), dict(args=['inverse_ctx', '25', '2', 'Down']),
         # bit lengths that drive the f64 start value through underflow (1075-bit coefficients)
         dict(args=['inverse_ctx', str(2 ** 1074), '5', 'HalfEven']), dict(args=['inverse_ctx', '3' * 324, '5', 'HalfEven'])])],
     level_text=('PARTIAL. Verus proves the entry points: inverse() is inverse_with_context at the configured default context, zero and one are returned unchanged, the magnitude is passed '
                 'down under the mode as seen from the positive side and the sign of x is copied, so that inverse(-x) under m equals -inverse(x) under the mirrored mode (lemma_inverse_mirror, '
                 'after the fix: commit); a primitive 1 / x routes to inverse(). Accuracy and termination of the Newton iteration impl_inverse_uint_scale are NOT decided (no contract '
                 'within reach expresses convergence from an f64 start value); a few inputs are replayed with an integer oracle, four of which are genuine defects listed as known findings '
                 '(a reciprocal with exactly p digits comes out one unit too small under Down / Floor)'),
     level_note=_NOTE_COMMON + ' A change inside the Newton loop is not seen by this check except through the replayed inputs.',
     technique=_TECH + '; replay of concrete inputs with an integer oracle')

_C05_QUICK = ['parse_small_4', 'parse_small_3_utf8']
_C05_THOROUGH = ['parse_small_6', 'parse_small_6_scale', 'parse_small_6_digits', 'parse_small_8_core', 'parse_small_5_utf8']
_C05_STUB = tuple(_C05_QUICK + _C05_THOROUGH)
_C05_BOUND = ('BOUNDED (not a proof): quick tier: every string of at most 4 characters over the alphabet {0 1 7 + - . e E _ x space} and every byte string of at most 3 bytes over '
              '{1 - . e 0xC2 0xBD} (which contains the two-byte character U+00BD); thorough tier: at most 6 characters over the 11-symbol alphabet (acceptance, scale, digits), at most 8 '
              'characters over the five structural characters {1 - . e _}, at most 5 bytes over the alphabet with U+00BD, plus a native sweep up to 7 characters. Each is run symbolically through the '
              'real BigDecimal::from_str_radix (radix 10) by Kani/CBMC with loops unwound (length + 3) times and unwinding assertions on; BigInt::from_str_radix is replaced by a recording stub '
              'and alloc::fmt::format by an empty-string stub')
prop('C05', units=[], level='other', engine='kani-leaf',
     hooks=[_h.kani_hook(_C05_QUICK, tiers=('quick',), stubbing=_C05_STUB, bounded=_C05_BOUND, timeout=1800, required=True, concretize=['parse_sweep', '4']),
            _h.kani_hook(_C05_THOROUGH, tiers=('thorough',), stubbing=_C05_STUB, bounded=_C05_BOUND, timeout=3000, jobs=5, required=True, concretize=['parse_sweep', '5']),
            _h.replay_hook([dict(args=['parse_sweep', '7'], what='native sweep of all strings up to 7 characters against the grammar recogniser')], tiers=('thorough',))],
     explanation=('BOUNDED CHECK, NOT A PROOF. The parser works on str (find / split_at / starts_with / char tests), which Verus cannot reason about, so no contract can be put on '
                  'from_str_radix; the stand-in is Kani/CBMC on the real function for every string up to a stated length over alphabets that contain every structural character of the numeral '
                  'grammar (digits, both signs, the point, both exponent markers, the underscore, a letter, a blank, and a two-byte UTF-8 character). Checked against a reference recogniser '
                  'written from the property statement: (1) a string is accepted exactly when it is a numeral of the grammar, (2) the scale of the result is fraction digits minus exponent, '
                  '(3) the integer parser is handed exactly the sign and digits of the numeral without the point, (4) no panic / overflow / out-of-bounds on any of these inputs '
                  '(CBMC checks every arithmetic operation, slice index and unwrap). Bounds: quick 4 characters (3 bytes with the non-ASCII alphabet), thorough 6 characters (8 over the five '
                  'structural characters, 5 bytes non-ASCII) plus a native sweep up to 7. '
                  'This found the genuine defect "a sign after the decimal point is accepted" (fixed, commit 343238e). Longer inputs, other characters, radix != 10 and parse_bytes on invalid UTF-8 '
                  'are NOT covered (the two Kani harnesses for them give no verdict within the memory available)'),
     level_text=('BOUNDED, not proved: Kani/CBMC symbolic execution of the real from_str_radix over all strings up to 4 characters (thorough: 6, and 8 over the structural characters) against a '
                 'reference recogniser of the numeral grammar (acceptance, scale, digits handed to the integer parser, absence of panics)'),
     level_note=('Bound: quick length <= 4 (3 bytes non-ASCII), thorough length <= 6 / 8 / 5; alphabet of 11 ASCII characters plus one two-byte character; BigInt::from_str_radix and fmt::format stubbed; '
                 'failed checks inside Kani\'s own kani_lib.c dealloc model are ignored as artefacts of the format stub (listed in the evidence); a failed unwinding assertion is a harness error '
                 '(exit 2), never a violation. No statement about longer strings.'),
     trusted_base=['Kani 0.68 / CBMC 6.11 and their model of the Rust standard library', 'stub of <BigInt as Num>::from_str_radix (records its argument, accepts sign + digits/underscores)',
                   'stub of alloc::fmt::format (returns an empty String; error messages are not examined)', 'reference recogniser of the numeral grammar in kani/harnesses.rs (written from the property statement)'],
     technique='bounded model checking with Kani/CBMC on the real parser (stand-in where no contract can be written; labelled bounded)')

prop('C14', units=['float', 'core', 'types', 'conv'], level='proof',
     hooks=[_h.kani_hook(['split_f32', 'split_f64'])],
     level_text=('PARTIAL (float -> decimal direction only). Verus proves on the real bodies of split_f32/f64_into_parts, parse_from_f32/f64, parse_from_f32/f64_subnormal, '
                 'try_parse_from_f32/f64, TryFrom<f32>/<f64> and FromPrimitive::from_f32/from_f64 that for EVERY bit pattern that is not NaN/infinite the resulting decimal (i, s) satisfies '
                 'i * 2^(-e) == +-m * 10^s over the integers, where (sign, e, m) are the IEEE fields of the input (hidden bit added for normal values, m = raw fraction and e = -149 / -1074 '
                 'for subnormals) -- i.e. the decimal IS the binary value, digit for digit -- that both zeros give 0, and that NaN and +-infinity are rejected (Err / None). '
                 'The decimal constants 5^149 and 5^1074 written out in the source are proved equal to the powers (generated Horner lemmas over the u32 words). '
                 'NOT decided here: the decimal -> float direction (to_f64 / to_f32: f64 multiplication, powi and the std float parser have no contract-based route), so '
                 'round-tripping and nearest-float rounding are outside this check'),
     level_note=_NOTE_COMMON + (' f32::to_bits / classify are tied to uninterpreted f32_bits / f32_category specs with the IEEE field definitions as axioms (spec/shim_base.rs); '
                                'BigUint::from_slice / pow / shifts are assumed contracts; trailing_zeros uses the vstd axiom.'),
     technique=_TECH)

prop('C15', units=['toint', 'conv', 'scale', 'core', 'pow10'], level='proof',
     level_text=('Verus proves that to_i64/to_i128/to_u64/to_u128 (on references and, through them, on values) return Some(trunc(i*10^-s)) '
                 'exactly when that integer fits the target type and None otherwise, with None for every negative decimal and unsigned target '
                 '(scale==0 fast paths per sign, the MIN special case and its closure, the re-scaling path), to_bigint = truncation, From<int>/From<&int> for all '
                 'ten integer types and From<BigInt> exact with scale 0, is_integer <=> i mod 10^s == 0'),
     level_note=_NOTE_COMMON + ' num-bigint to_i64/to_u64/... are assumed (Some iff fits). The closure of the MIN special case is wrapped in a block to carry its contract (inline annotation). From<(T,i64)> is under contract generically (the pair is taken as it is; tuple-pattern parameter rewritten, R2).',
     technique=_TECH)

prop('C19', units=['clients', 'add', 'sub', 'mul', 'derived', 'prim_add', 'prim_sub', 'prim_mul', 'core', 'scale', 'pow10', 'conv', 'canon', 'cmp'], level='proof',
     level_text=('By composition: every exact operation (add, subtract, multiply, negate, abs, double, halve, square, upward re-scaling, normalizing, cloning through '
                 'references, adding/multiplying primitive and big integers, compound assignments) is proved against a contract whose precondition is only a scale bound and '
                 'whose postcondition speaks only about the VALUE of the result (is_sum / is_diff / is_prod / same_val over i*10^-s), never about its representation; hence by '
                 'induction on program length any straight-line program ends with the value of its evaluation over the rationals, however intermediates are represented, and eq/cmp '
                 'taken along the way are the comparison of the values. In addition five client programs (mixed overloads, an accumulator with compound assignments, a zero carrying a '
                 'scale and a one written as 1.00, normalize / re-scale / double-half / double negation with ==, square and primitive forms) are verified against the callee contracts '
                 'only, which checks that the contracts do compose (scale bounds propagate). Hashes are excluded (C03 n/a); the Sum impls are not under contract'),
     level_note=_NOTE_COMMON + ' The equality routine used by is_one / == is proved in the cmp unit (C02), which the run of this property includes.',
     technique=_TECH + '; modular composition plus client programs verified against callee contracts only')

prop('C20', units=['config', 'context', 'round', 'div', 'fmt', 'roots', 'inverse'], level='proof',
     level_text=('The build-time constants are replaced by uninterpreted symbols (rewrite R9: the include!(OUT_DIR/...) items must be present), so every '
                 'proof holds for all configurations at once: Context::default() == (cfg precision, cfg mode), RoundingMode::default() == cfg mode, '
                 'round(n) == with_scale_round(n, cfg mode), the four Div impls pass cfg precision to impl_division; sqrt() / cbrt() / inverse() are their _with_context forms at Context::default(); Display (values and references) picks the exponential / dotless / full-scale routine '
                 'exactly by the configured leading- and trailing-zero thresholds and never switches when a precision is requested (the text each routine hands to pad_integral is specified under C16); the integer zero padding of the formatter gives up exactly '
                 'beyond cfg max integer padding (counting the requested fraction zeros and the point); a consumer hard-coding 100 or HalfEven or 1000 '
                 'cannot be proved equal to an arbitrary symbol'),
     level_note=_NOTE_COMMON + ' build.rs itself (a separate program that formats env strings) is assumed to emit what it parsed; exp is excluded (C13); sqrt/cbrt/inverse/Display default-context forms are added as their units are built.',
     technique=_TECH + '; configuration constants as uninterpreted symbols')

prop('C16', units=['fmt', 'insig', 'round', 'config'], level='proof',
     level_text=('Verus proves on the real bodies: round_ascii_digits (the digit string kept, times the power of ten of the digits removed beyond the rounding '
                 'position, equals round_mag of the big-endian ASCII number at that position under the mode and sign of the rounder -- carry past nines and all-nines overflow '
                 'included), the insignificant-digit data with its lazily evaluated trailing-zero flag, default_with_sign using the configured default mode (symbolic), and '
                 'the three digit formatters of the {:.N} path, each against ONE statement -- the output has exactly N fractional digits and, read without the point, is the integer '
                 'round_mag(value, dropped digits) (or the value padded with zeros when nothing is dropped): format_ascii_digits_no_integer (rounding point left of, at, or inside the stored '
                 'digits, all-nines carry to 1.000 included), format_ascii_digits_with_integer_and_fraction (carry into the integer digits included) and '
                 'zero_right_pad_integer_ascii_digits (exponent folded into zeros exactly when within the configured padding limit, else nothing changes). The same oracle round_mag decides '
                 'with_scale_round (C06), which is the agreement the property demands. The routines that assemble the text are proved as well, each against the ARGUMENTS it hands to '
                 'Formatter::pad_integral (sign flag = the decimal is not negative, empty prefix, numeral): format_full_scale (numeral = the output of the digit formatter chosen by scale / digit count / precision, '
                 'followed by "e+<exponent>" exactly when the zeros of a negative scale were not written out), format_exponential_bigendian_ascii_digits and format_exponential ({:e} {:E} {:.Ne} {:.NE} '
                 'and the Display exponent form: mantissa "d.ddd" of exactly N+1 significant digits -- all digits without precision -- which read as the value padded with zeros or as round_mag of it, '
                 'normalised after a carry out of all nines, followed by the exponent digits+exp-1), format_dotless_exponential, the Display dispatcher and the Display / LowerExp / UpperExp impls for values and references. '
                 'What std prints for "{}{:+}" / "e{:+}" of the exponent is an uninterpreted function of the format string and the arguments, and what pad_integral does with width / fill / alignment / '
                 '+ / 0 flags is an uninterpreted function of its arguments: the numeral never depends on a flag because no routine reads one (only f.precision()), which is the flag half of the property; '
                 'std\'s own padding is not verified'),
     level_note=_NOTE_COMMON + ' Vec helpers fill_slice(&mut v[..n]) and copy_within(..a, i) are replaced by shim helpers with assumed contracts (R6); String::from_utf8 / into_bytes / insert / len on ASCII, '
                'String::extend(repeat(c).take(n)) (R6) and write!(String, ..) (shadow macro) carry assumed contracts; BigUint::to_str_radix(10) is assumed to return the ndigits(n) ASCII digits of n; assumed bounds: a requested '
                'precision <= 2^60 (std limits it to 65535 since Rust 1.87), strings shorter than 2^60 bytes, the three build-time thresholds <= 2^32.',
     technique=_TECH)

prop('C18', units=['pow10', 'core', 'canon', 'scale', 'digits', 'prec'], level='proof',
     hooks=[_h.kani_hook(['a1_digit_estimate', 'diff_i64'])],
     level_text=('Verus proves field-exact postconditions for constructors, accessors and reference views (with the reference view\'s sign/magnitude '
                 'invariant as a checked type invariant), 10^pow for all three algorithms of ten_to_the_uint and every pow, digits() == exact decimal digit count '
                 '(upward correction loop from the f64 estimate, which enters as named axiom A1), exact multiplication by the '
                 'power of ten in scale extension, and normalized(): same value, no trailing zero digit, zero becomes (0,0)'),
     level_note=_NOTE_COMMON,
     technique=_TECH)
