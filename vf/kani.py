"""Kani runner: harnesses are appended to a scratch copy of /repo made on every run."""
import os
import re
import shutil
import signal
import subprocess
import time

from .gen import ROOT, REPO

SCRATCH = os.path.join(ROOT, 'build', 'kani-scratch-%d' % os.getpid())


def prepare():
    if os.path.exists(SCRATCH):
        shutil.rmtree(SCRATCH)
    os.makedirs(SCRATCH)
    for f in ('Cargo.toml', 'Cargo.lock', 'build.rs'):
        shutil.copy(os.path.join(REPO, f), SCRATCH)
    shutil.copytree(os.path.join(REPO, 'src'), os.path.join(SCRATCH, 'src'))
    lib = os.path.join(SCRATCH, 'src', 'lib.rs')
    h = open(os.path.join(ROOT, 'kani', 'harnesses.rs')).read()
    open(lib, 'a').write('\n' + h)
    # private fns of parsing.rs are exposed to the harness module through in-module wrappers (harness only)
    p = os.path.join(SCRATCH, 'src', 'parsing.rs')
    open(p, 'a').write('\n#[cfg(kani)] pub(crate) fn split_f32_for_kani(f: f32) -> (u32, i64, Sign) { split_f32_into_parts(f) }\n'
                       '#[cfg(kani)] pub(crate) fn split_f64_for_kani(f: f64) -> (u64, i64, Sign) { split_f64_into_parts(f) }\n')
    os.makedirs(os.path.join(SCRATCH, '.cargo'), exist_ok=True)
    open(os.path.join(SCRATCH, '.cargo', 'config.toml'), 'w').write('[net]\noffline = true\n')


def run_harness(name, timeout=900, mem_gb=24, stubbing=False, slot=0):
    cmd = ['prlimit', '--as=%d' % (mem_gb * 1024 ** 3), 'cargo', 'kani', '--harness', 'verif_kani::' + name, '--exact']
    if stubbing:
        cmd += ['-Z', 'stubbing']
    env = dict(os.environ, CARGO_NET_OFFLINE='true', CARGO_TARGET_DIR=os.path.join(ROOT, 'build', 'kani-target' + ('-%d' % slot if slot else '')))
    t0 = time.time()
    # own process group, so that a timeout takes the whole tree (cargo -> kani-driver -> cbmc) and nothing else
    p = subprocess.Popen(cmd, cwd=SCRATCH, env=env, stdout=subprocess.PIPE, stderr=subprocess.STDOUT, text=True, start_new_session=True)
    timed_out = False
    try:
        out, _ = p.communicate(timeout=timeout)
    except subprocess.TimeoutExpired:
        timed_out = True
        try:
            os.killpg(p.pid, signal.SIGKILL)
        except ProcessLookupError:
            pass
        out, _ = p.communicate()
    p.stdout = out
    if timed_out:
        p.returncode = 124
    out = p.stdout
    wall = time.time() - t0
    res = dict(harness=name, wall_s=round(wall, 1), rc=p.returncode, cmd=' '.join(cmd[2:]))
    m = re.search(r'VERIFICATION:- (\w+)', out)
    res['verdict'] = m.group(1) if m else ('TIMEOUT' if p.returncode == 124 else 'ERROR')
    m = re.search(r'\*\* (\d+) of (\d+) failed', out)
    if m:
        res['failed'], res['checks'] = int(m.group(1)), int(m.group(2))
    pairs = re.findall(r'Failed Checks: (.*)\n File: "([^"]*)"', out)
    # failures located in Kani's own C runtime (kani_lib.c: __rust_dealloc layout / free checks) are artefacts of stubbing
    # alloc::fmt::format with a function that returns String::new(); they say nothing about the crate and are ignored (listed)
    res['ignored_runtime_checks'] = sorted(set(d for d, f in pairs if f.endswith('kani_lib.c')))
    res['failed_checks'] = [d for d, f in pairs if not f.endswith('kani_lib.c')][:8]
    if res['verdict'] == 'FAILED' and not res['failed_checks'] and res['ignored_runtime_checks']:
        res['verdict'] = 'SUCCESSFUL'
        res['note'] = 'only Kani-runtime dealloc checks failed (stubbing artefact)'
    if res['verdict'] == 'FAILED' and not res['failed_checks'] and ('CBMC failed' in out or 'out of memory' in out or not res.get('failed')):
        # the back end gave up (memory / internal error) or reported no failed check at all: undecided, never a violation
        res['verdict'] = 'ERROR'
        res['note'] = 'back end failure without a failed check (memory / internal error)'
    if res['verdict'] == 'FAILED' and res['failed_checks'] and all('unwinding assertion' in c for c in res['failed_checks']):
        # the unwinding bound of the harness is too small for its own loops: a harness problem, never a violation
        res['verdict'] = 'ERROR'
        res['note'] = 'unwinding assertion failed (harness bound too small)'
    res['tail'] = out[-1500:]
    return res


def cleanup():
    shutil.rmtree(SCRATCH, ignore_errors=True)
