"""developer helper:  python3 -m vf.tool emit '<file> :: <locator>'   -> normalised code of an item
                       python3 -m vf.tool gen [-u unit,unit|all] [-o out.rs]
"""
import glob
import os
import sys

from . import gen
from .shimgen import generate as gen_shim

ROOT = gen.ROOT


def all_entries():
    paths = sorted(glob.glob(os.path.join(ROOT, 'contracts', '*.ctr')))
    return gen.load_contracts(paths)


def module_prologues():
    glue = open(os.path.join(ROOT, 'spec', 'glue.rs'), encoding='utf-8').read()
    pro = {'': glue}
    common = ('#[allow(unused_imports)] use crate::*;\n#[allow(unused_imports)] use crate::prelude::*;\n'
              '#[allow(unused_imports)] use crate::shim::*;\n#[allow(unused_imports)] use vstd::prelude::*;\n'
              '#[allow(unused_imports)] use vstd::arithmetic::power::*;\n#[allow(unused_imports)] use vstd::arithmetic::mul::*;\n'
              '#[allow(unused_imports)] use vstd::arithmetic::div_mod::*;\n'
              '#[allow(unused_imports)] use vstd::std_specs::cmp::*;\n#[allow(unused_imports)] use vstd::std_specs::convert::*;\n'
              '#[allow(unused_imports)] use vstd::std_specs::ops::*;\n'
              '#[allow(unused_imports)] use crate::stdlib::cmp::{self, Ordering};\n'
              '#[allow(unused_imports)] use crate::stdlib::ops::{Add, AddAssign, Div, DivAssign, Mul, MulAssign, Neg, Sub, SubAssign, Rem, RemAssign};\n'
              '#[allow(unused_imports)] use crate::stdlib::convert::TryFrom;\n'
              '#[allow(unused_imports)] use crate::num_bigint::{BigInt, BigUint, Sign};\n'
              '#[allow(unused_imports)] use crate::num_integer::Integer as IntegerTrait;\n'
              )
    pro['*'] = common
    for m in set(gen.MODULE_OF.values()):
        if m:
            extra = os.path.join(ROOT, 'spec', 'mod_%s.rs' % m.replace('::', '_'))
            imp = ''.join('#[allow(unused_imports)] use crate::%s::*;\n' % x for x in ('arithmetic', 'rounding') if x != m)
            pro[m] = common + imp + (open(extra).read() if os.path.exists(extra) else '')
    return pro


def generate(units=None, repo=None):
    entries = all_entries()
    em = gen.build(entries, units, repo=repo)
    prelude = open(os.path.join(ROOT, 'spec', 'prelude.rs'), encoding='utf-8').read()
    text, line_map = gen.render(em, prelude, gen_shim(), module_prologues())
    return text, line_map, em, entries


def main(argv):
    if argv[0] == 'emit':
        e = gen.Entry()
        f, loc = argv[1].split('::', 1)
        e.file, e.locator = f.strip(), ' :: '.join(x.strip() for x in loc.split(' :: '))
        repo = gen.Repo()
        for L in repo.locate(e)[:1]:
            log = {}
            print(gen.normalize_item(L.text, log))
            print('// rewrites:', log, ' lines', L.line_lo, L.line_hi, ' wrap:', L.wrap, file=sys.stderr)
    elif argv[0] == 'gen':
        units = None
        out = os.path.join(ROOT, 'build', 'gen.rs')
        i = 1
        while i < len(argv):
            if argv[i] == '-u':
                units = None if argv[i + 1] == 'all' else set(argv[i + 1].split(','))
                i += 2
            elif argv[i] == '-o':
                out = argv[i + 1]
                i += 2
            else:
                raise SystemExit('bad arg ' + argv[i])
        text, line_map, em, entries = generate(units)
        os.makedirs(os.path.dirname(out), exist_ok=True)
        open(out, 'w').write(text)
        print('wrote', out, len(text.split('\n')), 'lines;', len(em.chunks), 'items; rewrites', em.rewrites,
              'drift', em.drift, 'lost', em.lost)


if __name__ == '__main__':
    main(sys.argv[1:])
