"""developer helper:  python3 -m vf.tool emit '<file> :: <locator>'   -> normalised code of an item
                       python3 -m vf.tool gen [-u unit,unit|all] [-o out.rs]
"""
import glob
import os
import sys

from . import gen
from .shimgen import generate as gen_shim

ROOT = gen.ROOT


def all_entries():
    paths = sorted(glob.glob(os.path.join(ROOT, 'contracts', '*.ctr')))
    return gen.load_contracts(paths)


def module_prologues(with_clients=False):
    glue = open(os.path.join(ROOT, 'spec', 'glue.rs'), encoding='utf-8').read()
    pro = {'': glue}
    common = ('#[allow(unused_imports)] use crate::*;\n#[allow(unused_imports)] use crate::prelude::*;\n'
              '#[allow(unused_imports)] use crate::shim::*;\n#[allow(unused_imports)] use crate::vs::*;\n#[allow(unused_imports)] use crate::consts::*;\n#[allow(unused_imports)] use vstd::prelude::*;\n'
              '#[allow(unused_imports)] use vstd::arithmetic::power::*;\n#[allow(unused_imports)] use vstd::arithmetic::mul::*;\n'
              '#[allow(unused_imports)] use vstd::arithmetic::div_mod::*;\n'
              '#[allow(unused_imports)] use vstd::std_specs::cmp::*;\n#[allow(unused_imports)] use vstd::std_specs::convert::*;\n'
              '#[allow(unused_imports)] use vstd::std_specs::ops::*;\n'
              '#[allow(unused_imports)] use crate::stdlib::cmp::{self, Ordering};\n'
              '#[allow(unused_imports)] use crate::stdlib::ops::{Add, AddAssign, Div, DivAssign, Mul, MulAssign, Neg, Sub, SubAssign, Rem, RemAssign};\n'
              '#[allow(unused_imports)] use crate::stdlib::convert::TryFrom;\n'
              '#[allow(unused_imports)] use crate::num_bigint::{BigInt, BigUint, Sign};\n'
              '#[allow(unused_imports)] use crate::num_integer::Integer as IntegerTrait;\n'
              )
    pro['*'] = common
    for m in list(set(gen.MODULE_OF.values())) + (gen.EXTRA_MODULES if with_clients else []):
        if m:
            extra = os.path.join(ROOT, 'spec', 'mod_%s.rs' % m.replace('::', '_'))
            imp = ''.join('#[allow(unused_imports)] use crate::%s::*;\n' % x for x in ('arithmetic', 'rounding') if x != m)
            bc = 'broadcast use {vstd::group_vstd_default, crate::ax::axiom_ref_into_self, crate::ax::axiom_ref_into_self_obeys, crate::shim::axiom_spec_magnitude, crate::ax::val_algebra, crate::ax::axiom_fmt_req_all_ref_view};\n'
            pro[m] = common + imp + bc + (open(extra).read() if os.path.exists(extra) else '')
    return pro


def generate(units=None, repo=None, no_body_hints=(), with_clients=False, vacuity=False):
    entries = all_entries()
    em = gen.build(entries, units, repo=repo, no_body_hints=no_body_hints, extra_false_ensures=vacuity)
    prelude = open(os.path.join(ROOT, 'spec', 'prelude.rs'), encoding='utf-8').read()
    vs = open(os.path.join(ROOT, 'spec', 'vs.rs'), encoding='utf-8').read() + '\n' + open(os.path.join(ROOT, 'spec', 'consts.rs'), encoding='utf-8').read()
    text, line_map = gen.render(em, prelude, gen_shim() + '\n' + vs, module_prologues(with_clients or (units is None) or ('clients' in units)))
    return text, line_map, em, entries


def main(argv):
    if argv[0] == 'emit':
        e = gen.Entry()
        f, loc = argv[1].split('::', 1)
        e.file, e.locator = f.strip(), ' :: '.join(x.strip() for x in loc.split(' :: '))
        repo = gen.Repo()
        for L in repo.locate(e)[:1]:
            log = {}
            print(gen.normalize_item(L.text, log))
            print('// rewrites:', log, ' lines', L.line_lo, L.line_hi, ' wrap:', L.wrap, file=sys.stderr)
    elif argv[0] == 'skel':
        # skeleton contract entries for every impl / fn of a source file (or those matching a substring)
        from .items import scan_items
        from .lex import norm
        repo = gen.Repo()
        sf = repo.file(argv[1])
        pat = argv[2] if len(argv) > 2 else ''
        for it in sf.items:
            if not it.active() or it.is_test():
                continue
            keys = []
            if it.kind == 'fn':
                keys.append('fn ' + it.name)
            elif it.kind == 'impl':
                hdr = ''.join(t.text for t in sf.toks[it.first:it.body_lo]).strip()
                hdr = ' '.join(hdr.split())
                if ' for ' in hdr:
                    keys.append(hdr)
                else:
                    for sub in scan_items(sf.toks, it.body_lo + 1, it.body_hi):
                        if sub.kind == 'fn' and sub.active():
                            keys.append(hdr + ' :: fn ' + sub.name)
            for k in keys:
                if pat and pat not in k:
                    continue
                e = gen.Entry()
                e.file, e.locator = argv[1], k
                try:
                    L = repo.locate(e)[0]
                except gen.GenError as ex:
                    print('// SKIP', k, ex)
                    continue
                log = {}
                print('//@@ item %s :: %s' % (argv[1], k))
                print(gen.normalize_item(L.text, log))
                print('//@@ end\n')
    elif argv[0] == 'verify':
        # dev loop: generate + run verus + compact failure list
        from . import check
        units = None
        fn = None
        i = 1
        while i < len(argv):
            if argv[i] == '-u':
                units = None if argv[i + 1] == 'all' else set(argv[i + 1].split(','))
                i += 2
            elif argv[i] == '-f':
                fn = argv[i + 1]
                i += 2
            else:
                i += 1
        text, line_map, em, entries = generate(units)
        out = os.path.join(ROOT, 'build', 'gen.rs')
        open(out, 'w').write(text)
        extra = []
        if fn:
            extra = ['--verify-root', '--verify-function', fn] if '::' not in fn else ['--verify-module', fn.rsplit('::', 1)[0], '--verify-function', fn.rsplit('::', 1)[1]]
        r = check.run_verus(out, rlimit=30, extra=extra)
        j = r['json']
        if j is None:
            print(r['raw_err'][-6000:])
            return
        print(j['verification-results'], 'wall %.1fs' % r['wall'])
        src_lines = text.split('\n')
        for d in r['diags']:
            if d.get('level') != 'error' or d['message'].startswith('aborting'):
                continue
            sp = [x for x in d.get('spans', [])]
            prim = [x for x in sp if x.get('is_primary')] or sp
            where = ''
            meta = None
            for x in prim + sp:
                meta = check.locate(line_map, x['line_start'])
                if meta:
                    break
            key = meta['key'] if meta else '?'
            locs = '; '.join('%s:%d %s' % (x['file_name'].split('/')[-1], x['line_start'], (x.get('label') or '')) for x in sp)
            snippet = ''
            for x in prim:
                if x['file_name'].endswith('gen.rs'):
                    snippet = src_lines[x['line_start'] - 1].strip()[:160]
            print('- [%s] %s\n      %s\n      > %s' % (key, d['message'][:200], locs[:300], snippet))
    elif argv[0] == 'drift':
        # contract-file hygiene: on the tree the contracts were written for, every annotated copy must match the
        # normalised source token for token (stub=always entries with an empty body are exempt)
        entries = all_entries()
        em = gen.build(entries, None)
        bad = [f for f in em.functions if f['drift_tokens'] and not any(e.key == f['key'] and e.opts.get('stub') == 'always' for e in entries)]
        for f in bad:
            print('DRIFT', f['drift_tokens'], f['key'])
        print('%d entries, %d with drift, hints lost %d' % (len(em.functions), len(bad), em.lost))
    elif argv[0] == 'gen':
        units = None
        out = os.path.join(ROOT, 'build', 'gen.rs')
        i = 1
        while i < len(argv):
            if argv[i] == '-u':
                units = None if argv[i + 1] == 'all' else set(argv[i + 1].split(','))
                i += 2
            elif argv[i] == '-o':
                out = argv[i + 1]
                i += 2
            else:
                raise SystemExit('bad arg ' + argv[i])
        text, line_map, em, entries = generate(units)
        os.makedirs(os.path.dirname(out), exist_ok=True)
        open(out, 'w').write(text)
        print('wrote', out, len(text.split('\n')), 'lines;', len(em.chunks), 'items; rewrites', em.rewrites,
              'drift', em.drift, 'lost', em.lost)


if __name__ == '__main__':
    main(sys.argv[1:])
