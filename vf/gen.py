"""Generator: /repo source + contracts -> one Verus file.

Pipeline per contract entry:
  locate item in the current working tree  ->  copy text verbatim
  -> mechanical rewrites (rewrite table, see DESIGN 2.1)  -> "normalised code"
  -> merge annotations of the contract's annotated copy by token alignment
  -> (macro / generic instantiation)  -> emit, verified or as external_body stub
"""
import difflib
import hashlib
import os
import re

from .lex import lex, code_tokens, match_close, norm, Tok, OPEN
from .items import SourceFile, scan_items, parse_macro_rules, expand_macro, substitute

REPO = os.environ.get('VERIF_REPO', '/repo')
ROOT = os.path.dirname(os.path.dirname(os.path.abspath(__file__)))

MODULE_OF = {
    'lib.rs': '',
    'arithmetic/mod.rs': 'arithmetic',
    'arithmetic/addition.rs': 'arithmetic::addition',
    'arithmetic/sqrt.rs': 'arithmetic::sqrt',
    'arithmetic/cbrt.rs': 'arithmetic::cbrt',
    'arithmetic/inverse.rs': 'arithmetic::inverse',
    'rounding.rs': 'rounding',
    'context.rs': 'context',
    'parsing.rs': 'parsing',
    'impl_ops.rs': 'impl_ops',
    'impl_ops_add.rs': 'impl_ops_add',
    'impl_ops_sub.rs': 'impl_ops_sub',
    'impl_ops_mul.rs': 'impl_ops_mul',
    'impl_ops_div.rs': 'impl_ops_div',
    'impl_ops_rem.rs': 'impl_ops_rem',
    'impl_cmp.rs': 'impl_cmp',
    'impl_num.rs': 'impl_num',
    'impl_convert.rs': 'impl_convert',
    'impl_fmt.rs': 'impl_fmt',
}
EXTRA_MODULES = ['clients']


class GenError(Exception):
    """machinery problem (exit 2), never a violation"""


# ------------------------------------------------------------------ contracts

class Entry:
    def __init__(self):
        self.file = None
        self.locator = None
        self.unit = None
        self.inst = None        # (param, [types])
        self.opts = {}
        self.lines = []
        self.src = None         # contract file + line

    @property
    def key(self):
        return '%s :: %s' % (self.file, self.locator)


def load_contracts(paths):
    entries = []
    for p in paths:
        cur = None
        unit = None
        for ln, line in enumerate(open(p, encoding='utf-8').read().split('\n'), 1):
            s = line.strip()
            if s.startswith('//@@'):
                d = s[4:].strip()
                if d.startswith('item '):
                    cur = Entry()
                    cur.src = '%s:%d' % (os.path.relpath(p, ROOT), ln)
                    f, loc = d[5:].split('::', 1)
                    cur.file, cur.locator = f.strip(), ' :: '.join(x.strip() for x in loc.split(' :: '))
                    cur.unit = unit
                elif d.startswith('unit '):
                    if cur is None:
                        unit = d[5:].strip()
                    else:
                        cur.unit = d[5:].strip()
                elif d.startswith('inst '):
                    par, tys = d[5:].split('=', 1)
                    if cur.inst is None:
                        cur.inst = (par.strip(), [t.strip() for t in tys.split('|')])
                    else:
                        # further generic parameters: one type each, applied to every variant
                        cur.inst_extra = getattr(cur, 'inst_extra', []) + [(par.strip(), tys.strip())]
                elif d.startswith('opt '):
                    k, _, v = d[4:].partition('=')
                    cur.opts[k.strip()] = v.strip() or '1'
                elif d == 'end':
                    entries.append(cur)
                    cur = None
                else:
                    raise GenError('bad directive %s:%d: %s' % (p, ln, s))
            elif cur is not None:
                cur.lines.append(line)
    return entries


def split_annotations(lines):
    """-> (code_text, [(kind, text, char_offset)])   kind: 'in' | 'hoist'"""
    code = []
    anns = []
    off = 0
    i = 0
    while i < len(lines):
        s = lines[i].strip()
        if s in ('//@{', '//@^{'):
            kind = 'hoist' if s == '//@^{' else 'in'
            j = i + 1
            block = []
            while lines[j].strip() != '//@}':
                block.append(lines[j])
                j += 1
            anns.append((kind, '\n'.join(block), off))
            i = j + 1
        elif s.startswith('//@+ '):
            # inline insertion (closure contract wrapper, ghost iterator name): exempt from the statement-boundary rule
            anns.append(('inline', s[5:], off))
            i += 1
        elif s.startswith('//@ ') or s == '//@':
            anns.append(('in', lines[i].replace('//@', '   ', 1), off))
            i += 1
        else:
            if '//@' in lines[i]:
                # an annotation marker that does not start its line would be read as an ordinary comment and vanish
                raise GenError('annotation marker in the middle of a line (must start the line): %r' % lines[i].strip()[:120])
            code.append(lines[i])
            off += len(lines[i]) + 1
            i += 1
    return '\n'.join(code), anns


# ------------------------------------------------------------------ rewrites

# R2 / R6: idiom table.  (name, regex on normalised-space-free source text, replacement)
# Applied to the text of the item.  Every application is counted and reported.
IDIOMS = [
    # R6 iterator adaptors without a usable vstd spec -> shim helper with assumed contract
    ('R6.all_is_zero', r'([A-Za-z_][A-Za-z0-9_\.]*(?:\[[^\]\[]*\])?)\.iter\(\)\.all\(Zero::is_zero\)',
     r'shim::iter_all_is_zero(&\1)'),
    ('R6.take_while_rev_zero', r'([A-Za-z_][A-Za-z0-9_\.]*)\.iter\(\)\.rev\(\)\.take_while\(\|(\w+)\| (?:\*\*\2 == 0|0 == \*\*\2)\)\.count\(\)',
     r'shim::count_trailing_zero_digits_be(&\1)'),
    ('R6.any_nonzero', r'([A-Za-z_][A-Za-z0-9_\.]*)\.iter\(\)\.any\(\|&(\w+)\| (?:\2 != 0|0 != \2)\)',
     r'shim::iter_any_nonzero(&\1)'),
    ('R6.zip_all_eq', r'([A-Za-z_][A-Za-z0-9_]*)\.iter\(\)\.zip\(([A-Za-z_][A-Za-z0-9_]*)\.iter\(\)\)\.all\(\|\(digit_a, digit_b\)\| digit_a == digit_b\)',
     r'shim::slices_equal(&\1, &\2)'),
    # R6f: the f64 digit-count estimate `(bits as f64 / LOG2_10) as u64` -> shim helper carrying float axiom A1
    ('R6.f64_digit_estimate', r'\(([A-Za-z_][A-Za-z0-9_]*\.bits\(\)) as f64 / LOG2_10\) as u64', r'shim::f64_digit_estimate(\1)'),
    # R6f: `LOG2_10 * scale as f64` followed by `log_scale as u64` -> shim wrapper carrying float axiom A2
    ('R6.f64_log2_scale', r'let log_scale = LOG2_10 \* scale as f64;', r'let log_scale = shim::F64Log2Scale::new(scale);'),
    ('R6.f64_log2_scale_cast', r'\(log_scale as u64\)', r'(log_scale.as_u64())'),
    # R6: `it.all(Zero::is_zero)` on a reversed slice iterator that has already been advanced
    ('R6.rev_digits_iter', r'let mut (\w+) = (\w+)\.iter\(\)\.rev\(\);', r'let mut \1 = shim::RevDigits::new(&\2);'),
    ('R6.rev_iter_all_zero', r'\b([A-Za-z_][A-Za-z0-9_]*)\.all\(Zero::is_zero\)', r'\1.all_zero()'),
    # R6: ASCII digit idioms of the formatter
    ('R6.all_ascii_zero', r'([A-Za-z_][A-Za-z0-9_]*)\.iter\(\)\.all\(\|&(\w+)\| (?:\2 == b\'0\'|b\'0\' == \2)\)', r'shim::iter_all_ascii_zero(&\1)'),
    ('R6.rposition_not_nine', r'([A-Za-z_][A-Za-z0-9_]*)\.iter\(\)\.rev\(\)\.position\(\|&(\w+)\| (?:\2 != b\'9\'|b\'9\' != \2)\)', r'shim::rposition_not_nine(&\1)'),
    ('R2.split_first_ref', r'let \(&([a-z_0-9]+), ([a-z_0-9]+)\) = ([^;]*?)\.split_first\(\)\.unwrap_or\(\(&b\'0\', &\[\]\)\);',
     r'let (\1__r, \2) = shim::split_first_or_zero(\3); let \1 = *\1__r;'),
    ('R6.fill_prefix', r'fill_slice\(&mut ([A-Za-z_][A-Za-z0-9_]*)\[\.\.([^\]]+)\], b\'0\'\);', r'shim::fill_prefix(\1, \2, 48u8);'),
    ('R6.copy_within_prefix', r'([A-Za-z_][A-Za-z0-9_]*)\.copy_within\(\.\.([A-Za-z_][A-Za-z0-9_]*), ([A-Za-z_][A-Za-z0-9_]*)\);', r'shim::copy_prefix_within(\1, \2, \3);'),
    # R2 reference patterns
    ('R2.split_last_ref', r'let \(&([a-z_0-9]+), ([a-z_0-9]+)\) = ([^;]*?)\.split_last\(\)\.unwrap\(\);',
     r'let (\1__r, \2) = \3.split_last().unwrap(); let \1 = *\1__r;'),
    ('R2.match_some_ref_none', r'\(Some\(&(\w+)\), None\) => \{', r'(Some(\1__r), None) => { let \1 = *\1__r;'),
    ('R2.match_none_some_ref', r'\(None, Some\(&(\w+)\)\) => \{', r'(None, Some(\1__r)) => { let \1 = *\1__r;'),
    ('R2.closure_tuple_param', r'\|\((\w+), (\w+)\)\| (\w+\.checked_sub\(\w+\))', r'|p__| { let (\1, \2) = p__; \3 }'),
    # R6: `x.clone_from(&y)` (an allocation-reusing spelling of `x = y.clone()`, which is its documented meaning) is not supported by Verus
    ('R6.clone_from', r'\b([A-Za-z_][A-Za-z0-9_]*(?:\.[A-Za-z_][A-Za-z0-9_]*)*)\.clone_from\(&([A-Za-z_][A-Za-z0-9_]*(?:\.[A-Za-z_][A-Za-z0-9_]*)*)\);', r'\1 = \2.clone();'),
    # R2: a tuple pattern in parameter position -> named parameter + let
    ('R2.tuple_param', r'fn (\w+)\(\((\w+), (\w+)\): \(([A-Za-z_][A-Za-z0-9_]*), ([A-Za-z_][A-Za-z0-9_]*)\)\) -> Self \{', r'fn \1(p__: (\4, \5)) -> Self { let (\2, \3) = p__;'),
    # R6: clone-on-write wrapper -> owned copy (`Cow::Borrowed(x)` + `.to_mut()` is `x.clone()` + `&mut` up to allocation behaviour)
    ('R6.cow_borrowed', r'stdlib::borrow::Cow::Borrowed\(([A-Za-z_][A-Za-z0-9_]*(?:\.[A-Za-z_][A-Za-z0-9_]*)*)\)', r'\1.clone()'),
    ('R6.cow_to_mut', r'\b([A-Za-z_][A-Za-z0-9_]*)\.to_mut\(\)', r'&mut \1'),
    # R6: `s.extend(iter::repeat(c).take(n))` on a String -> shim helper (appends n copies of c)
    ('R6.extend_repeat', r'\b([A-Za-z_][A-Za-z0-9_]*)\.extend\(stdlib::iter::repeat\((\'[^\']\')\)\.take\(([^;]+)\)\);', r'shim::string_extend_repeat(&mut \1, \2, \3);'),
    # R2: a wildcard closure parameter is named (Verus accepts only variables there)
    ('R2.closure_wildcard_param', r'\|_\| ', r'|_unused| '),
    # R3 debug_assert_eq / _ne  (message dropped)
    ('R3.debug_assert_eq_carry', r'debug_assert_eq!\(carry, &0\);', r'debug_assert!(*carry == 0);'),
    ('R3.debug_assert_eq', r'debug_assert_eq!\(([^,;]+), ([^,;]+)\);', r'debug_assert!(\1 == \2);'),
    ('R3.debug_assert_ne', r'debug_assert_ne!\(([^,;]+), ([^,;]+)\);', r'debug_assert!(\1 != \2);'),
    # R4 the intended panic
    ('R4.div_by_zero', r'panic!\("Division by zero"\);', r'shim::diverge_division_by_zero();'),
]


def apply_idioms(text, log):
    for name, pat, rep in IDIOMS:
        text, n = re.subn(pat, rep, text)
        if n:
            log[name] = log.get(name, 0) + n
    return text


def strip_attrs(toks):
    """remove #[...] / #![...] groups and doc comments from a token list"""
    out = []
    i = 0
    while i < len(toks):
        t = toks[i]
        if t.kind == 'punct' and t.text == '#':
            j = i + 1
            while j < len(toks) and not toks[j].code:
                j += 1
            if j < len(toks) and toks[j].text == '!':
                j += 1
                while j < len(toks) and not toks[j].code:
                    j += 1
            if j < len(toks) and toks[j].text == '[':
                k = match_close(toks, j)
                i = k + 1
                continue
        if t.kind == 'comment' and (t.text.startswith('///') or t.text.startswith('//!')):
            i += 1
            continue
        out.append(t)
        i += 1
    return out


def _fn_parts(toks, i_fn):
    """toks[i_fn] is `fn`.  Return (paren_open, paren_close, arrow_idx or None, body_open, body_close or None)"""
    j = i_fn + 1
    # name, generics
    depth = 0
    while True:
        t = toks[j]
        if t.kind == 'punct' and t.text == '<':
            depth += 1
        elif t.kind == 'punct' and t.text == '>':
            depth -= 1
        elif t.kind == 'punct' and t.text == '(' and depth == 0:
            break
        j += 1
    po = j
    pc = match_close(toks, po)
    arrow = None
    j = pc + 1
    while j < len(toks):
        t = toks[j]
        if t.kind == 'punct' and t.text == '-' and toks[j + 1].text == '>' and arrow is None:
            arrow = j
            j += 2
            continue
        if t.kind == 'punct' and t.text in '([':
            j = match_close(toks, j) + 1
            continue
        if t.kind == 'punct' and t.text == '{':
            return po, pc, arrow, j, match_close(toks, j)
        if t.kind == 'punct' and t.text == ';':
            return po, pc, arrow, None, None
        j += 1
    raise GenError('fn without body')


def find_fns(toks):
    """indices of `fn` keyword tokens that start a function item (not fn-pointer types)"""
    res = []
    for i, t in enumerate(toks):
        if t.kind == 'ident' and t.text == 'fn':
            j = i + 1
            while j < len(toks) and not toks[j].code:
                j += 1
            if j < len(toks) and (toks[j].kind == 'ident' or toks[j].text == '$'):
                res.append(i)
    return res


def rewrite_fns(text, log, ret_name='ret'):
    """R1 (mut self) and R10 (name the return value) on every fn item in text"""
    toks = lex(text)
    edits = []  # (start, end, replacement) on char offsets
    for i_fn in find_fns(toks):
        po, pc, arrow, bo, bc = _fn_parts(toks, i_fn)
        # R1
        params = [t for t in toks[po + 1:pc] if t.code]
        if len(params) >= 2 and params[0].text == 'mut' and params[1].text == 'self' and bo is not None:
            edits.append((params[0].start, params[1].start, ''))
            edits.append((toks[bo].end, toks[bo].end, ' let mut self_ = self;'))
            for t in toks[bo + 1:bc]:
                if t.kind == 'ident' and t.text == 'self':
                    edits.append((t.start, t.end, 'self_'))
            log['R1.mut_self'] = log.get('R1.mut_self', 0) + 1
        # R11: a parameter named `int` collides with Verus' ghost type `int`
        for q in range(len(params) - 1):
            if params[q].kind == 'ident' and params[q].text == 'int' and params[q + 1].text == ':' and bo is not None:
                for t in toks[po + 1:bc]:
                    if t.kind == 'ident' and t.text == 'int':
                        edits.append((t.start, t.end, 'int_'))
                log['R11.rename_int_param'] = log.get('R11.rename_int_param', 0) + 1
                break
        # R10
        if arrow is not None:
            j = arrow + 2
            while not toks[j].code:
                j += 1
            ty_lo = toks[j].start
            # type ends before `where` / body `{` / `;`
            k = j
            end = None
            while k < len(toks):
                t = toks[k]
                if t.kind == 'punct' and t.text in '([':
                    k = match_close(toks, k) + 1
                    continue
                if (t.kind == 'ident' and t.text == 'where') or (t.kind == 'punct' and t.text in '{;'):
                    end = k
                    break
                k += 1
            e = end - 1
            while not toks[e].code:
                e -= 1
            ty_hi = toks[e].end
            edits.append((ty_lo, ty_lo, '(%s: ' % ret_name))
            edits.append((ty_hi, ty_hi, ')'))
            log['R10.named_return'] = log.get('R10.named_return', 0) + 1
    edits.sort(key=lambda e: (e[0], e[1]))
    out = []
    pos = 0
    for s, e, r in edits:
        out.append(text[pos:s])
        out.append(r)
        pos = max(pos, e)
    out.append(text[pos:])
    return ''.join(out)


def _is_fat_arrow(toks, i):
    """toks[i] is '=' immediately followed by '>' and not the tail of another operator"""
    if not (toks[i].kind == 'punct' and toks[i].text == '=' and i + 1 < len(toks)
            and toks[i + 1].kind == 'punct' and toks[i + 1].text == '>' and toks[i + 1].start == toks[i].end):
        return False
    if i > 0 and toks[i - 1].kind == 'punct' and toks[i - 1].end == toks[i].start and toks[i - 1].text in '<>=!+-*/%&|^':
        return False
    return True


def split_or_guard_arms(text, log):
    """R13: Verus rejects a match arm that has both an or-pattern and a guard.  `P1 | P2 if g => body` is rewritten to
    `P1 if g => body, P2 if g => body` (same order, same guard, same body: the or-pattern alternatives bind the same names)."""
    for _ in range(50):
        toks = lex(text)
        hit = None
        for i, t in enumerate(toks):
            if not (t.kind == 'ident' and t.text == 'if'):
                continue
            # forward: reach `=>` at depth 0 without meeting `{` or `;`
            j = i + 1
            arrow = None
            while j < len(toks):
                u = toks[j]
                if u.kind == 'punct' and u.text in '([':
                    j = match_close(toks, j) + 1
                    continue
                if u.kind == 'punct' and u.text in '{};,':
                    break
                if _is_fat_arrow(toks, j):
                    arrow = j
                    break
                j += 1
            if arrow is None:
                continue
            # backward: the pattern starts after the previous `,` `{` `}` at depth 0
            k = i - 1
            depth = 0
            bars = []
            ok = True
            while k >= 0:
                u = toks[k]
                if u.kind == 'punct':
                    if u.text in ')]':
                        depth += 1
                    elif u.text in '([':
                        if depth == 0:
                            ok = False
                            break
                        depth -= 1
                    elif depth == 0 and u.text in ',{}':
                        break
                    elif depth == 0 and u.text == ';':
                        ok = False
                        break
                    elif depth == 0 and u.text == '|':
                        bars.append(k)
                    elif depth == 0 and _is_fat_arrow(toks, k):
                        ok = False
                        break
                k -= 1
            if not ok or not bars or k < 0:
                continue
            pat_lo = k + 1
            while not toks[pat_lo].code:
                pat_lo += 1
            # body
            b = arrow + 2
            while not toks[b].code:
                b += 1
            if toks[b].kind == 'punct' and toks[b].text == '{':
                body_hi = match_close(toks, b)
                e = body_hi + 1
                while e < len(toks) and not toks[e].code:
                    e += 1
                end = e if (e < len(toks) and toks[e].text == ',') else body_hi
            else:
                e = b
                while e < len(toks):
                    u = toks[e]
                    if u.kind == 'punct' and u.text in '([{':
                        e = match_close(toks, e) + 1
                        continue
                    if u.kind == 'punct' and u.text in ',}':
                        break
                    e += 1
                body_hi = e - 1
                while not toks[body_hi].code:
                    body_hi -= 1
                end = e if toks[e].text == ',' else body_hi
            hit = (pat_lo, sorted(bars), i, arrow, b, body_hi, end)
            break
        if hit is None:
            return text
        pat_lo, bars, i_if, arrow, b, body_hi, end = hit
        cuts = [toks[pat_lo].start] + [toks[x].end for x in bars]
        ends = [toks[x].start for x in bars] + [toks[i_if].start]
        alts = [text[a:z].strip() for a, z in zip(cuts, ends)]
        alts = [a for a in alts if a]
        guard = text[toks[i_if].start:toks[arrow].start].strip()
        body = text[toks[b].start:toks[body_hi].end]
        indent = text[text.rfind('\n', 0, toks[pat_lo].start) + 1:toks[pat_lo].start]
        indent = indent if indent.strip() == '' else ''
        arms = (',\n' + indent).join('%s %s => %s' % (a, guard, body) for a in alts)
        tail_comma = ',' if toks[end].text == ',' else ''
        text = text[:toks[pat_lo].start] + arms + tail_comma + text[toks[end].end:]
        log['R13.or_pattern_guard'] = log.get('R13.or_pattern_guard', 0) + 1
    return text


def normalize_item(text, log):
    toks = strip_attrs(lex(text))
    text = ''.join(t.text for t in toks)
    text = apply_idioms(text, log)
    text = split_or_guard_arms(text, log)
    text = rewrite_fns(text, log)
    return text


# ------------------------------------------------------------------ merge

_RUST_KEYWORDS = set('as break const continue crate else enum extern false fn for if impl in let loop match mod move mut pub ref return self Self static struct super trait true type unsafe use where while async await dyn'.split())


def _consistent_renames(old, new):
    """identifier renamings implied by equal-length `replace` blocks of the token alignment: {old_name: new_name},
    kept only if the mapping is one-to-one, the old name is gone from the new text and the new name is fresh"""
    sm = difflib.SequenceMatcher(a=[t.text for t in old], b=[t.text for t in new], autojunk=False)
    cand = {}
    bad = set()
    for tag, i1, i2, j1, j2 in sm.get_opcodes():
        if tag != 'replace' or (i2 - i1) != (j2 - j1):
            continue
        for k in range(i2 - i1):
            a, b = old[i1 + k], new[j1 + k]
            if a.text == b.text:
                continue
            if a.kind == 'ident' and b.kind == 'ident' and a.text not in _RUST_KEYWORDS and b.text not in _RUST_KEYWORDS:
                if cand.setdefault(a.text, b.text) != b.text:
                    bad.add(a.text)
    # (an identifier after `.` is a field or method, not an occurrence of a local of that name: `frac.trailing_zeros()`)
    def _is_name(toks, idx):
        return toks[idx].kind == 'ident' and not (idx > 0 and toks[idx - 1].text == '.')
    old_names = set(t.text for k, t in enumerate(old) if _is_name(old, k))
    new_names = set(t.text for k, t in enumerate(new) if _is_name(new, k))
    # second source of candidates: a LOCAL name (bound by `let`, a closure bar or a pattern) that vanished, paired with a name
    # that appeared, when both occur equally often and in the same relative order of first occurrence
    def _counts(toks):
        c, first = {}, {}
        for idx, t in enumerate(toks):
            if _is_name(toks, idx):
                c[t.text] = c.get(t.text, 0) + 1
                first.setdefault(t.text, idx)
        return c, first
    oc, ofirst = _counts(old)
    nc, nfirst = _counts(new)
    def _bound_locally(toks, name):
        for idx, t in enumerate(toks):
            if t.kind == 'ident' and t.text == name and idx > 0:
                p1 = toks[idx - 1].text
                p2 = toks[idx - 2].text if idx > 1 else ''
                if p1 in ('let', '|', '(', ',') or (p1 == 'mut' and p2 in ('let', '|', '(', ',')):
                    return True
        return False
    vanished = sorted([a for a in oc if a not in nc and a not in _RUST_KEYWORDS and _bound_locally(old, a)], key=lambda a: ofirst[a])
    appeared = sorted([b for b in nc if b not in oc and b not in _RUST_KEYWORDS and _bound_locally(new, b)], key=lambda b: nfirst[b])
    used = set(cand.values())
    for a in vanished:
        if a in cand:
            continue
        opts = [b for b in appeared if b not in used and nc[b] == oc[a]]
        if len(opts) == 1:
            cand[a] = opts[0]
            used.add(opts[0])
        elif len(opts) > 1:
            # several equally frequent new names: take the one whose position among the appeared names matches
            ra = vanished.index(a)
            best = min(opts, key=lambda b: abs(appeared.index(b) - ra))
            cand[a] = best
            used.add(best)
    out = {}
    targets = {}
    for a, b in cand.items():
        if a in bad or a in new_names or b in old_names:
            continue
        targets.setdefault(b, []).append(a)
        out[a] = b
    for b, srcs in targets.items():
        if len(srcs) > 1:
            for a in srcs:
                out.pop(a, None)
    return out


def _declared_ghosts(txt):
    """names declared at the top level of a hint (`let ghost x`, `let x` inside a statement-level hint)"""
    # only declarations at brace depth 0 of the hint are visible to later hints (a `let` inside `proof { }` is local to it)
    out = set()
    depth = 0
    for m in re.finditer(r'[{}]|\blet\s+(?:ghost\s+)?(?:mut\s+)?([A-Za-z_][A-Za-z0-9_]*)', txt):
        tok = m.group(0)
        if tok == '{':
            depth += 1
        elif tok == '}':
            depth -= 1
        elif depth == 0 and m.group(1):
            out.add(m.group(1))
    return out


def merge(annotated_code, anns, new_code, body_hints=True):
    """place annotations (given relative to annotated_code) into new_code"""
    old = [t for t in lex(annotated_code) if t.code]
    new_all = lex(new_code)
    new = [t for t in new_all if t.code]
    # A consistently renamed identifier (every occurrence of `a` became `b`, `b` is new, `a` is gone) is a harmless edit:
    # the annotations follow the renaming instead of being dropped for naming a variable that no longer exists.
    ren = _consistent_renames(old, new)
    if ren:
        pat = re.compile(r'(?<![.\w:])(%s)\b(?!\s*::)' % '|'.join(re.escape(k) for k in ren))
        anns = [(k, pat.sub(lambda m: ren[m.group(1)], txt), off) for (k, txt, off) in anns]
    sm = difflib.SequenceMatcher(a=[ren.get(t.text, t.text) if t.kind == 'ident' else t.text for t in old],
                                 b=[t.text for t in new], autojunk=False)
    o2n = {}
    drift = 0
    for tag, i1, i2, j1, j2 in sm.get_opcodes():
        if tag == 'equal':
            for k in range(i2 - i1):
                o2n[i1 + k] = j1 + k
        else:
            drift += max(i2 - i1, j2 - j1)
    starts = [t.start for t in old]
    # scoped renames: a local renamed in ONE scope only (the same name lives on elsewhere in the function) is not a global
    # renaming.  Positional images of identifiers inside replace blocks whose differing pairs are all identifier->identifier give,
    # for every old occurrence, the name it has now; an annotation then uses, for each local it mentions, the current name of the
    # nearest occurrence before it.
    pos_name = {}
    def _lives_on(nm, k):
        """the identifier nm occurs in the new text after position k, before the end of the enclosing block"""
        depth = 0
        q = k + 1
        while q < len(new):
            tx = new[q].text
            if tx in ('(', '[', '{'):
                depth += 1
            elif tx in (')', ']', '}'):
                depth -= 1
                if depth < 0:
                    return False
            elif new[q].kind == 'ident' and tx == nm and new[q - 1].text != '.':
                return True
            q += 1
        return False
    for tag, i1, i2, j1, j2 in sm.get_opcodes():
        if tag == 'replace' and (i2 - i1) == (j2 - j1):
            pairs = [(old[i1 + q], new[j1 + q]) for q in range(i2 - i1)]
            if all(a.text == b.text or (a.kind == 'ident' and b.kind == 'ident' and a.text not in _RUST_KEYWORDS and b.text not in _RUST_KEYWORDS)
                   for a, b in pairs):
                for q, (a, b) in enumerate(pairs):
                    # (not a renaming if the old name lives on in the same block: a statement split in two, `let e = a + b - 1` ->
                    # `let d = a; let e = b + d - 1`, aligns `e` with `d`)
                    if a.text != b.text and not _lives_on(a.text, j1 + q):
                        pos_name[i1 + q] = b.text
    # bindings: `let [mut] a` whose `let` keyword is aligned with a `let [mut] b` of the new text gives a -> b at that binding,
    # whatever else changed in the statement
    old_names_all = set(t.text for t in old if t.kind == 'ident')
    def _binding_name(toks, k_let):
        q = k_let + 1
        if q < len(toks) and toks[q].text == 'mut':
            q += 1
        if q < len(toks) and toks[q].kind == 'ident' and toks[q].text not in _RUST_KEYWORDS:
            return q
        return None
    def _bind_pass():
      for k_let, t in enumerate(old):
        if t.kind == 'ident' and t.text in ('let', 'for') and k_let in o2n:
            ko = _binding_name(old, k_let)
            kn = _binding_name(new, o2n[k_let])
            if ko is not None and kn is not None and old[ko].text != new[kn].text and ren.get(old[ko].text, old[ko].text) != new[kn].text:
                # the two statements must be recognisably the same statement (an inserted `let` can get aligned with an old one)
                def _stmt(toks, k):
                    out_ = []
                    depth = 0
                    q = k + 1
                    while q < len(toks) and len(out_) < 60:
                        tx = toks[q].text
                        if tx in '([{':
                            depth += 1
                        elif tx in ')]}':
                            depth -= 1
                        if (tx == ';' and depth <= 0) or depth < 0:
                            break
                        out_.append(tx)
                        q += 1
                    return out_
                so, sn = _stmt(old, ko), _stmt(new, kn)
                names = set([old[ko].text, new[kn].text]) | set(ren) | set(ren.values()) | set(pos_name.values())
                so2 = [x for x in so if x not in names]
                sn2 = [x for x in sn if x not in names]
                if new[kn].text not in old_names_all and not _lives_on(old[ko].text, kn) \
                        and difflib.SequenceMatcher(a=sorted(so2), b=sorted(sn2), autojunk=False).ratio() >= 0.75:
                    pos_name[ko] = new[kn].text
    _bind_pass()
    old_ident_pos = {}
    for idx, t in enumerate(old):
        if t.kind == 'ident':
            old_ident_pos.setdefault(t.text, []).append(idx)
    new_ident_names = set(t.text for t in new if t.kind == 'ident')

    def _scoped_rename(txt, anchor):
        if not pos_name:
            return txt
        def sub(m):
            name = m.group(0)
            occ = old_ident_pos.get(ren_inv.get(name, name)) or old_ident_pos.get(name)
            if not occ:
                return name
            before = [k for k in occ if k < anchor]
            # the nearest occurrence before the annotation whose current name is known decides (normally the binding itself);
            # an unchanged occurrence in between (same scope, same name) means the name is still valid
            for k in reversed(before):
                if k in pos_name:
                    return pos_name[k]
                if k in o2n:
                    return new[o2n[k]].text if new[o2n[k]].kind == 'ident' else name
            return name
        return re.sub(r'(?<![.\w:])[A-Za-z_][A-Za-z0-9_]*\b(?!\s*::)', sub, txt)
    ren_inv = {v: k for k, v in ren.items()}
    # moved blocks: statements that were reordered, or the two branches of an inverted `if`, show up as a delete in one place
    # and an insert in another.  An annotation whose anchor token fell into such a block is re-anchored if the next few tokens
    # after the anchor occur exactly once among the not-yet-matched tokens of the new text.
    import bisect as _bisect
    def _cur_name(k):
        """current name of the old identifier occurrence k (global rename, else nearest preceding binding with a known new name)"""
        nm = old[k].text
        if nm in ren:
            return ren[nm]
        for kk in reversed([x for x in old_ident_pos.get(nm, []) if x <= k]):
            if kk in pos_name:
                return pos_name[kk]
            if kk in o2n and kk != k:
                return new[o2n[kk]].text if new[o2n[kk]].kind == 'ident' else nm
        return nm
    old_txt = [(_cur_name(k) if t.kind == 'ident' else t.text) for k, t in enumerate(old)]
    new_txt = [t.text for t in new]
    mapped_new = set(o2n.values())
    for kind_, txt_, off_ in anns:
        if kind_ == 'hoist':
            continue
        i0 = _bisect.bisect_left(starts, off_)
        if i0 < len(old) and old[i0].text == '}' and i0 >= 5 and (i0 - 1) not in o2n:
            # hint at the end of a block: recover the image of the statement BEFORE it (see the placement rule below)
            for W in (10, 7, 5):
                if i0 - W < 0:
                    continue
                win = old_txt[i0 - W:i0]
                hits = [j for j in range(len(new) - W + 1)
                        if new_txt[j] == win[0] and new_txt[j:j + W] == win and not any((j + q) in mapped_new for q in range(W))]
                if len(hits) == 1:
                    for q in range(W):
                        if (i0 - W + q) not in o2n:
                            o2n[i0 - W + q] = hits[0] + q
                            mapped_new.add(hits[0] + q)
                    break
        if i0 in o2n or i0 >= len(old):
            continue
        for W in (10, 7, 5):
            if i0 + W > len(old):
                continue
            win = old_txt[i0:i0 + W]
            hits = [j for j in range(len(new) - W + 1)
                    if new_txt[j] == win[0] and new_txt[j:j + W] == win and not any((j + q) in mapped_new for q in range(W))]
            if len(hits) == 1:
                j = hits[0]
                q = 0
                # extend the match as far as the texts agree
                while i0 + q < len(old) and j + q < len(new) and (i0 + q) not in o2n and (j + q) not in mapped_new and old_txt[i0 + q] == new_txt[j + q]:
                    o2n[i0 + q] = j + q
                    mapped_new.add(j + q)
                    q += 1
                break
    _bind_pass()
    # old token index of each annotation
    placed = {}   # new token index -> [text]
    lost_names = set()
    lost_clauses = []
    hoisted = []
    lost = 0
    import bisect
    for kind, txt, off in anns:
        if kind == 'hoist':
            hoisted.append(txt)
            continue
        i = bisect.bisect_left(starts, off)
        txt = _scoped_rename(txt, i)
        stmt_hint = kind != 'inline' and not _is_clause(txt) and not re.match(r'^\s*\w+:\s*$', txt)
        cands = []
        if stmt_hint and i < len(old) and old[i].text == '}':
            # a hint at the very end of a block whose header (`None => {`, `if x < 10 {`, `Some(n) => {`) names exactly one block
            # of the old and of the new text goes to the end of that block, whatever happened to the statements inside it or to
            # the order of the blocks (exchanged match arms / if branches with rewritten bodies)
            nb = _block_by_header(old_txt, new_txt, _open_of(old_txt, i))
            if nb is not None:
                ne = _close_of(new_txt, nb)
                if ne is not None and _at_stmt_boundary(new, ne):
                    cands.append(ne)
        if stmt_hint and i > 0 and i < len(old) and old[i - 1].text == '{':
            nb = _block_by_header(old_txt, new_txt, i - 1)
            if nb is not None:
                cands.append(nb + 1)
        if i < len(old) and old[i].text == '}' and (i - 1) in o2n and stmt_hint:
            # a hint at the very end of a block belongs to the statement before it, not to whatever follows the closing brace
            # (the two branches of an `if` may have been exchanged)
            cands.append(o2n[i - 1] + 1)
        if i in o2n:
            cands.append(o2n[i])
        if i > 0 and old[i - 1].text == '{' and (i - 1) in o2n and stmt_hint:
            # a hint at the very start of a block whose first statement changed stays at the start of that block
            cands.append(o2n[i - 1] + 1)
        if i == len(old):
            cands.append(len(new))
        if (i - 1) in o2n:
            cands.append(o2n[i - 1] + 1)
        blk = None
        if stmt_hint and i <= len(old):
            # block identity: a hint written inside `Ordering::Greater => {` / `if x < 10 {` / `None => {` stays inside the block
            # with that header (if exactly one block of the old and of the new text has it); candidates elsewhere are images of
            # look-alike statements in another arm / branch
            ob_ = _open_of(old_txt, i)
            nb_ = _block_by_header(old_txt, new_txt, ob_)
            if nb_ is not None:
                ne_ = _close_of(new_txt, nb_)
                oe_ = _close_of(old_txt, ob_)
                if ne_ is not None and oe_ is not None:
                    blk = (ob_, oe_, nb_, ne_)
                    cands = [c for c in cands if nb_ < c <= ne_ and _open_of(new_txt, c) == nb_]
        cands0 = list(cands)
        if stmt_hint and cands and drift:
            # ... and (in changed code) only where every local it names exists already: a candidate that is the image of a
            # statement FOLLOWING the hint may have moved up, above the statements the hint talks about
            need_ = _need_pos(old, new, txt, _cur_name, blk)
            if need_ is not None:
                cands = [c for c in cands if _decl_done(new, need_, c)]
        if stmt_hint:
            # a statement-level hint goes to the first candidate that is a statement boundary of the new text
            good = [c for c in cands if _at_stmt_boundary(new, c)]
            cands = good[:1] if good else cands[:1]
        if cands:
            j = cands[0]
        else:
            # nearest matched predecessor
            k = i - 1
            while k >= 0 and k not in o2n:
                k -= 1
            j = (o2n[k] + 1) if k >= 0 else 0
            wj = _window_place(old, new, o2n, i, j, txt, _cur_name, blk) if stmt_hint else None
            if wj is None and stmt_hint and cands0:
                # the name test is a heuristic: rather an unfiltered candidate than no position at all
                good0 = [c for c in cands0 if _at_stmt_boundary(new, c)]
                wj = good0[0] if good0 else None
            if wj is not None and not body_hints:
                lost += 1
                continue
            if wj is not None:
                # the statements around the hint were rewritten (split, merged, permuted): it goes to the first statement boundary
                # between the images of the nearest unchanged neighbours, in the same block, at which every local it names exists
                placed.setdefault(wj, []).append(txt)
                continue
            lost += 1
            if kind != 'inline' and not _is_clause(txt):
                # a proof hint whose anchor statement changed is dropped rather than placed approximately (a misplaced
                # assertion could fail for no semantic reason); clauses are still placed or reported below
                lost_names.update(_declared_ghosts(txt))
                continue
        if not body_hints and not _is_signature_level(new, j, txt):
            lost += 1
            continue
        if kind == 'inline':
            if i not in o2n and not ((i - 1) in o2n):
                lost += 1
                continue
            placed.setdefault(j, []).append(txt)
            continue
        if not _is_clause(txt) and not re.match(r'^\s*\w+:\s*$', txt) and not _at_stmt_boundary(new, j):
            # the statement this hint was attached to has changed shape: a statement-level ghost block can only
            # go between statements; drop it (hint lost) rather than produce unparsable text
            lost += 1
            lost_names.update(_declared_ghosts(txt))
            continue
        if lost_names and not _is_clause(txt) and any(re.search(r'(?<![.\w])%s\b' % re.escape(nm), txt) for nm in lost_names):
            # this hint uses a ghost variable declared by a hint that was dropped: it cannot compile, drop it too
            lost += 1
            lost_names.update(_declared_ghosts(txt))
            continue
        if _is_clause(txt) and not _clause_context_ok(new, j):
            # e.g. a loop invariant whose `while` became an `if`: the hint cannot be placed; drop it
            lost += 1
            lost_clauses.append(txt.strip().split('\n')[0][:80])
            continue
        placed.setdefault(j, []).append(txt)
    out = []
    ci = 0
    for t in new_all:
        if t.code:
            if ci in placed:
                out.append('\n' + '\n'.join(placed[ci]) + '\n')
            ci += 1
        out.append(t.text)
    if len(new) in placed:
        out.append('\n' + '\n'.join(placed[len(new)]) + '\n')
    merge.last_lost_clauses = lost_clauses
    return ''.join(out), hoisted, drift, lost


def _is_clause(txt):
    lines = [l for l in txt.split('\n') if l.strip() and not l.strip().startswith('//')]
    w = lines[0].strip().split(None, 1) if lines else []
    return bool(w) and w[0] in ('invariant', 'invariant_except_break', 'decreases', 'ensures', 'requires', 'recommends')


def _is_signature_level(new, j, txt):
    """requires/ensures/decreases on a fn header, or an item-level annotation (spec fn / impl block inside or
    before an impl): position is outside every fn body"""
    # inside a fn body <=> some enclosing `{` belongs to a fn (header contains `fn`)
    depth = 0
    k = j - 1
    while k >= 0:
        t = new[k]
        if t.kind == 'punct' and t.text in ')]}':
            depth += 1
        elif t.kind == 'punct' and t.text in '([{':
            if depth == 0:
                if t.text == '{':
                    # header of this block
                    h = k - 1
                    d2 = 0
                    words = []
                    while h >= 0:
                        u = new[h]
                        if u.kind == 'punct' and u.text in ')]}':
                            d2 += 1
                        elif u.kind == 'punct' and u.text in '([{':
                            if d2 == 0:
                                break
                            d2 -= 1
                        elif u.kind == 'punct' and u.text == ';' and d2 == 0:
                            break
                        elif d2 == 0:
                            words.append(u.text)
                        h -= 1
                    if 'fn' in words:
                        return False
                else:
                    return False   # inside parentheses / brackets
            else:
                depth -= 1
        k -= 1
    return True


def _open_of(txt, i):
    """index of the `{` of the block that encloses token position i (i itself may be its `}`)"""
    depth = 0
    k = i - 1
    while k >= 0:
        if txt[k] in (')', ']', '}'):
            depth += 1
        elif txt[k] in ('(', '[', '{'):
            if depth == 0:
                return k if txt[k] == '{' else None
            depth -= 1
        k -= 1
    return None


def _close_of(txt, ob):
    depth = 0
    for k in range(ob, len(txt)):
        if txt[k] in ('(', '[', '{'):
            depth += 1
        elif txt[k] in (')', ']', '}'):
            depth -= 1
            if depth == 0:
                return k if txt[k] == '}' else None
    return None


def _header_sig(txt, ob):
    """the tokens between the previous statement / arm boundary and the `{` at ob (at most 14)"""
    out = []
    depth = 0
    k = ob - 1
    while k >= 0 and len(out) < 14:
        t = txt[k]
        if t in (')', ']', '}'):
            if t == '}' and depth == 0:
                break
            depth += 1
        elif t in ('(', '[', '{'):
            if depth == 0:
                break
            depth -= 1
        elif t in (';', ',') and depth == 0:
            break
        out.append(t)
        k -= 1
    return tuple(reversed(out))


def _block_by_header(old_txt, new_txt, ob):
    if ob is None:
        return None
    sig = _header_sig(old_txt, ob)
    if len(sig) < 2:
        return None
    n_old = sum(1 for k, t in enumerate(old_txt) if t == '{' and _header_sig(old_txt, k) == sig)
    hits = [k for k, t in enumerate(new_txt) if t == '{' and _header_sig(new_txt, k) == sig]
    if n_old == 1 and len(hits) == 1:
        return hits[0]
    return None


def _window_place(old, new, o2n, i, lo, txt, cur_name, block=None):
    """placement of a statement-level hint whose anchor (old token i) and predecessor were both rewritten; see the call site.
    Proof hints only assert / call lemmas, so a position cannot make a false claim pass; the window keeps them between the same
    unchanged neighbours, the name test keeps the text compilable."""
    # neighbours: the nearest old tokens before / after the hint that are matched as part of a run of three consecutive
    # tokens (a single matched `=` or `let` inside rewritten statements says nothing about position)
    def run(k, step):
        return all((k + step * q) in o2n and o2n[k + step * q] == o2n[k] + step * q for q in range(3))
    if block is None:
        k1 = i - 1
        while k1 >= 2 and not run(k1, -1):
            k1 -= 1
        lo = (o2n[k1] + 1) if k1 >= 2 else lo
        k2 = i
        while k2 + 2 < len(old) and not (run(k2, 1) and o2n[k2] >= lo):
            k2 += 1
        hi = o2n[k2] if k2 + 2 < len(old) else len(new)
    else:
        # the hint stays inside the block it was written in (ob..oe of the old text, nb..ne of the new text): only neighbours
        # of the old block whose images lie in the new block count
        ob, oe, nb, ne = block
        k1 = i - 1
        while k1 - 2 > ob and not (run(k1, -1) and nb < o2n[k1] - 2 and o2n[k1] < ne):
            k1 -= 1
        lo = (o2n[k1] + 1) if k1 - 2 > ob else nb + 1
        k2 = i
        while k2 + 2 < oe and not (run(k2, 1) and nb < o2n[k2] and o2n[k2] + 2 < ne and o2n[k2] >= lo):
            k2 += 1
        hi = o2n[k2] if k2 + 2 < oe else ne
    # the run may end inside the first tokens of a statement (`let` of a rewritten binding): back to the start of that statement
    while lo > 0 and not _at_stmt_boundary(new, lo) and new[lo - 1].text not in '([{)]}':
        lo -= 1
    if lo > hi:
        return None
    need = _need_pos(old, new, txt, cur_name, block)
    if need is None:
        return None
    depth = 0
    for pos in range(lo, hi + 1):
        if pos > lo:
            t = new[pos - 1]
            if t.kind == 'punct' and t.text in '([{':
                depth += 1
            elif t.kind == 'punct' and t.text in ')]}':
                depth -= 1
                if depth < 0:
                    return None
        if depth == 0 and _at_stmt_boundary(new, pos) and _decl_done(new, need, pos):
            return pos
    return None


def _decl_done(new, need, pos):
    """`need` is the declaration site of the last local a hint names (or the start of the body): the hint must come after the
    END of the statement that contains it"""
    if pos < need:
        return False
    if need > 0 and new[need - 1].text == '{':
        return True
    depth = 0
    q = need
    while q < len(new):
        tt = new[q].text
        if tt in ('(', '[', '{'):
            depth += 1
        elif tt in (')', ']', '}'):
            depth -= 1
            if depth < 0:
                break
        elif tt == ';' and depth == 0:
            break
        q += 1
    return pos > q


def _need_pos(old, new, txt, cur_name, block):
    """position in the new text after which every exec local named by the hint exists (None: one of them is gone)"""
    # exec locals named by the hint: identifiers of the old body (not callee / path / field names), under their current names
    old_idents = {}
    for k, t in enumerate(old):
        if t.kind == 'ident' and t.text not in old_idents:
            nxt = old[k + 1].text if k + 1 < len(old) else ''
            prv = old[k - 1].text if k > 0 else ''
            if nxt in ('(', '::', '!') or prv in ('.', '::'):
                continue
            old_idents[t.text] = k
    refs = set()
    for m in re.finditer(r'(?<![.\w:])([A-Za-z_][A-Za-z0-9_]*)\b(?!\s*(?:\(|::|!))', txt):
        nm = m.group(1)
        if nm in _RUST_KEYWORDS or re.match(r'^(?:[iu](?:8|16|32|64|128|size)|f32|f64|bool|char|str|int|nat|Some|None|Ok|Err)$', nm):
            continue
        if nm in old_idents:
            refs.add(cur_name(old_idents[nm]) if nm not in ('self',) else nm)
    first = {}
    for q, t in enumerate(new):
        if t.kind == 'ident' and t.text not in first:
            first[t.text] = q
    need = 0
    for nm in refs:
        if nm == 'self':
            continue
        if nm not in first:
            return None
        decl = first[nm]
        if block is not None:
            # a binding of that name inside the block takes precedence over an earlier homonym
            for q in range(block[2] + 1, block[3]):
                if new[q].kind == 'ident' and new[q].text == nm and new[q - 1].text in ('let', 'mut'):
                    decl = q
                    break
        need = max(need, decl)
    # names bound in the signature (or none at all): everything from the start of the body on qualifies
    body_open = 0
    pd = 0
    for q, t in enumerate(new):
        if t.kind == 'punct' and t.text in '([':
            pd += 1
        elif t.kind == 'punct' and t.text in ')]':
            pd -= 1
        elif t.kind == 'punct' and t.text == '{' and pd == 0:
            body_open = q
            break
    if need <= body_open:
        need = body_open + 1
    return need


def _at_stmt_boundary(new, j):
    if j <= 0 or j > len(new):
        return True
    prev = new[j - 1]
    if prev.kind == 'punct' and prev.text in (';', '{', '}', ','):
        return True
    # after a match arm arrow `=>` (hint at the start of an arm expression is not supported) -> no
    return False


def _clause_context_ok(new, j):
    """a clause annotation goes right before the `{` of a loop body or of a fn body (or before `where`):
    check that the header it is attached to is still a loop / fn header"""
    if j >= len(new):
        return False
    if new[j].text not in ('{', 'where'):
        # e.g. `it:` style insertions are not clauses; anything else is misplaced
        return False
    k = j - 1
    depth = 0
    while k >= 0:
        t = new[k]
        if t.kind == 'punct' and t.text == '}' and depth == 0:
            break   # end of the previous block statement: a loop / fn header contains no block at depth 0
        if t.kind == 'punct' and t.text in ')]}':
            depth += 1
        elif t.kind == 'punct' and t.text in '([{':
            if depth == 0:
                break
            depth -= 1
        elif t.kind == 'punct' and t.text == ';' and depth == 0:
            break
        k -= 1
    first = new[k + 1:j]
    words = [t.text for t in first[:6]]
    if not words:
        return False
    if words[0] in ('while', 'loop', 'for'):
        return True
    if 'fn' in words:
        return True
    # labelled loops:  'outer: loop
    if len(words) >= 3 and first[0].kind == 'lifetime' and words[2] in ('while', 'loop', 'for'):
        return True
    return False


# ------------------------------------------------------------------ stubbing

def stub_bodies(text):
    """replace every fn body by unimplemented!() and mark external_body; drop body annotations"""
    toks = lex(text)
    edits = []
    skip_until = -1
    for i_fn in find_fns(toks):
        if toks[i_fn].start < skip_until:
            continue   # nested fn inside a replaced body
        po, pc, arrow, bo, bc = _fn_parts(toks, i_fn)
        if bo is None:
            continue
        # the attribute goes before visibility qualifiers
        k = i_fn
        quals = []
        j = i_fn - 1
        while j >= 0:
            t = toks[j]
            if not t.code:
                j -= 1
                continue
            if t.text in ('pub', 'crate', '(', ')', 'const', 'unsafe', 'super', 'in', 'open', 'closed', 'spec', 'proof', 'broadcast', 'uninterp'):
                k = j
                quals.append(t.text)
                j -= 1
                continue
            break
        if 'spec' in quals or 'proof' in quals:
            continue
        edits.append((toks[k].start, toks[k].start, '#[verifier::external_body] '))
        edits.append((toks[bo].start, toks[bc].end, '{ unimplemented!() }'))
        skip_until = toks[bc].end
    edits.sort(key=lambda e: (e[0], e[1]))
    out = []
    pos = 0
    for s, e, r in edits:
        out.append(text[pos:s])
        out.append(r)
        pos = max(pos, e)
    out.append(text[pos:])
    return ''.join(out)


def inject_vacuity_probe(text):
    """insert `proof { assert(false); }` right after the opening brace of every exec fn body (vacuity guard): each of
    these assertions MUST fail; one that verifies means the function's precondition / an assumption is contradictory"""
    toks = lex(text)
    edits = []
    skip_until = -1
    for i_fn in find_fns(toks):
        if toks[i_fn].start < skip_until:
            continue
        # skip spec / proof fns
        j = i_fn - 1
        quals = []
        while j >= 0:
            t = toks[j]
            if not t.code:
                j -= 1
                continue
            if t.text in ('pub', 'crate', '(', ')', 'const', 'unsafe', 'super', 'in', 'open', 'closed', 'spec', 'proof', 'broadcast', 'uninterp'):
                quals.append(t.text)
                j -= 1
                continue
            break
        if 'spec' in quals or 'proof' in quals:
            continue
        try:
            po, pc, arrow, bo, bc = _fn_parts(toks, i_fn)
        except Exception:
            continue
        if bo is None:
            continue
        edits.append(toks[bo].end)
        skip_until = toks[bc].end
    out = []
    pos = 0
    for e in sorted(edits):
        out.append(text[pos:e])
        out.append(' proof { assert(false); } ')
        pos = e
    out.append(text[pos:])
    return ''.join(out), len(edits)


def allow_no_decreases(text):
    toks = lex(text)
    edits = []
    for i_fn in find_fns(toks):
        k = i_fn
        j = i_fn - 1
        quals = []
        while j >= 0:
            t = toks[j]
            if not t.code:
                j -= 1
                continue
            if t.text in ('pub', 'crate', '(', ')', 'const', 'unsafe', 'super', 'in', 'open', 'closed', 'spec', 'proof', 'broadcast', 'uninterp'):
                k = j
                quals.append(t.text)
                j -= 1
                continue
            break
        if 'spec' in quals or 'proof' in quals:
            continue
        edits.append(toks[k].start)
    out = []
    pos = 0
    for e in sorted(edits):
        out.append(text[pos:e])
        out.append('#[verifier::exec_allows_no_decreases_clause] ')
        pos = e
    out.append(text[pos:])
    return ''.join(out)


# ------------------------------------------------------------------ instantiation (R5)

def instantiate_generic(text, param, ty):
    """remove generic parameter `param` (with its bound, in <...> or in a where clause) from every
    impl/fn header in text, and replace the identifier everywhere by ty"""
    toks = lex(text)
    code = [t for t in toks if t.code]
    edits = []
    for i, t0 in enumerate(code):
        if not (t0.kind == 'ident' and t0.text in ('impl', 'fn')):
            continue
        g = i + 1
        if t0.text == 'fn':
            g = i + 2
        if g >= len(code) or code[g].text != '<':
            continue
        depth = 0
        j = g
        parts = []
        cur = None
        ok = True
        while j < len(code):
            t = code[j]
            if t.text == '<':
                depth += 1
                if depth == 1:
                    cur = j + 1
            elif t.text == '>' and code[j - 1].text != '-':
                depth -= 1
                if depth == 0:
                    parts.append((cur, j))
                    break
            elif t.text == ',' and depth == 1:
                parts.append((cur, j))
                cur = j + 1
            elif t.text in '{;':
                ok = False
                break
            j += 1
        if not ok or not any(a < b and code[a].text == param for a, b in parts):
            continue
        keep = [text[code[a].start:code[b - 1].end] for a, b in parts if a < b and code[a].text != param]
        new_gen = ('<' + ', '.join(keep) + '>') if keep else ''
        edits.append((code[g].start, code[j].end, new_gen))
    # where clause predicates on the parameter
    for m in re.finditer(r'\bwhere\s+' + param + r'\s*:[^{;]*?(?=\{|\brequires\b|\bensures\b|\bdecreases\b|\brecommends\b)', text):
        edits.append((m.start(), m.end(), ''))
    edits.sort()
    out = []
    pos = 0
    for s_, e_, r in edits:
        if s_ < pos:
            continue
        out.append(text[pos:s_])
        out.append(r)
        pos = e_
    out.append(text[pos:])
    before = text
    text = ''.join(out)
    # instantiation must never swallow a contract clause (it once removed an `ensures` together with a where clause)
    for kw in ('requires', 'ensures', 'invariant', 'decreases'):
        if len(re.findall(r'\b%s\b' % kw, before)) != len(re.findall(r'\b%s\b' % kw, text)):
            raise GenError('instantiation of %s dropped a `%s` clause' % (param, kw))
    toks = lex(text)
    return ''.join((ty if (t.kind == 'ident' and t.text == param) else t.text) for t in toks)


# ------------------------------------------------------------------ locating

class Located:
    def __init__(self, text, file, line_lo, line_hi, wrap=None, bindings=None, label=''):
        self.text = text            # verbatim source text of the item (attrs stripped later)
        self.file, self.line_lo, self.line_hi = file, line_lo, line_hi
        self.wrap = wrap            # impl header text for inherent fns
        self.bindings = bindings or {}
        self.label = label
        self.sha = hashlib.sha256(text.encode()).hexdigest()


class Repo:
    def __init__(self, root=REPO):
        self.root = root
        self.files = {}

    def file(self, rel):
        if rel not in self.files:
            p = os.path.join(self.root, 'src', rel)
            if not os.path.exists(p):
                raise GenError('source file missing: ' + p)
            self.files[rel] = SourceFile(p, rel)
        return self.files[rel]

    def _active(self, items):
        return [it for it in items if it.active() and not it.is_test()]

    def _impl_text(self, sf, imp, drop=()):
        """impl block text with inactive cfg alternatives removed"""
        subs = scan_items(sf.toks, imp.body_lo + 1, imp.body_hi)
        head = ''.join(t.text for t in sf.toks[imp.first:imp.body_lo + 1])
        parts = [head]
        for s in subs:
            if s.kind == 'fn' and s.name in drop:
                continue
            if s.active() and not s.is_test():
                parts.append('\n    ' + s.text(with_attrs=False))
        parts.append('\n}')
        return ''.join(parts)

    def locate(self, entry):
        sf = self.file(entry.file)
        loc = [x.strip() for x in entry.locator.split(' :: ')]
        items = self._active(sf.items)

        def find_impls(items, header):
            h = norm(header)
            return [it for it in items if it.kind == 'impl' and norm(it.name) == h]

        def ln(it):
            return sf.line_of(it.first), sf.line_of(it.hi - 1)

        if loc[0].startswith('fn '):
            name = loc[0][3:].strip()
            c = [it for it in items if it.kind == 'fn' and it.name == name]
            if len(c) != 1:
                raise GenError('%s: expected one fn %s, found %d' % (entry.key, name, len(c)))
            a, b = ln(c[0])
            return [Located(c[0].text(), entry.file, a, b)]
        if loc[0].startswith('include '):
            # R9: an `include!(concat!(env!("OUT_DIR"), "/<name>"))` of build.rs output; the item must exist,
            # its text is replaced by the symbolic definition given in the contract entry
            name = loc[0][8:].strip()
            c = [it for it in items if it.kind == 'macro_call' and it.name == 'include' and name in it.text()]
            if len(c) != 1:
                raise GenError('%s: expected one include of %s, found %d' % (entry.key, name, len(c)))
            a, b = ln(c[0])
            L = Located('', entry.file, a, b)
            L.sha = hashlib.sha256(c[0].text().encode()).hexdigest()
            return [L]
        if loc[0].startswith(('struct ', 'enum ')):
            kind, name = loc[0].split()
            c = [it for it in items if it.kind == kind and it.name == name]
            if len(c) != 1:
                raise GenError('%s: expected one %s, found %d' % (entry.key, loc[0], len(c)))
            a, b = ln(c[0])
            return [Located(c[0].text(), entry.file, a, b)]
        if re.match(r'^impl\b', loc[0]):
            nth = None
            hdr = loc[0]
            m = re.match(r'^(.*)#(\d+)$', hdr)
            if m:
                hdr, nth = m.group(1).strip(), int(m.group(2))
            c = find_impls(items, hdr)
            if len(loc) == 1:
                if nth is not None:
                    c = c[nth:nth + 1]
                if len(c) != 1:
                    raise GenError('%s: expected one impl, found %d' % (entry.key, len(c)))
                a, b = ln(c[0])
                drop = tuple(x.strip() for x in entry.opts.get('drop_fns', '').split(',') if x.strip())
                return [Located(self._impl_text(sf, c[0], drop), entry.file, a, b)]
            assert loc[1].startswith('fn ')
            name = loc[1][3:].strip()
            found = []
            for imp in c:
                for s in self._active(scan_items(sf.toks, imp.body_lo + 1, imp.body_hi)):
                    if s.kind == 'fn' and s.name == name:
                        found.append((imp, s))
            if len(found) != 1:
                raise GenError('%s: expected one fn, found %d' % (entry.key, len(found)))
            imp, s = found[0]
            a, b = ln(s)
            hdr_text = ''.join(t.text for t in sf.toks[imp.first:imp.body_lo]).strip()
            return [Located(s.text(), entry.file, a, b, wrap=hdr_text)]
        if loc[0].startswith('macro '):
            # macro NAME arm K :: impl HEADER
            m = re.match(r'^macro (\w+)(?:@(\S+))? arm (\d+)$', loc[0])
            name, def_file, arm_k = m.group(1), m.group(2), int(m.group(3))
            def_items = self._active(self.file(def_file).items) if def_file else items
            mr = [it for it in def_items if it.kind == 'macro_rules' and it.name == name]
            if len(mr) != 1:
                raise GenError('%s: macro_rules %s not found' % (entry.key, name))
            arms = parse_macro_rules(mr[0])
            if arm_k >= len(arms):
                raise GenError('%s: macro arm %d missing' % (entry.key, arm_k))
            arm = arms[arm_k]
            # template impl inside the arm
            sub = scan_items(arm.body, 0, len(arm.body))
            hdr = loc[1]
            nth = 0
            mm = re.match(r'^(.*)#(\d+)$', hdr)
            if mm:
                hdr, nth = mm.group(1).strip(), int(mm.group(2))
            c = [it for it in sub if it.kind == 'impl' and norm(it.name) == norm(hdr)]
            if len(c) <= nth:
                raise GenError('%s: impl not found in macro arm' % entry.key)
            imp = c[nth]
            subs = scan_items(arm.body, imp.body_lo + 1, imp.body_hi)
            head = ''.join(t.text for t in arm.body[imp.first:imp.body_lo + 1])
            parts = [head]
            for s in subs:
                if s.active():
                    parts.append('\n    ' + s.text(with_attrs=False))
            parts.append('\n}')
            templ = ''.join(parts)
            dsf = self.file(def_file) if def_file else sf
            a = dsf.src.count('\n', 0, arm.body[imp.first].start) + 1
            b = dsf.src.count('\n', 0, arm.body[imp.hi - 1].start) + 1
            # invocations
            res = []
            for call in [it for it in items if it.kind == 'macro_call' and it.name == name]:
                args = [t for t in sf.toks[call.body_lo + 1:call.body_hi] if t.code]
                for idx, b_, body in expand_macro(arms, args, name):
                    if idx == arm_k:
                        lab = ','.join('%s=%s' % (k, ''.join(t.text for t in v)) for k, v in b_.items())
                        if lab in [x.strip() for x in entry.opts.get('skip', '').split('|')]:
                            continue   # listed in the evidence as not under contract
                        res.append(Located(templ, def_file or entry.file, a, b, bindings=b_, label=lab))
            if not res:
                raise GenError('%s: no invocation reaches this macro arm' % entry.key)
            return res
        raise GenError('bad locator ' + entry.key)


# ------------------------------------------------------------------ emission

class Emitted:
    def __init__(self):
        self.chunks = []      # (module, text, meta)
        self.functions = []   # evidence records
        self.rewrites = {}
        self.drift = 0
        self.lost = 0


def build(entries, verify_units, repo=None, extra_false_ensures=False, no_body_hints=()):
    repo = repo or Repo()
    em = Emitted()
    for e in entries:
        verify = (verify_units is None or e.unit in verify_units) and e.opts.get('stub') != 'always'
        code, anns = split_annotations(e.lines)
        located = repo.locate(e)
        first = True
        for L in located:
            log = {}
            new_code = normalize_item(L.text, log)
            if e.opts.get('vis'):
                # R12: `pub fn` methods of a pub(crate) type: Verus rejects contracts naming fields of a less visible type;
                # the visibility keyword is lowered to that of the type (no effect on the code)
                new_code, nvis = re.subn(r'^(\s*)pub fn\b', r'\1%s fn' % e.opts['vis'], new_code, count=1)
                if nvis:
                    log['R12.method_visibility'] = log.get('R12.method_visibility', 0) + 1
            if e.opts.get('rename'):
                # a second, differently named copy of the same item (e.g. a safety-only contract next to an assumed functional one)
                old_name, new_name = e.opts['rename'].split('->')
                new_code = re.sub(r'\bfn\s+%s\b' % re.escape(old_name.strip()), 'fn ' + new_name.strip(), new_code, count=1)
            merged, hoisted, drift, lost = merge(code, anns, new_code)
            if lost and drift == 0:
                raise GenError('%s: %d annotation(s) cannot be placed although the code is unchanged (contract file error)' % (e.key, lost))
            if lost and any(c.split()[0] in ('requires', 'ensures') for c in merge.last_lost_clauses):
                # a contract clause (not a proof hint) lost its anchor: never verify silently without it
                raise GenError('%s: contract clause lost its anchor after a source change: %s' % (e.key, merge.last_lost_clauses))
            if drift and e.key in no_body_hints:
                # on retry: the changed item did not compile with the hints that could still be placed (a kept hint
                # depends on a ghost variable of a lost one): all body-level hints of this item are dropped;
                # contracts (fn-level clauses) stay
                merged, hoisted, drift, lost = merge(code, anns, new_code, body_hints=False)
                lost = max(lost, 1)
            if lost:
                # loops lost their decreases clauses with the hints: termination of this item is then not checked
                merged = allow_no_decreases(merged)
            variants = [(merged, hoisted, '')]
            if e.inst:
                par, tys = e.inst
                variants = [(instantiate_generic(merged, par, ty),
                             [re.sub(r'\b%s\b' % par, ty, h) for h in hoisted], '[%s=%s]' % (par, ty))
                            for ty in tys]
            for par2, ty2 in getattr(e, 'inst_extra', []):
                variants = [(instantiate_generic(t, par2, ty2), [re.sub(r'\b%s\b' % par2, ty2, h) for h in hs], vl)
                            for t, hs, vl in variants]
            for text, hoist, vlabel in variants:
                if L.bindings:
                    text = substitute(text, L.bindings)
                    hoist = [substitute(h, L.bindings) for h in hoist]
                if not verify:
                    text = stub_bodies(text)
                elif extra_false_ensures and not e.locator.startswith(('struct', 'enum', 'include')):
                    text, nprobe = inject_vacuity_probe(text)
                    em.vacuity_probes = getattr(em, 'vacuity_probes', 0) + nprobe
                if L.wrap:
                    w = L.wrap
                    if e.inst:
                        w = instantiate_generic(w + ' {}', e.inst[0], vlabel[len(e.inst[0]) + 2:-1])[:-2].strip()
                    text = w + ' {\n' + text + '\n}'
                full = ''.join(h + '\n' for h in hoist) + text + '\n'
                label = e.key + (' {%s}' % L.label if L.label else '') + vlabel
                em.chunks.append((MODULE_OF[e.file], full, dict(
                    key=label, entry=e.key, unit=e.unit, file=L.file, lines=(L.line_lo, L.line_hi),
                    verified=verify, contract=e.src)))
            if first:
                for k, v in log.items():
                    em.rewrites[k] = em.rewrites.get(k, 0) + v
                em.drift += drift
                em.lost += lost
                em.functions.append(dict(key=e.key, unit=e.unit, file='src/' + L.file,
                                         lines=[L.line_lo, L.line_hi], sha256=L.sha, rewrites=sorted(log),
                                         instances=len(located) * (len(e.inst[1]) if e.inst else 1),
                                         verified=verify, drift_tokens=drift))
                first = False
    return em


def render(em, prelude_text, shim_text, module_prologue):
    """-> (file text, line map [(line_lo, line_hi, meta)])"""
    out = []
    line_map = []

    def cur_line():
        return sum(s.count('\n') for s in out) + 1

    out.append('// GENERATED by /verif/vf/gen.py from the working tree of /repo -- do not edit\n')
    out.append('#![allow(unused_imports, unused_variables, unused_mut, dead_code, unused_parens, non_snake_case, unreachable_code, unused_assignments)]\n')
    out.append(prelude_text)
    out.append('\n')
    out.append(shim_text)
    out.append('\nverus! {\n')
    # module tree
    tree = {}
    for mod, text, meta in em.chunks:
        tree.setdefault(mod, []).append((text, meta))

    def emit_mod(path, indent):
        for text, meta in tree.get(path, []):
            lo = cur_line()
            out.append(text)
            line_map.append((lo, cur_line() - 1, meta))
        allmods = set(tree) | set(MODULE_OF.values()) | set(m for m in EXTRA_MODULES if m in module_prologue)
        if path:
            children = sorted(m for m in allmods if m and '::' in m and m.rsplit('::', 1)[0] == path)
        else:
            children = sorted(m for m in allmods if m and '::' not in m)
        for ch in children:
            name = ch.rsplit('::', 1)[-1]
            out.append('pub mod %s {\n' % name)
            out.append(module_prologue.get(ch, module_prologue.get('*', '')) + '\n')
            emit_mod(ch, indent + 1)
            out.append('} // mod %s\n' % name)

    out.append(module_prologue.get('', '') + '\n')
    emit_mod('', 0)
    out.append('\n} // verus!\nfn main() {}\n')
    return ''.join(out), line_map
