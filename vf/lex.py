"""Minimal Rust lexer: enough to be safe against braces/quotes inside strings,
chars and comments, and to give a token stream for alignment.

Token = (kind, text, start, end); kinds: ws, comment, ident, lifetime, num,
str, char, punct.  The concatenation of all token texts is the input.
"""
import re

IDENT = re.compile(r'[A-Za-z_][A-Za-z0-9_]*')
NUM = re.compile(r'[0-9][0-9A-Za-z_]*(?:\.[0-9][0-9A-Za-z_]*)?')
WS = re.compile(r'\s+')


class Tok:
    __slots__ = ('kind', 'text', 'start', 'end')

    def __init__(self, kind, text, start, end):
        self.kind, self.text, self.start, self.end = kind, text, start, end

    def __repr__(self):
        return 'Tok(%s,%r)' % (self.kind, self.text)

    @property
    def code(self):
        return self.kind not in ('ws', 'comment')


def lex(src):
    toks = []
    i, n = 0, len(src)
    while i < n:
        c = src[i]
        if c.isspace():
            m = WS.match(src, i)
            toks.append(Tok('ws', m.group(), i, m.end()))
            i = m.end()
        elif src.startswith('//', i):
            j = src.find('\n', i)
            j = n if j < 0 else j
            toks.append(Tok('comment', src[i:j], i, j))
            i = j
        elif src.startswith('/*', i):
            depth, j = 1, i + 2
            while j < n and depth:
                if src.startswith('/*', j):
                    depth += 1
                    j += 2
                elif src.startswith('*/', j):
                    depth -= 1
                    j += 2
                else:
                    j += 1
            toks.append(Tok('comment', src[i:j], i, j))
            i = j
        elif c == '"' or (c == 'b' and src.startswith('b"', i)):
            j = i + (2 if c == 'b' else 1)
            while j < n and src[j] != '"':
                j += 2 if src[j] == '\\' else 1
            j += 1
            toks.append(Tok('str', src[i:j], i, j))
            i = j
        elif c == 'r' and re.match(r'r#*"', src[i:i + 12]) or (c == 'b' and re.match(r'br#*"', src[i:i + 12])):
            m = re.match(r'b?r(#*)"', src[i:])
            close = '"' + m.group(1)
            j = src.find(close, i + m.end())
            j = n if j < 0 else j + len(close)
            toks.append(Tok('str', src[i:j], i, j))
            i = j
        elif c == "'" or (c == 'b' and src.startswith("b'", i)):
            k = i + (1 if c == 'b' else 0)
            # lifetime or char literal
            m = re.match(r"'([A-Za-z_][A-Za-z0-9_]*)(?!')", src[k:]) if c == "'" else None
            if m:
                j = k + m.end()
                toks.append(Tok('lifetime', src[i:j], i, j))
                i = j
            else:
                j = k + 1
                while j < n and src[j] != "'":
                    j += 2 if src[j] == '\\' else 1
                j += 1
                toks.append(Tok('char', src[i:j], i, j))
                i = j
        elif c.isalpha() or c == '_':
            m = IDENT.match(src, i)
            toks.append(Tok('ident', m.group(), i, m.end()))
            i = m.end()
        elif c.isdigit():
            m = NUM.match(src, i)
            e = m.end()
            # "1..count": do not swallow a range operator; "0.5" is fine
            txt = m.group()
            toks.append(Tok('num', txt, i, e))
            i = e
        else:
            toks.append(Tok('punct', c, i, i + 1))
            i += 1
    return toks


def code_tokens(src):
    return [t for t in lex(src) if t.code]


OPEN = {'(': ')', '[': ']', '{': '}'}
CLOSE = {')': '(', ']': '[', '}': '{'}


def match_close(toks, i):
    """toks[i] is an opening bracket token; return index of its closing token."""
    assert toks[i].text in OPEN, toks[i]
    depth = 0
    for j in range(i, len(toks)):
        t = toks[j]
        if t.kind == 'punct':
            if t.text in OPEN:
                depth += 1
            elif t.text in CLOSE:
                depth -= 1
                if depth == 0:
                    return j
    raise ValueError('unbalanced bracket at %d' % toks[i].start)


def norm(text):
    """canonical single-space rendering of the code tokens of text"""
    return ' '.join(t.text for t in code_tokens(text))
