"""final reporting: evidence file, replay files, VIOLATION lines"""
import hashlib
import json
import os
import time

from . import gen
from .check import write_evidence, REPLAYS

TRUSTED_BASE = [
    'num-bigint 0.4 / num-traits / num-integer: assumed contracts in spec/shim_base.rs + vf/shimgen.py (external_body)',
    'std: assume_specification items in spec/shim_base.rs (slice::split_last, cmp::max, Ordering::reverse, u64::pow, ...) and vstd\'s own std specs',
    'R6 iterator-adaptor helpers (shim::iter_all_is_zero etc.) stand for the std adaptor chains they replace',
    'size assumption: big integers have fewer than 2^60 digits/bits (digit_count as i64 etc.)',
    'extractor vf/gen.py: verbatim copy + rewrite table R1..R10 (DESIGN 2.1); macro expansion of the crate\'s single-fragment macros',
    'Verus 0.2026.09.13 / Z3; rustc front end',
]


def finish(pid, P, tier, seed, ev, reported, known, t0):
    cov = ev['coverage']
    cov.setdefault('trusted_base', P.get('trusted_base') or (TRUSTED_BASE + P.get('trusted_extra', [])))
    if 'obligations' in cov:
        fns = cov.get('functions_under_contract', [])
        cov['samples'] = [f['key'] + '  (' + f['src'] + ')' for f in fns[:6]] or ['(no function-level samples)']
    ev['assumptions'] = list(cov['trusted_base']) + P.get('assumptions', [])
    if cov.get('contracts_assumed_here_proved_elsewhere'):
        ev['assumptions'].append('%d callee contracts outside this property\'s units are assumed here and proved in their own unit (listed in coverage)'
                                 % len(cov['contracts_assumed_here_proved_elsewhere']))
    ev['violations'] = len(reported)
    ev['wall_s'] = round(time.time() - t0, 2)
    if P.get('level', 'proof') != 'proof':
        ev['level'] = P['level']
        cov.setdefault('explanation', P.get('explanation', ''))
    write_evidence(pid, ev)
    if not reported:
        print('OK property=%s tier=%s obligations=%s discharged=%s wall=%.1fs' % (
            pid, tier, cov.get('obligations'), cov.get('discharged'), ev['wall_s']))
        return 0
    os.makedirs(REPLAYS, exist_ok=True)
    for f in reported:
        h = hashlib.sha256((pid + f['obligation']).encode()).hexdigest()[:12]
        path = os.path.join(REPLAYS, '%s-%s.json' % (pid, h))
        rec = dict(property=pid, failed_obligation=f['obligation'], kind=f.get('kind'),
                   repo_file=f.get('repo_file'), repo_lines=f.get('repo_lines'),
                   verifier_message=f.get('message'), verifier_output=f.get('rendered'),
                   failing_input=f.get('failing_input'), replay=f.get('replay'), instances=f.get('instances'))
        json.dump(rec, open(path, 'w'), indent=1)
        tail = '' if f.get('failing_input') else ' no-failing-input-found'
        print('VIOLATION property=%s replay=%s%s' % (pid, path, tail))
        print('  obligation: %s  %s' % (f['obligation'], (f.get('repo_file') or '') + (':%s-%s' % tuple(f['repo_lines']) if f.get('repo_lines') else '')))
    return 1
