"""writes MANIFEST.json from vf/props.py (single source of truth)"""
import json
import os

from . import props
from .gen import ROOT


def main():
    checks = []
    for pid in sorted(props.PROPS):
        P = props.PROPS[pid]
        checks.append(dict(
            property_id=pid,
            quick_cmd='./check %s --tier quick' % pid,
            thorough_cmd='./check %s --tier thorough' % pid,
            evidence_file='/verif/evidence/%s.json' % pid,
            replay_cmd_template='./check %s --replay {path}' % pid,
            engine=P.get('engine', 'verus-contracts'),
            level_claimed=dict(category=P.get('level', 'proof'), text=P['level_text'], design_ref=P.get('design_ref', 'DESIGN.md section 4 / ' + pid)),
            level_note=P['level_note'],
            technique=P['technique'],
        ))
    m = dict(
        version=1,
        setup_cmd='./setup.sh',
        hooks=dict(
            guard='none: the machinery needs no instrumentation in /repo (functions are re-extracted as text on every run); the only commits to /repo are fix: commits',
            enable='n/a (no hooks); checks read /repo/src and build /repo as a path dependency of /verif/replay',
            baseline_off_cmd='cd /repo && cargo test --workspace --no-fail-fast --offline',
            source_commits=props.FIX_COMMITS,
            add_only=True,
        ),
        engines=[
            dict(name='verus-contracts', path='/verif/vf', serves_properties=sorted(p for p in props.PROPS if props.PROPS[p].get('units')),
                 kind_free_text='Verus 0.2026.09.13 on functions re-extracted mechanically from /repo/src on every run (vf/gen.py), contracts in /verif/contracts/*.ctr, assumed num-bigint/std contracts in /verif/spec'),
            dict(name='kani-leaf', path='/verif/kani', serves_properties=sorted(p for p in props.PROPS if props.PROPS[p].get('kani') or props.PROPS[p].get('engine') == 'kani-leaf' or p in ('C01', 'C02', 'C06', 'C07', 'C08', 'C14', 'C18')),
                 kind_free_text='Kani 0.68 / CBMC 6.11: complete proofs of loop-free machine-integer leaf functions, float-axiom checks on a stated domain, bounded stand-ins (labelled bounded)'),
        ],
        checks=checks,
        notes=props.NOTES,
        not_applicable=[dict(property_id=k, reason=v) for k, v in sorted(props.NOT_APPLICABLE.items())],
    )
    json.dump(m, open(os.path.join(ROOT, 'MANIFEST.json'), 'w'), indent=1)
    print('MANIFEST.json: %d checks, %d not applicable' % (len(checks), len(m['not_applicable'])))


if __name__ == '__main__':
    main()
