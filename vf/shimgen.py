"""Generates spec/shim.rs: ASSUMED contracts for num-bigint / num-traits / num-integer / std.

Everything in the generated module is trusted (external_body / assume_specification);
it is listed as such in every evidence file.  The hand-written part is spec/shim_base.rs,
the repetitive operator impls are produced here from a table.
"""
import os

ROOT = os.path.dirname(os.path.dirname(os.path.abspath(__file__)))

UPRIMS = ['u8', 'u16', 'u32', 'u64', 'u128', 'usize']
IPRIMS = ['i8', 'i16', 'i32', 'i64', 'i128', 'isize']
PRIMS = UPRIMS + IPRIMS

TRAIT = {'+': ('Add', 'add'), '-': ('Sub', 'sub'), '*': ('Mul', 'mul'), '/': ('Div', 'div'), '%': ('Rem', 'rem')}


def val(ty, name):
    if ty in PRIMS:
        return '(%s as int)' % name
    if ty.lstrip('&').strip() in PRIMS:
        return '(*%s as int)' % name
    if 'BigUint' in ty:
        return '(%s@ as int)' % name
    return '%s@' % name


def result_expr(op, a, b, unsigned):
    if op == '+':
        return '%s + %s' % (a, b), None
    if op == '-':
        if unsigned:
            return '%s - %s' % (a, b), '%s >= %s' % (a, b)
        return '%s - %s' % (a, b), None
    if op == '*':
        return '%s * %s' % (a, b), None
    if op == '/':
        return ('%s / %s' % (a, b) if unsigned else 'tdiv(%s, %s)' % (a, b)), '%s != 0' % b
    if op == '%':
        return ('%s %% %s' % (a, b) if unsigned else 'trem(%s, %s)' % (a, b)), '%s != 0' % b


def lt(ty):
    """add a lifetime-free impl generics prefix for reference types"""
    return ty


def binop(op, lhs, rhs, out, unsigned):
    tr, m = TRAIT[op]
    e, guard = result_expr(op, val(lhs, 'self'), val(rhs, 'rhs'), unsigned)
    ens = ('(ret@ as int) == %s' if unsigned else 'ret@ == %s') % e
    if guard:
        # the real operator panics (diverges) when the guard is false: returning implies the guard
        ens = '%s, %s' % (guard, ens)
    gen = ''
    l, r = lhs, rhs
    n = 0
    if l.startswith('&'):
        l = "&'a " + l[1:]
        n += 1
    if r.startswith('&'):
        r = "&'b " + r[1:]
        n += 1
    lts = []
    if "'a" in l:
        lts.append("'a")
    if "'b" in r:
        lts.append("'b")
    gen = '<%s>' % ', '.join(lts) if lts else ''
    return '''impl%(gen)s vstd::std_specs::ops::%(tr)sSpecImpl<%(r)s> for %(l)s {
    open spec fn obeys_%(m)s_spec() -> bool { false }
    open spec fn %(m)s_req(self, rhs: %(r)s) -> bool { true }
    open spec fn %(m)s_spec(self, rhs: %(r)s) -> %(out)s { arbitrary() }
}
impl%(gen)s core::ops::%(tr)s<%(r)s> for %(l)s {
    type Output = %(out)s;
    #[verifier::external_body]
    fn %(m)s(self, rhs: %(r)s) -> (ret: %(out)s) ensures %(ens)s { unimplemented!() }
}
''' % dict(gen=gen, tr=tr, m=m, r=r, l=l, out=out, ens=ens)


def assignop(op, lhs, rhs, unsigned):
    tr, m = TRAIT[op]
    e, guard = result_expr(op, '(old(self)@ as int)' if unsigned else 'old(self)@', val(rhs, 'rhs'), unsigned)
    ens = ('(final(self)@ as int) == %s' if unsigned else 'final(self)@ == %s') % e
    if guard:
        ens = '%s, %s' % (guard, ens)
    r = rhs
    gen = ''
    if r.startswith('&'):
        r = "&'b " + r[1:]
        gen = "<'b>"
    return '''impl%(gen)s vstd::std_specs::ops::%(tr)sAssignSpecImpl<%(r)s> for %(l)s {
    open spec fn obeys_%(m)s_assign_spec() -> bool { false }
    open spec fn %(m)s_assign_req(&self, rhs: %(r)s) -> bool { true }
    open spec fn %(m)s_assign_spec(&self, rhs: %(r)s) -> &%(l)s { arbitrary() }
}
impl%(gen)s core::ops::%(tr)sAssign<%(r)s> for %(l)s {
    #[verifier::external_body]
    fn %(m)s_assign(&mut self, rhs: %(r)s) ensures %(ens)s { unimplemented!() }
}
''' % dict(gen=gen, tr=tr, m=m, r=r, l=lhs, ens=ens)


def gen_ops():
    out = []
    # BigInt x BigInt, all ownership combinations
    for op in '+-*/%':
        for l in ('BigInt', '&BigInt'):
            for r in ('BigInt', '&BigInt'):
                out.append(binop(op, l, r, 'BigInt', False))
        for r in ('BigInt', '&BigInt'):
            out.append(assignop(op, 'BigInt', r, False))
        # BigInt x primitive (num-bigint implements every primitive on either side, owned and borrowed BigInt)
        for p in PRIMS:
            for l in ('BigInt', '&BigInt'):
                out.append(binop(op, l, p, 'BigInt', False))
                out.append(binop(op, p, l, 'BigInt', False))
            out.append(assignop(op, 'BigInt', p, False))
    for op in '+-*/%':
        for l in ('BigUint', '&BigUint'):
            for r in ('BigUint', '&BigUint'):
                out.append(binop(op, l, r, 'BigUint', True))
        for r in ('BigUint', '&BigUint'):
            out.append(assignop(op, 'BigUint', r, True))
        for p in UPRIMS:
            for l in ('BigUint', '&BigUint'):
                out.append(binop(op, l, p, 'BigUint', True))
                out.append(binop(op, p, l, 'BigUint', True))
            out.append(assignop(op, 'BigUint', p, True))
    return ''.join(out)


def gen_from():
    out = []
    for p in PRIMS:
        out.append('''impl vstd::std_specs::convert::FromSpecImpl<%(p)s> for BigInt {
    open spec fn obeys_from_spec() -> bool { false }
    open spec fn from_spec(v: %(p)s) -> Self { arbitrary() }
}
impl core::convert::From<%(p)s> for BigInt {
    #[verifier::external_body]
    fn from(v: %(p)s) -> (ret: BigInt) ensures ret@ == v as int { unimplemented!() }
}
''' % dict(p=p))
    for p in UPRIMS:
        out.append('''impl vstd::std_specs::convert::FromSpecImpl<%(p)s> for BigUint {
    open spec fn obeys_from_spec() -> bool { false }
    open spec fn from_spec(v: %(p)s) -> Self { arbitrary() }
}
impl core::convert::From<%(p)s> for BigUint {
    #[verifier::external_body]
    fn from(v: %(p)s) -> (ret: BigUint) ensures ret@ == v as int { unimplemented!() }
}
''' % dict(p=p))
    return ''.join(out)


def gen_prim_traits():
    """num_traits Zero / One / CheckedNeg / ToPrimitive(to_u64,to_i64,to_usize) on primitives"""
    out = []
    for p in PRIMS:
        signed = p in IPRIMS
        out.append('''impl Zero for %(p)s {
    open spec fn is_zero_spec(&self) -> bool { *self == 0 }
    #[verifier::external_body] fn zero() -> (ret: Self) { unimplemented!() }
    #[verifier::external_body] fn is_zero(&self) -> (ret: bool) { unimplemented!() }
}
impl One for %(p)s {
    open spec fn is_one_spec(&self) -> bool { *self == 1 }
    #[verifier::external_body] fn one() -> (ret: Self) { unimplemented!() }
    #[verifier::external_body] fn is_one(&self) -> (ret: bool) { unimplemented!() }
}
impl PrimInt for %(p)s {
    open spec fn pv(&self) -> int { *self as int }
}
impl<'a> PrimInt for &'a %(p)s {
    open spec fn pv(&self) -> int { **self as int }
}
impl ToPrimitive for %(p)s {
    open spec fn tp_val(&self) -> int { *self as int }
    open spec fn tp_unsigned_ok(&self) -> bool { true }
    open spec fn tp_req(&self) -> bool { true }
    #[verifier::external_body] fn to_i64(&self) -> (ret: Option<i64>) { unimplemented!() }
    #[verifier::external_body] fn to_u64(&self) -> (ret: Option<u64>) { unimplemented!() }
    #[verifier::external_body] fn to_i128(&self) -> (ret: Option<i128>) { unimplemented!() }
    #[verifier::external_body] fn to_u128(&self) -> (ret: Option<u128>) { unimplemented!() }
}
impl ToPrimitiveExt for %(p)s {
    #[verifier::external_body] fn to_usize(&self) -> (ret: Option<usize>) { unimplemented!() }
    #[verifier::external_body] fn to_i32(&self) -> (ret: Option<i32>) { unimplemented!() }
    #[verifier::external_body] fn to_u8(&self) -> (ret: Option<u8>) { unimplemented!() }
}
''' % dict(p=p))
    return ''.join(out)


def gen_checked_neg():
    out = []
    for p in ['u8', 'u16', 'u32', 'u64', 'u128', 'i8', 'i16', 'i32', 'i64', 'i128']:
        if p.startswith('u'):
            ens = 'ret == (if v == 0 { Some(0%s) } else { None::<%s> })' % (p, p)
        else:
            ens = 'ret == (if v == %s::MIN { None::<%s> } else { Some((-(v as int)) as %s) })' % (p, p, p)
        out.append('pub assume_specification [%s::checked_neg] (v: %s) -> (ret: Option<%s>)\n    ensures %s;\n' % (p, p, p, ens))
    return ''.join(out)


def generate():
    base = open(os.path.join(ROOT, 'spec', 'shim_base.rs'), encoding='utf-8').read()
    marker = '// @@GENERATED-OPS@@'
    assert marker in base
    return base.replace(marker, gen_ops() + gen_from() + gen_prim_traits() + gen_checked_neg())


if __name__ == '__main__':
    import sys
    sys.stdout.write(generate())
