// Ghost mathematics shared by all contracts: integers only.
use vstd::prelude::*;
verus! {
pub mod prelude {
use vstd::prelude::*;
use vstd::arithmetic::power::*;
use vstd::arithmetic::mul::*;
use vstd::arithmetic::div_mod::*;

// ------------------------------------------------------------------ powers of ten
pub open spec fn pow10(n: int) -> int { if n <= 0 { 1 } else { pow(10, n as nat) } }

pub proof fn lemma_pow10_pos(a: int) ensures pow10(a) > 0
{ if a > 0 { lemma_pow_positive(10, a as nat); } }

pub proof fn lemma_pow10_succ(a: int) requires a >= 0 ensures pow10(a + 1) == 10 * pow10(a)
{ reveal(pow); if a == 0 { assert(pow(10, 1) == 10 * pow(10, 0)); assert(pow(10,0) == 1); } }

pub proof fn lemma_pow10_add(a: int, b: int)
    requires a >= 0, b >= 0
    ensures pow10(a + b) == pow10(a) * pow10(b)
{
    lemma_pow_adds(10, a as nat, b as nat);
}

pub proof fn lemma_pow10_0() ensures pow10(0) == 1 {}
pub proof fn lemma_pow10_1() ensures pow10(1) == 10 { lemma_pow10_succ(0); }

pub proof fn lemma_pow10_mono(a: int, b: int)
    requires 0 <= a <= b
    ensures pow10(a) <= pow10(b)
{
    lemma_pow10_add(a, b - a);
    lemma_pow10_pos(a);
    lemma_pow10_pos(b - a);
    assert(pow10(a) <= pow10(a) * pow10(b - a)) by (nonlinear_arith)
        requires pow10(a) > 0, pow10(b - a) >= 1;
}

pub proof fn lemma_pow10_strict_mono(a: int, b: int)
    requires 0 <= a < b
    ensures pow10(a) < pow10(b), 10 * pow10(a) <= pow10(b)
{
    lemma_pow10_succ(a);
    lemma_pow10_mono(a + 1, b);
    lemma_pow10_pos(a);
}

/// an own recursive power usable with `by(compute)`
pub open spec fn spow(b: int, e: nat) -> int decreases e { if e == 0 { 1 } else { b * spow(b, (e - 1) as nat) } }

pub proof fn lemma_spow_is_pow(b: int, e: nat) ensures spow(b, e) == pow(b, e) decreases e
{ reveal(pow); if e > 0 { lemma_spow_is_pow(b, (e - 1) as nat); } }

pub open spec fn iabs(i: int) -> int { if i < 0 { -i } else { i } }
pub open spec fn isgn(i: int) -> int { if i < 0 { -1 } else if i == 0 { 0 } else { 1 } }
pub open spec fn imax(a: int, b: int) -> int { if a >= b { a } else { b } }
pub open spec fn imin(a: int, b: int) -> int { if a <= b { a } else { b } }
pub open spec fn cmp3(a: int, b: int) -> int { if a < b { -1 } else if a == b { 0 } else { 1 } }

// ------------------------------------------------------------------ truncated division (num-bigint `/`, `%`)
pub open spec fn tdiv(a: int, b: int) -> int
    recommends b != 0
{
    if a >= 0 && b > 0 { a / b }
    else if a < 0 && b > 0 { -((-a) / b) }
    else if a >= 0 && b < 0 { -(a / (-b)) }
    else { (-a) / (-b) }
}
pub open spec fn trem(a: int, b: int) -> int
    recommends b != 0
{
    a - b * tdiv(a, b)
}

pub proof fn lemma_trem_props(a: int, b: int)
    requires b != 0
    ensures iabs(trem(a, b)) < iabs(b),
            trem(a, b) == 0 || isgn(trem(a, b)) == isgn(a),
            trem(a, -b) == trem(a, b),
            a == b * tdiv(a, b) + trem(a, b),
{
    let aa = iabs(a); let bb = iabs(b);
    lemma_fundamental_div_mod(aa, bb);
    lemma_mod_bound(aa, bb);
    let q = aa / bb; let r = aa % bb;
    assert(aa == bb * q + r);
    if a >= 0 && b > 0 { assert(trem(a,b) == r); assert(tdiv(a,-b) == -(a/b)); assert(trem(a,-b) == a - (-b) * (-(q))); assert((-b) * (-q) == b * q) by (nonlinear_arith); }
    else if a < 0 && b > 0 { assert(tdiv(a,b) == -q); assert(b * (-q) == -(b*q)) by (nonlinear_arith); assert(trem(a,b) == -r); assert(tdiv(a,-b) == q); assert((-b) * q == -(b*q)) by (nonlinear_arith); }
    else if a >= 0 && b < 0 { assert(tdiv(a,b) == -q); assert(b * (-q) == bb * q) by (nonlinear_arith) requires bb == -b; assert(trem(a,b) == r); assert(tdiv(a,-b) == q); assert((-b)*q == bb*q); }
    else { assert(tdiv(a,b) == q); assert(b * q == -(bb*q)) by (nonlinear_arith) requires bb == -b; assert(trem(a,b) == -r); assert(tdiv(a,-b) == -q); assert((-b)*(-q) == -(bb*q)) by (nonlinear_arith) requires bb == -b; }
}

// ------------------------------------------------------------------ decimal digit count
/// least d >= 1 with n < 10^d  (n >= 0)
pub open spec fn ndigits(n: int) -> int
    decreases n
{
    if n < 10 { 1 } else { 1 + ndigits(n / 10) }
}

pub proof fn lemma_ndigits_bounds(n: int)
    requires n >= 0
    ensures ndigits(n) >= 1, n < pow10(ndigits(n)), n > 0 ==> pow10(ndigits(n) - 1) <= n
    decreases n
{
    if n < 10 { lemma_pow10_1(); }
    else {
        lemma_ndigits_bounds(n / 10);
        let d = ndigits(n / 10);
        lemma_pow10_succ(d);
        lemma_pow10_succ(d - 1);
        lemma_fundamental_div_mod(n, 10);
    }
}

/// characterisation: 10^(d-1) <= n < 10^d  ==>  ndigits(n) == d
pub proof fn lemma_ndigits_unique(n: int, d: int)
    requires n >= 0, d >= 1, n < pow10(d), (d > 1 ==> pow10(d - 1) <= n)
    ensures ndigits(n) == d
{
    lemma_ndigits_bounds(n);
    let e = ndigits(n);
    if e < d { lemma_pow10_mono(e, d - 1); }
    if e > d { lemma_pow10_mono(d, e - 1); if n == 0 { } }
}

// ------------------------------------------------------------------ digit sequences
/// value of little-endian decimal digit sequence
pub open spec fn dle(s: Seq<u8>) -> int
    decreases s.len()
{
    if s.len() == 0 { 0 } else { s[0] as int + 10 * dle(s.drop_first()) }
}
/// value of big-endian decimal digit sequence
pub open spec fn dbe(s: Seq<u8>) -> int
    decreases s.len()
{
    if s.len() == 0 { 0 } else { 10 * dbe(s.drop_last()) + s.last() as int }
}
pub open spec fn valid_digits(s: Seq<u8>) -> bool { forall|i: int| 0 <= i < s.len() ==> s[i] <= 9 }
pub open spec fn all_zero(s: Seq<u8>) -> bool { forall|i: int| 0 <= i < s.len() ==> s[i] == 0 }

pub proof fn lemma_dle_bounds(s: Seq<u8>)
    requires valid_digits(s)
    ensures 0 <= dle(s) < pow10(s.len() as int)
    decreases s.len()
{
    if s.len() == 0 { } else {
        lemma_dle_bounds(s.drop_first());
        lemma_pow10_succ(s.len() as int - 1);
    }
}

pub proof fn lemma_dle_split(s: Seq<u8>, k: int)
    requires 0 <= k <= s.len()
    ensures dle(s) == dle(s.subrange(0, k)) + pow10(k) * dle(s.subrange(k, s.len() as int))
    decreases k
{
    if k == 0 {
        assert(s.subrange(0, 0).len() == 0);
        assert(s.subrange(0, s.len() as int) =~= s);
    } else {
        let t = s.drop_first();
        lemma_dle_split(t, k - 1);
        assert(t.subrange(0, k - 1) =~= s.subrange(0, k).drop_first());
        assert(t.subrange(k - 1, t.len() as int) =~= s.subrange(k, s.len() as int));
        assert(s.subrange(0, k)[0] == s[0]);
        lemma_pow10_succ(k - 1);
        let hi = dle(s.subrange(k, s.len() as int));
        assert(10 * (pow10(k - 1) * hi) == pow10(k) * hi) by (nonlinear_arith)
            requires pow10(k) == 10 * pow10(k - 1);
    }
}

pub proof fn lemma_dle_all_zero(s: Seq<u8>)
    requires valid_digits(s)
    ensures all_zero(s) <==> dle(s) == 0
    decreases s.len()
{
    if s.len() == 0 { } else {
        lemma_dle_all_zero(s.drop_first());
        lemma_dle_bounds(s.drop_first());
        let t = s.drop_first();
        if all_zero(s) {
            assert forall|i: int| 0 <= i < t.len() implies t[i] == 0 by { assert(t[i] == s[i + 1]); }
        }
        if dle(s) == 0 {
            assert(s[0] == 0 && dle(t) == 0);
            assert forall|i: int| 0 <= i < s.len() implies s[i] == 0 by { if i > 0 { assert(s[i] == t[i - 1]); } }
        }
    }
}

pub proof fn lemma_dle_update(s: Seq<u8>, j: int, d: u8)
    requires 0 <= j < s.len()
    ensures dle(s.update(j, d)) == dle(s) + (d as int - s[j] as int) * pow10(j)
    decreases j
{
    if j == 0 {
        assert(s.update(0, d).drop_first() =~= s.drop_first());
    } else {
        let t = s.drop_first();
        lemma_dle_update(t, j - 1, d);
        assert(s.update(j, d).drop_first() =~= t.update(j - 1, d));
        lemma_pow10_succ(j - 1);
        let delta = d as int - s[j] as int;
        assert(10 * (delta * pow10(j - 1)) == delta * pow10(j)) by (nonlinear_arith)
            requires pow10(j) == 10 * pow10(j - 1);
    }
}

pub proof fn lemma_dle_push(s: Seq<u8>, d: u8)
    ensures dle(s.push(d)) == dle(s) + d as int * pow10(s.len() as int)
    decreases s.len()
{
    if s.len() == 0 {
        assert(s.push(d).drop_first() =~= Seq::<u8>::empty());
        assert(s.push(d)[0] == d);
        assert(dle(s.push(d)) == d as int + 10 * dle(s.push(d).drop_first()));
    } else {
        assert(s.push(d)[0] == s[0]);
        assert(dle(s.push(d)) == s[0] as int + 10 * dle(s.push(d).drop_first()));
        let t = s.drop_first();
        lemma_dle_push(t, d);
        assert(s.push(d).drop_first() =~= t.push(d));
        lemma_pow10_succ(t.len() as int);
        assert(10 * (d as int * pow10(t.len() as int)) == d as int * pow10(s.len() as int)) by (nonlinear_arith)
            requires pow10(s.len() as int) == 10 * pow10(t.len() as int);
    }
}

/// a digit sequence with non-zero top digit has exactly len digits
pub proof fn lemma_dle_ndigits(s: Seq<u8>)
    requires valid_digits(s), s.len() >= 1, s.last() != 0
    ensures ndigits(dle(s)) == s.len()
{
    let k = s.len() as int - 1;
    lemma_dle_split(s, k);
    let top = s.subrange(k, s.len() as int);
    assert(top.drop_first() =~= Seq::<u8>::empty());
    assert(top[0] == s.last());
    assert(dle(top) == top[0] as int + 10 * dle(top.drop_first()));
    assert forall|j: int| 0 <= j < s.subrange(0, k).len() implies s.subrange(0, k)[j] <= 9 by { }
    lemma_dle_bounds(s.subrange(0, k));
    lemma_dle_bounds(s);
    lemma_pow10_pos(k);
    assert(pow10(k) * dle(top) >= pow10(k)) by (nonlinear_arith) requires dle(top) >= 1, pow10(k) > 0;
    lemma_ndigits_unique(dle(s), s.len() as int);
}

pub proof fn lemma_dbe_is_dle_rev(s: Seq<u8>)
    ensures dbe(s) == dle(s.reverse())
    decreases s.len()
{
    if s.len() == 0 {
        assert(s.reverse().len() == 0);
    } else {
        let r = s.reverse();
        assert(r[0] == s.last());
        assert(r.drop_first() =~= s.drop_last().reverse());
        lemma_dbe_is_dle_rev(s.drop_last());
    }
}

} // mod prelude
} // verus!
// ASSUMED contracts for num-bigint 0.4 / num-traits / num-integer / std.
// Every item here is trusted (external_body, assume_specification or an axiom); the
// thorough tier executes these contracts as run-time assertions against the real
// libraries (assumption audit).  Generated operator impls are spliced at the marker.
verus! {
pub mod shim {
use vstd::prelude::*;
use vstd::std_specs::cmp::*;
use vstd::std_specs::convert::*;
use core::cmp::Ordering;
use crate::prelude::*;

// ------------------------------------------------------------------ Sign
#[derive(Clone, Copy, PartialEq, Eq, Debug)]
pub enum Sign { Minus, NoSign, Plus }

pub open spec fn sgn(s: Sign) -> int { match s { Sign::Minus => -1, Sign::NoSign => 0, Sign::Plus => 1 } }
pub open spec fn sign_of(i: int) -> Sign { if i < 0 { Sign::Minus } else if i == 0 { Sign::NoSign } else { Sign::Plus } }
pub open spec fn ord_of(a: int, b: int) -> Ordering { if a < b { Ordering::Less } else if a == b { Ordering::Equal } else { Ordering::Greater } }

impl vstd::std_specs::ops::NegSpecImpl for Sign {
    open spec fn obeys_neg_spec() -> bool { true }
    open spec fn neg_req(self) -> bool { true }
    open spec fn neg_spec(self) -> Sign { match self { Sign::Minus => Sign::Plus, Sign::NoSign => Sign::NoSign, Sign::Plus => Sign::Minus } }
}
impl core::ops::Neg for Sign {
    type Output = Sign;
    #[verifier::external_body]
    fn neg(self) -> (ret: Sign) { unimplemented!() }
}
impl vstd::std_specs::ops::MulSpecImpl<Sign> for Sign {
    open spec fn obeys_mul_spec() -> bool { true }
    open spec fn mul_req(self, rhs: Sign) -> bool { true }
    open spec fn mul_spec(self, rhs: Sign) -> Sign { sign_of(sgn(self) * sgn(rhs)) }
}
impl core::ops::Mul<Sign> for Sign {
    type Output = Sign;
    #[verifier::external_body]
    fn mul(self, rhs: Sign) -> (ret: Sign) { unimplemented!() }
}
impl PartialOrdSpecImpl for Sign {
    open spec fn obeys_partial_cmp_spec() -> bool { true }
    open spec fn partial_cmp_spec(&self, other: &Sign) -> Option<Ordering> { Some(ord_of(sgn(*self), sgn(*other))) }
}
impl PartialOrd for Sign {
    #[verifier::external_body]
    fn partial_cmp(&self, other: &Sign) -> Option<Ordering> { unimplemented!() }
}
impl OrdSpecImpl for Sign {
    open spec fn obeys_cmp_spec() -> bool { true }
    open spec fn cmp_spec(&self, other: &Sign) -> Ordering { ord_of(sgn(*self), sgn(*other)) }
}
impl Ord for Sign {
    #[verifier::external_body]
    fn cmp(&self, other: &Sign) -> Ordering { unimplemented!() }
}

// ------------------------------------------------------------------ big integers (opaque)
#[verifier::external_body]
pub struct BigInt { inner: Vec<u32> }
#[verifier::external_body]
pub struct BigUint { inner: Vec<u32> }
#[verifier::external_body]
pub struct ParseBigIntError { inner: u8 }

impl View for BigInt { type V = int; uninterp spec fn view(&self) -> int; }
impl View for BigUint { type V = nat; uninterp spec fn view(&self) -> nat; }

/// size assumption: every big integer handled has fewer than 2^60 bits (DESIGN 5, "Size")
pub open spec fn size_ok(n: int) -> bool { -pow10(0x0400_0000_0000_0000) < n < pow10(0x0400_0000_0000_0000) }

pub uninterp spec fn spec_magnitude(n: &BigInt) -> BigUint;
#[verifier::external_body]
pub broadcast proof fn axiom_spec_magnitude(n: &BigInt)
    ensures #[trigger] spec_magnitude(n)@ == iabs(n@)
{}

macro_rules! cmp_impls {
    ($t:ty) => { verus! {
        impl PartialEqSpecImpl for $t {
            open spec fn obeys_eq_spec() -> bool { true }
            open spec fn eq_spec(&self, other: &$t) -> bool { self@ == other@ }
        }
        impl PartialEq for $t {
            #[verifier::external_body]
            fn eq(&self, other: &$t) -> bool { unimplemented!() }
        }
        impl Eq for $t {}
        impl PartialOrdSpecImpl for $t {
            open spec fn obeys_partial_cmp_spec() -> bool { true }
            open spec fn partial_cmp_spec(&self, other: &$t) -> Option<Ordering> { Some(ord_of(self@ as int, other@ as int)) }
        }
        impl PartialOrd for $t {
            #[verifier::external_body]
            fn partial_cmp(&self, other: &$t) -> Option<Ordering> { unimplemented!() }
        }
        impl OrdSpecImpl for $t {
            open spec fn obeys_cmp_spec() -> bool { true }
            open spec fn cmp_spec(&self, other: &$t) -> Ordering { ord_of(self@ as int, other@ as int) }
        }
        impl Ord for $t {
            #[verifier::external_body]
            fn cmp(&self, other: &$t) -> Ordering { unimplemented!() }
        }
        impl Clone for $t {
            #[verifier::external_body]
            fn clone(&self) -> (ret: $t) ensures ret@ == self@ { unimplemented!() }
        }
    } };
}
cmp_impls!(BigInt);
cmp_impls!(BigUint);

// ------------------------------------------------------------------ num-traits (simplified trait shapes, same method names)
pub trait Zero: Sized {
    spec fn is_zero_spec(&self) -> bool;
    fn zero() -> (ret: Self) ensures ret.is_zero_spec();
    fn is_zero(&self) -> (ret: bool) ensures ret == self.is_zero_spec();
}
pub trait One: Sized {
    spec fn is_one_spec(&self) -> bool;
    fn one() -> (ret: Self) ensures ret.is_one_spec();
    fn is_one(&self) -> (ret: bool) ensures ret == self.is_one_spec();
}
/// ghost helper: integer value of a primitive or a reference to one
pub trait PrimInt: Sized { spec fn pv(&self) -> int; }

pub open spec fn fits_i64(v: int) -> bool { -0x8000_0000_0000_0000 <= v <= 0x7fff_ffff_ffff_ffff }
pub open spec fn fits_u64(v: int) -> bool { 0 <= v <= 0xffff_ffff_ffff_ffff }
pub open spec fn fits_i128(v: int) -> bool { -0x8000_0000_0000_0000_0000_0000_0000_0000 <= v <= 0x7fff_ffff_ffff_ffff_ffff_ffff_ffff_ffff }
pub open spec fn fits_u128(v: int) -> bool { 0 <= v <= 0xffff_ffff_ffff_ffff_ffff_ffff_ffff_ffff }
pub open spec fn fits_usize(v: int) -> bool { 0 <= v <= usize::MAX }
pub open spec fn fits_i32(v: int) -> bool { -0x8000_0000 <= v <= 0x7fff_ffff }
pub open spec fn fits_u8(v: int) -> bool { 0 <= v <= 255 }

pub trait ToPrimitive {
    spec fn tp_val(&self) -> int;
    fn to_i64(&self) -> (ret: Option<i64>) ensures ret == (if fits_i64(self.tp_val()) { Some(self.tp_val() as i64) } else { None });
    fn to_u64(&self) -> (ret: Option<u64>) ensures ret == (if fits_u64(self.tp_val()) { Some(self.tp_val() as u64) } else { None });
    fn to_i128(&self) -> (ret: Option<i128>) ensures ret == (if fits_i128(self.tp_val()) { Some(self.tp_val() as i128) } else { None });
    fn to_u128(&self) -> (ret: Option<u128>) ensures ret == (if fits_u128(self.tp_val()) { Some(self.tp_val() as u128) } else { None });
    fn to_usize(&self) -> (ret: Option<usize>) ensures ret == (if fits_usize(self.tp_val()) { Some(self.tp_val() as usize) } else { None });
    fn to_i32(&self) -> (ret: Option<i32>) ensures ret == (if fits_i32(self.tp_val()) { Some(self.tp_val() as i32) } else { None });
    fn to_u8(&self) -> (ret: Option<u8>) ensures ret == (if fits_u8(self.tp_val()) { Some(self.tp_val() as u8) } else { None });
}

impl Zero for BigInt {
    open spec fn is_zero_spec(&self) -> bool { self@ == 0 }
    #[verifier::external_body] fn zero() -> (ret: Self) { unimplemented!() }
    #[verifier::external_body] fn is_zero(&self) -> (ret: bool) { unimplemented!() }
}
impl Zero for BigUint {
    open spec fn is_zero_spec(&self) -> bool { self@ == 0 }
    #[verifier::external_body] fn zero() -> (ret: Self) { unimplemented!() }
    #[verifier::external_body] fn is_zero(&self) -> (ret: bool) { unimplemented!() }
}
impl One for BigInt {
    open spec fn is_one_spec(&self) -> bool { self@ == 1 }
    #[verifier::external_body] fn one() -> (ret: Self) { unimplemented!() }
    #[verifier::external_body] fn is_one(&self) -> (ret: bool) { unimplemented!() }
}
impl One for BigUint {
    open spec fn is_one_spec(&self) -> bool { self@ == 1 }
    #[verifier::external_body] fn one() -> (ret: Self) { unimplemented!() }
    #[verifier::external_body] fn is_one(&self) -> (ret: bool) { unimplemented!() }
}
impl ToPrimitive for BigInt {
    open spec fn tp_val(&self) -> int { self@ }
    #[verifier::external_body] fn to_i64(&self) -> (ret: Option<i64>) { unimplemented!() }
    #[verifier::external_body] fn to_u64(&self) -> (ret: Option<u64>) { unimplemented!() }
    #[verifier::external_body] fn to_i128(&self) -> (ret: Option<i128>) { unimplemented!() }
    #[verifier::external_body] fn to_u128(&self) -> (ret: Option<u128>) { unimplemented!() }
    #[verifier::external_body] fn to_usize(&self) -> (ret: Option<usize>) { unimplemented!() }
    #[verifier::external_body] fn to_i32(&self) -> (ret: Option<i32>) { unimplemented!() }
    #[verifier::external_body] fn to_u8(&self) -> (ret: Option<u8>) { unimplemented!() }
}
impl ToPrimitive for BigUint {
    open spec fn tp_val(&self) -> int { self@ as int }
    #[verifier::external_body] fn to_i64(&self) -> (ret: Option<i64>) { unimplemented!() }
    #[verifier::external_body] fn to_u64(&self) -> (ret: Option<u64>) { unimplemented!() }
    #[verifier::external_body] fn to_i128(&self) -> (ret: Option<i128>) { unimplemented!() }
    #[verifier::external_body] fn to_u128(&self) -> (ret: Option<u128>) { unimplemented!() }
    #[verifier::external_body] fn to_usize(&self) -> (ret: Option<usize>) { unimplemented!() }
    #[verifier::external_body] fn to_i32(&self) -> (ret: Option<i32>) { unimplemented!() }
    #[verifier::external_body] fn to_u8(&self) -> (ret: Option<u8>) { unimplemented!() }
}

/// num_integer::Integer (the methods the crate uses)
pub trait NumInteger: Sized {
    spec fn int_val(&self) -> int;
    fn is_even(&self) -> (ret: bool) ensures ret == (self.int_val() % 2 == 0);
    fn is_odd(&self) -> (ret: bool) ensures ret == (self.int_val() % 2 != 0);
    /// T-division pair; diverges on a zero divisor
    fn div_rem(&self, other: &Self) -> (ret: (Self, Self))
        ensures other.int_val() != 0,
                ret.0.int_val() == tdiv(self.int_val(), other.int_val()),
                ret.1.int_val() == trem(self.int_val(), other.int_val());
}
impl NumInteger for BigInt {
    open spec fn int_val(&self) -> int { self@ }
    #[verifier::external_body] fn is_even(&self) -> (ret: bool) { unimplemented!() }
    #[verifier::external_body] fn is_odd(&self) -> (ret: bool) { unimplemented!() }
    #[verifier::external_body] fn div_rem(&self, other: &Self) -> (ret: (Self, Self)) { unimplemented!() }
}
impl NumInteger for BigUint {
    open spec fn int_val(&self) -> int { self@ as int }
    #[verifier::external_body] fn is_even(&self) -> (ret: bool) { unimplemented!() }
    #[verifier::external_body] fn is_odd(&self) -> (ret: bool) { unimplemented!() }
    #[verifier::external_body] fn div_rem(&self, other: &Self) -> (ret: (Self, Self)) { unimplemented!() }
}
impl NumInteger for u64 {
    open spec fn int_val(&self) -> int { *self as int }
    #[verifier::external_body] fn is_even(&self) -> (ret: bool) { unimplemented!() }
    #[verifier::external_body] fn is_odd(&self) -> (ret: bool) { unimplemented!() }
    #[verifier::external_body] fn div_rem(&self, other: &Self) -> (ret: (Self, Self)) { unimplemented!() }
}
impl NumInteger for i64 {
    open spec fn int_val(&self) -> int { *self as int }
    #[verifier::external_body] fn is_even(&self) -> (ret: bool) { unimplemented!() }
    #[verifier::external_body] fn is_odd(&self) -> (ret: bool) { unimplemented!() }
    #[verifier::external_body] fn div_rem(&self, other: &Self) -> (ret: (Self, Self)) { unimplemented!() }
}
pub use NumInteger as IntegerTrait;

/// num_traits::Signed as used on BigInt (`abs`, `is_negative`, `is_positive`) and implemented by the crate
pub trait Signed: Sized {
    spec fn signed_val(&self) -> int;
    spec fn abs_post(&self, ret: &Self) -> bool;
    fn abs(&self) -> (ret: Self) ensures self.abs_post(&ret);
    fn is_positive(&self) -> (ret: bool) ensures ret == (self.signed_val() > 0);
    fn is_negative(&self) -> (ret: bool) ensures ret == (self.signed_val() < 0);
}
impl Signed for BigInt {
    open spec fn signed_val(&self) -> int { self@ }
    open spec fn abs_post(&self, ret: &Self) -> bool { ret@ == iabs(self@) }
    #[verifier::external_body] fn abs(&self) -> (ret: Self) { unimplemented!() }
    #[verifier::external_body] fn is_positive(&self) -> (ret: bool) { unimplemented!() }
    #[verifier::external_body] fn is_negative(&self) -> (ret: bool) { unimplemented!() }
}

impl vstd::std_specs::ops::NegSpecImpl for BigInt {
    open spec fn obeys_neg_spec() -> bool { false }
    open spec fn neg_req(self) -> bool { true }
    open spec fn neg_spec(self) -> BigInt { arbitrary() }
}
impl core::ops::Neg for BigInt {
    type Output = BigInt;
    #[verifier::external_body]
    fn neg(self) -> (ret: BigInt) ensures ret@ == -self@ { unimplemented!() }
}
impl<'a> vstd::std_specs::ops::NegSpecImpl for &'a BigInt {
    open spec fn obeys_neg_spec() -> bool { false }
    open spec fn neg_req(self) -> bool { true }
    open spec fn neg_spec(self) -> BigInt { arbitrary() }
}
impl<'a> core::ops::Neg for &'a BigInt {
    type Output = BigInt;
    #[verifier::external_body]
    fn neg(self) -> (ret: BigInt) ensures ret@ == -self@ { unimplemented!() }
}

impl FromSpecImpl<BigUint> for BigInt {
    open spec fn obeys_from_spec() -> bool { false }
    open spec fn from_spec(v: BigUint) -> Self { arbitrary() }
}
impl core::convert::From<BigUint> for BigInt {
    #[verifier::external_body]
    fn from(v: BigUint) -> (ret: BigInt) ensures ret@ == v@ { unimplemented!() }
}

impl BigInt {
    #[verifier::external_body]
    pub fn sign(&self) -> (ret: Sign) ensures ret == sign_of(self@) { unimplemented!() }
    #[verifier::external_body]
    pub fn magnitude(&self) -> (ret: &BigUint) ensures *ret == spec_magnitude(self), ret@ == iabs(self@) { unimplemented!() }
    /// num-bigint: NoSign zeroes the data; zero data gets NoSign
    #[verifier::external_body]
    pub fn from_biguint(sign: Sign, data: BigUint) -> (ret: BigInt) ensures ret@ == sgn(sign) * data@ { unimplemented!() }
    #[verifier::external_body]
    pub fn new(sign: Sign, digits: Vec<u32>) -> (ret: BigInt)
        ensures digits@.len() == 1 ==> ret@ == sgn(sign) * digits@[0]
    { unimplemented!() }
    #[verifier::external_body]
    pub fn bits(&self) -> (ret: u64)
        ensures self@ == 0 ==> ret == 0,
                self@ != 0 ==> pow2i(ret as int - 1) <= iabs(self@) < pow2i(ret as int),
                ret < 0x1000_0000_0000_0000
    { unimplemented!() }
    #[verifier::external_body]
    pub fn to_radix_le(&self, radix: u32) -> (ret: (Sign, Vec<u8>))
        requires radix == 10
        ensures ret.0 == sign_of(self@), valid_digits(ret.1@), dle(ret.1@) == iabs(self@),
                1 <= ret.1@.len() <= 0x1000_0000_0000_0000,
                self@ != 0 ==> ret.1@.last() != 0,
                self@ == 0 ==> ret.1@ =~= seq![0u8]
    { unimplemented!() }
    #[verifier::external_body]
    pub fn to_radix_be(&self, radix: u32) -> (ret: (Sign, Vec<u8>))
        requires radix == 10
        ensures ret.0 == sign_of(self@), valid_digits(ret.1@), dbe(ret.1@) == iabs(self@),
                1 <= ret.1@.len() <= 0x1000_0000_0000_0000,
                self@ != 0 ==> ret.1@[0] != 0,
                self@ == 0 ==> ret.1@ =~= seq![0u8]
    { unimplemented!() }
    #[verifier::external_body]
    pub fn from_radix_le(sign: Sign, buf: &[u8], radix: u32) -> (ret: Option<BigInt>)
        requires radix == 10
        ensures valid_digits(buf@) && buf@.len() > 0 ==> ret.is_some() && ret.unwrap()@ == sgn(sign) * dle(buf@)
    { unimplemented!() }
    #[verifier::external_body]
    pub fn from_radix_be(sign: Sign, buf: &[u8], radix: u32) -> (ret: Option<BigInt>)
        requires radix == 10
        ensures valid_digits(buf@) && buf@.len() > 0 ==> ret.is_some() && ret.unwrap()@ == sgn(sign) * dbe(buf@)
    { unimplemented!() }
    #[verifier::external_body]
    pub fn set_zero(&mut self) ensures final(self)@ == 0 { unimplemented!() }
}

pub open spec fn pow2i(n: int) -> int { if n <= 0 { 1 } else { vstd::arithmetic::power::pow(2, n as nat) } }

impl BigUint {
    #[verifier::external_body]
    pub fn bits(&self) -> (ret: u64)
        ensures self@ == 0 ==> ret == 0,
                self@ != 0 ==> pow2i(ret as int - 1) <= self@ < pow2i(ret as int),
                ret < 0x1000_0000_0000_0000
    { unimplemented!() }
    #[verifier::external_body]
    pub fn to_radix_le(&self, radix: u32) -> (ret: Vec<u8>)
        requires radix == 10
        ensures valid_digits(ret@), dle(ret@) == self@,
                1 <= ret@.len() <= 0x1000_0000_0000_0000,
                self@ != 0 ==> ret@.last() != 0,
                self@ == 0 ==> ret@ =~= seq![0u8]
    { unimplemented!() }
    #[verifier::external_body]
    pub fn sqrt(&self) -> (ret: BigUint)
        ensures ret@ * ret@ <= self@ < (ret@ + 1) * (ret@ + 1)
    { unimplemented!() }
    #[verifier::external_body]
    pub fn nth_root(&self, n: u32) -> (ret: BigUint)
        requires n == 3
        ensures ret@ * ret@ * ret@ <= self@ < (ret@ + 1) * (ret@ + 1) * (ret@ + 1)
    { unimplemented!() }
    #[verifier::external_body]
    pub fn pow(&self, e: u32) -> (ret: BigUint)
        ensures ret@ == vstd::arithmetic::power::pow(self@ as int, e as nat)
    { unimplemented!() }
}

// ------------------------------------------------------------------ R4 / R6 helpers (rewrite targets)
/// R4: `panic!("Division by zero")` -- diverges; no precondition, so reaching it is allowed
#[verifier::external_body]
pub fn diverge_division_by_zero() ensures false { panic!("Division by zero") }

/// R6: `x.iter().all(Zero::is_zero)` on a byte slice
#[verifier::external_body]
pub fn iter_all_is_zero(x: &[u8]) -> (ret: bool) ensures ret == all_zero(x@) { unimplemented!() }

/// R6: `v.iter().rev().take_while(|i| **i == 0).count()` -- number of trailing zero entries
#[verifier::external_body]
pub fn count_trailing_zero_digits_be(x: &Vec<u8>) -> (ret: usize)
    ensures ret <= x@.len(),
            forall|i: int| x@.len() - ret <= i < x@.len() ==> x@[i] == 0,
            ret < x@.len() ==> x@[x@.len() - ret - 1] != 0
{ unimplemented!() }

/// R6: `s.iter().any(|&d| d != 0)`
#[verifier::external_body]
pub fn iter_any_nonzero(x: &[u8]) -> (ret: bool) ensures ret == !all_zero(x@) { unimplemented!() }

/// R6: `a.iter().zip(b.iter()).all(|(x, y)| x == y)`  (zip stops at the shorter slice)
#[verifier::external_body]
pub fn slices_equal(a: &[u8], b: &[u8]) -> (ret: bool)
    ensures ret == (forall|i: int| 0 <= i < a@.len() && i < b@.len() ==> a@[i] == b@[i])
{ unimplemented!() }

// ------------------------------------------------------------------ std
pub assume_specification<T> [<[T]>::split_last] (s: &[T]) -> (ret: Option<(&T, &[T])>)
    ensures match ret { None => s@.len() == 0, Some((l, rest)) => s@.len() > 0 && *l == s@.last() && rest@ == s@.drop_last() };

pub assume_specification<T: Ord> [core::cmp::max] (a: T, b: T) -> (ret: T)
    ensures T::obeys_cmp_spec() ==> ret == (if a.cmp_spec(&b) == Ordering::Greater { a } else { b });

pub assume_specification [core::cmp::Ordering::reverse] (o: Ordering) -> (ret: Ordering)
    ensures ret == (match o { Ordering::Less => Ordering::Greater, Ordering::Equal => Ordering::Equal, Ordering::Greater => Ordering::Less });

/// overflow (debug panic / release wrap-around) is excluded by the precondition, i.e. it is an obligation at every call
pub assume_specification [u64::pow] (b: u64, e: u32) -> (ret: u64)
    requires vstd::arithmetic::power::pow(b as int, e as nat) <= u64::MAX
    ensures ret == vstd::arithmetic::power::pow(b as int, e as nat);

impl vstd::std_specs::ops::AddSpecImpl<BigInt> for BigInt {
    open spec fn obeys_add_spec() -> bool { false }
    open spec fn add_req(self, rhs: BigInt) -> bool { true }
    open spec fn add_spec(self, rhs: BigInt) -> BigInt { arbitrary() }
}
impl core::ops::Add<BigInt> for BigInt {
    type Output = BigInt;
    #[verifier::external_body]
    fn add(self, rhs: BigInt) -> (ret: BigInt) ensures ret@ == self@ + rhs@ { unimplemented!() }
}
impl<'b> vstd::std_specs::ops::AddSpecImpl<&'b BigInt> for BigInt {
    open spec fn obeys_add_spec() -> bool { false }
    open spec fn add_req(self, rhs: &'b BigInt) -> bool { true }
    open spec fn add_spec(self, rhs: &'b BigInt) -> BigInt { arbitrary() }
}
impl<'b> core::ops::Add<&'b BigInt> for BigInt {
    type Output = BigInt;
    #[verifier::external_body]
    fn add(self, rhs: &'b BigInt) -> (ret: BigInt) ensures ret@ == self@ + rhs@ { unimplemented!() }
}
impl<'a> vstd::std_specs::ops::AddSpecImpl<BigInt> for &'a BigInt {
    open spec fn obeys_add_spec() -> bool { false }
    open spec fn add_req(self, rhs: BigInt) -> bool { true }
    open spec fn add_spec(self, rhs: BigInt) -> BigInt { arbitrary() }
}
impl<'a> core::ops::Add<BigInt> for &'a BigInt {
    type Output = BigInt;
    #[verifier::external_body]
    fn add(self, rhs: BigInt) -> (ret: BigInt) ensures ret@ == self@ + rhs@ { unimplemented!() }
}
impl<'a, 'b> vstd::std_specs::ops::AddSpecImpl<&'b BigInt> for &'a BigInt {
    open spec fn obeys_add_spec() -> bool { false }
    open spec fn add_req(self, rhs: &'b BigInt) -> bool { true }
    open spec fn add_spec(self, rhs: &'b BigInt) -> BigInt { arbitrary() }
}
impl<'a, 'b> core::ops::Add<&'b BigInt> for &'a BigInt {
    type Output = BigInt;
    #[verifier::external_body]
    fn add(self, rhs: &'b BigInt) -> (ret: BigInt) ensures ret@ == self@ + rhs@ { unimplemented!() }
}
impl vstd::std_specs::ops::AddAssignSpecImpl<BigInt> for BigInt {
    open spec fn obeys_add_assign_spec() -> bool { false }
    open spec fn add_assign_req(&self, rhs: BigInt) -> bool { true }
    open spec fn add_assign_spec(&self, rhs: BigInt) -> &BigInt { arbitrary() }
}
impl core::ops::AddAssign<BigInt> for BigInt {
    #[verifier::external_body]
    fn add_assign(&mut self, rhs: BigInt) ensures final(self)@ == old(self)@ + rhs@ { unimplemented!() }
}
impl<'b> vstd::std_specs::ops::AddAssignSpecImpl<&'b BigInt> for BigInt {
    open spec fn obeys_add_assign_spec() -> bool { false }
    open spec fn add_assign_req(&self, rhs: &'b BigInt) -> bool { true }
    open spec fn add_assign_spec(&self, rhs: &'b BigInt) -> &BigInt { arbitrary() }
}
impl<'b> core::ops::AddAssign<&'b BigInt> for BigInt {
    #[verifier::external_body]
    fn add_assign(&mut self, rhs: &'b BigInt) ensures final(self)@ == old(self)@ + rhs@ { unimplemented!() }
}
impl vstd::std_specs::ops::AddSpecImpl<u8> for BigInt {
    open spec fn obeys_add_spec() -> bool { false }
    open spec fn add_req(self, rhs: u8) -> bool { true }
    open spec fn add_spec(self, rhs: u8) -> BigInt { arbitrary() }
}
impl core::ops::Add<u8> for BigInt {
    type Output = BigInt;
    #[verifier::external_body]
    fn add(self, rhs: u8) -> (ret: BigInt) ensures ret@ == self@ + (rhs as int) { unimplemented!() }
}
impl vstd::std_specs::ops::AddSpecImpl<BigInt> for u8 {
    open spec fn obeys_add_spec() -> bool { false }
    open spec fn add_req(self, rhs: BigInt) -> bool { true }
    open spec fn add_spec(self, rhs: BigInt) -> BigInt { arbitrary() }
}
impl core::ops::Add<BigInt> for u8 {
    type Output = BigInt;
    #[verifier::external_body]
    fn add(self, rhs: BigInt) -> (ret: BigInt) ensures ret@ == (self as int) + rhs@ { unimplemented!() }
}
impl<'a> vstd::std_specs::ops::AddSpecImpl<u8> for &'a BigInt {
    open spec fn obeys_add_spec() -> bool { false }
    open spec fn add_req(self, rhs: u8) -> bool { true }
    open spec fn add_spec(self, rhs: u8) -> BigInt { arbitrary() }
}
impl<'a> core::ops::Add<u8> for &'a BigInt {
    type Output = BigInt;
    #[verifier::external_body]
    fn add(self, rhs: u8) -> (ret: BigInt) ensures ret@ == self@ + (rhs as int) { unimplemented!() }
}
impl<'b> vstd::std_specs::ops::AddSpecImpl<&'b BigInt> for u8 {
    open spec fn obeys_add_spec() -> bool { false }
    open spec fn add_req(self, rhs: &'b BigInt) -> bool { true }
    open spec fn add_spec(self, rhs: &'b BigInt) -> BigInt { arbitrary() }
}
impl<'b> core::ops::Add<&'b BigInt> for u8 {
    type Output = BigInt;
    #[verifier::external_body]
    fn add(self, rhs: &'b BigInt) -> (ret: BigInt) ensures ret@ == (self as int) + rhs@ { unimplemented!() }
}
impl vstd::std_specs::ops::AddAssignSpecImpl<u8> for BigInt {
    open spec fn obeys_add_assign_spec() -> bool { false }
    open spec fn add_assign_req(&self, rhs: u8) -> bool { true }
    open spec fn add_assign_spec(&self, rhs: u8) -> &BigInt { arbitrary() }
}
impl core::ops::AddAssign<u8> for BigInt {
    #[verifier::external_body]
    fn add_assign(&mut self, rhs: u8) ensures final(self)@ == old(self)@ + (rhs as int) { unimplemented!() }
}
impl vstd::std_specs::ops::AddSpecImpl<u16> for BigInt {
    open spec fn obeys_add_spec() -> bool { false }
    open spec fn add_req(self, rhs: u16) -> bool { true }
    open spec fn add_spec(self, rhs: u16) -> BigInt { arbitrary() }
}
impl core::ops::Add<u16> for BigInt {
    type Output = BigInt;
    #[verifier::external_body]
    fn add(self, rhs: u16) -> (ret: BigInt) ensures ret@ == self@ + (rhs as int) { unimplemented!() }
}
impl vstd::std_specs::ops::AddSpecImpl<BigInt> for u16 {
    open spec fn obeys_add_spec() -> bool { false }
    open spec fn add_req(self, rhs: BigInt) -> bool { true }
    open spec fn add_spec(self, rhs: BigInt) -> BigInt { arbitrary() }
}
impl core::ops::Add<BigInt> for u16 {
    type Output = BigInt;
    #[verifier::external_body]
    fn add(self, rhs: BigInt) -> (ret: BigInt) ensures ret@ == (self as int) + rhs@ { unimplemented!() }
}
impl<'a> vstd::std_specs::ops::AddSpecImpl<u16> for &'a BigInt {
    open spec fn obeys_add_spec() -> bool { false }
    open spec fn add_req(self, rhs: u16) -> bool { true }
    open spec fn add_spec(self, rhs: u16) -> BigInt { arbitrary() }
}
impl<'a> core::ops::Add<u16> for &'a BigInt {
    type Output = BigInt;
    #[verifier::external_body]
    fn add(self, rhs: u16) -> (ret: BigInt) ensures ret@ == self@ + (rhs as int) { unimplemented!() }
}
impl<'b> vstd::std_specs::ops::AddSpecImpl<&'b BigInt> for u16 {
    open spec fn obeys_add_spec() -> bool { false }
    open spec fn add_req(self, rhs: &'b BigInt) -> bool { true }
    open spec fn add_spec(self, rhs: &'b BigInt) -> BigInt { arbitrary() }
}
impl<'b> core::ops::Add<&'b BigInt> for u16 {
    type Output = BigInt;
    #[verifier::external_body]
    fn add(self, rhs: &'b BigInt) -> (ret: BigInt) ensures ret@ == (self as int) + rhs@ { unimplemented!() }
}
impl vstd::std_specs::ops::AddAssignSpecImpl<u16> for BigInt {
    open spec fn obeys_add_assign_spec() -> bool { false }
    open spec fn add_assign_req(&self, rhs: u16) -> bool { true }
    open spec fn add_assign_spec(&self, rhs: u16) -> &BigInt { arbitrary() }
}
impl core::ops::AddAssign<u16> for BigInt {
    #[verifier::external_body]
    fn add_assign(&mut self, rhs: u16) ensures final(self)@ == old(self)@ + (rhs as int) { unimplemented!() }
}
impl vstd::std_specs::ops::AddSpecImpl<u32> for BigInt {
    open spec fn obeys_add_spec() -> bool { false }
    open spec fn add_req(self, rhs: u32) -> bool { true }
    open spec fn add_spec(self, rhs: u32) -> BigInt { arbitrary() }
}
impl core::ops::Add<u32> for BigInt {
    type Output = BigInt;
    #[verifier::external_body]
    fn add(self, rhs: u32) -> (ret: BigInt) ensures ret@ == self@ + (rhs as int) { unimplemented!() }
}
impl vstd::std_specs::ops::AddSpecImpl<BigInt> for u32 {
    open spec fn obeys_add_spec() -> bool { false }
    open spec fn add_req(self, rhs: BigInt) -> bool { true }
    open spec fn add_spec(self, rhs: BigInt) -> BigInt { arbitrary() }
}
impl core::ops::Add<BigInt> for u32 {
    type Output = BigInt;
    #[verifier::external_body]
    fn add(self, rhs: BigInt) -> (ret: BigInt) ensures ret@ == (self as int) + rhs@ { unimplemented!() }
}
impl<'a> vstd::std_specs::ops::AddSpecImpl<u32> for &'a BigInt {
    open spec fn obeys_add_spec() -> bool { false }
    open spec fn add_req(self, rhs: u32) -> bool { true }
    open spec fn add_spec(self, rhs: u32) -> BigInt { arbitrary() }
}
impl<'a> core::ops::Add<u32> for &'a BigInt {
    type Output = BigInt;
    #[verifier::external_body]
    fn add(self, rhs: u32) -> (ret: BigInt) ensures ret@ == self@ + (rhs as int) { unimplemented!() }
}
impl<'b> vstd::std_specs::ops::AddSpecImpl<&'b BigInt> for u32 {
    open spec fn obeys_add_spec() -> bool { false }
    open spec fn add_req(self, rhs: &'b BigInt) -> bool { true }
    open spec fn add_spec(self, rhs: &'b BigInt) -> BigInt { arbitrary() }
}
impl<'b> core::ops::Add<&'b BigInt> for u32 {
    type Output = BigInt;
    #[verifier::external_body]
    fn add(self, rhs: &'b BigInt) -> (ret: BigInt) ensures ret@ == (self as int) + rhs@ { unimplemented!() }
}
impl vstd::std_specs::ops::AddAssignSpecImpl<u32> for BigInt {
    open spec fn obeys_add_assign_spec() -> bool { false }
    open spec fn add_assign_req(&self, rhs: u32) -> bool { true }
    open spec fn add_assign_spec(&self, rhs: u32) -> &BigInt { arbitrary() }
}
impl core::ops::AddAssign<u32> for BigInt {
    #[verifier::external_body]
    fn add_assign(&mut self, rhs: u32) ensures final(self)@ == old(self)@ + (rhs as int) { unimplemented!() }
}
impl vstd::std_specs::ops::AddSpecImpl<u64> for BigInt {
    open spec fn obeys_add_spec() -> bool { false }
    open spec fn add_req(self, rhs: u64) -> bool { true }
    open spec fn add_spec(self, rhs: u64) -> BigInt { arbitrary() }
}
impl core::ops::Add<u64> for BigInt {
    type Output = BigInt;
    #[verifier::external_body]
    fn add(self, rhs: u64) -> (ret: BigInt) ensures ret@ == self@ + (rhs as int) { unimplemented!() }
}
impl vstd::std_specs::ops::AddSpecImpl<BigInt> for u64 {
    open spec fn obeys_add_spec() -> bool { false }
    open spec fn add_req(self, rhs: BigInt) -> bool { true }
    open spec fn add_spec(self, rhs: BigInt) -> BigInt { arbitrary() }
}
impl core::ops::Add<BigInt> for u64 {
    type Output = BigInt;
    #[verifier::external_body]
    fn add(self, rhs: BigInt) -> (ret: BigInt) ensures ret@ == (self as int) + rhs@ { unimplemented!() }
}
impl<'a> vstd::std_specs::ops::AddSpecImpl<u64> for &'a BigInt {
    open spec fn obeys_add_spec() -> bool { false }
    open spec fn add_req(self, rhs: u64) -> bool { true }
    open spec fn add_spec(self, rhs: u64) -> BigInt { arbitrary() }
}
impl<'a> core::ops::Add<u64> for &'a BigInt {
    type Output = BigInt;
    #[verifier::external_body]
    fn add(self, rhs: u64) -> (ret: BigInt) ensures ret@ == self@ + (rhs as int) { unimplemented!() }
}
impl<'b> vstd::std_specs::ops::AddSpecImpl<&'b BigInt> for u64 {
    open spec fn obeys_add_spec() -> bool { false }
    open spec fn add_req(self, rhs: &'b BigInt) -> bool { true }
    open spec fn add_spec(self, rhs: &'b BigInt) -> BigInt { arbitrary() }
}
impl<'b> core::ops::Add<&'b BigInt> for u64 {
    type Output = BigInt;
    #[verifier::external_body]
    fn add(self, rhs: &'b BigInt) -> (ret: BigInt) ensures ret@ == (self as int) + rhs@ { unimplemented!() }
}
impl vstd::std_specs::ops::AddAssignSpecImpl<u64> for BigInt {
    open spec fn obeys_add_assign_spec() -> bool { false }
    open spec fn add_assign_req(&self, rhs: u64) -> bool { true }
    open spec fn add_assign_spec(&self, rhs: u64) -> &BigInt { arbitrary() }
}
impl core::ops::AddAssign<u64> for BigInt {
    #[verifier::external_body]
    fn add_assign(&mut self, rhs: u64) ensures final(self)@ == old(self)@ + (rhs as int) { unimplemented!() }
}
impl vstd::std_specs::ops::AddSpecImpl<u128> for BigInt {
    open spec fn obeys_add_spec() -> bool { false }
    open spec fn add_req(self, rhs: u128) -> bool { true }
    open spec fn add_spec(self, rhs: u128) -> BigInt { arbitrary() }
}
impl core::ops::Add<u128> for BigInt {
    type Output = BigInt;
    #[verifier::external_body]
    fn add(self, rhs: u128) -> (ret: BigInt) ensures ret@ == self@ + (rhs as int) { unimplemented!() }
}
impl vstd::std_specs::ops::AddSpecImpl<BigInt> for u128 {
    open spec fn obeys_add_spec() -> bool { false }
    open spec fn add_req(self, rhs: BigInt) -> bool { true }
    open spec fn add_spec(self, rhs: BigInt) -> BigInt { arbitrary() }
}
impl core::ops::Add<BigInt> for u128 {
    type Output = BigInt;
    #[verifier::external_body]
    fn add(self, rhs: BigInt) -> (ret: BigInt) ensures ret@ == (self as int) + rhs@ { unimplemented!() }
}
impl<'a> vstd::std_specs::ops::AddSpecImpl<u128> for &'a BigInt {
    open spec fn obeys_add_spec() -> bool { false }
    open spec fn add_req(self, rhs: u128) -> bool { true }
    open spec fn add_spec(self, rhs: u128) -> BigInt { arbitrary() }
}
impl<'a> core::ops::Add<u128> for &'a BigInt {
    type Output = BigInt;
    #[verifier::external_body]
    fn add(self, rhs: u128) -> (ret: BigInt) ensures ret@ == self@ + (rhs as int) { unimplemented!() }
}
impl<'b> vstd::std_specs::ops::AddSpecImpl<&'b BigInt> for u128 {
    open spec fn obeys_add_spec() -> bool { false }
    open spec fn add_req(self, rhs: &'b BigInt) -> bool { true }
    open spec fn add_spec(self, rhs: &'b BigInt) -> BigInt { arbitrary() }
}
impl<'b> core::ops::Add<&'b BigInt> for u128 {
    type Output = BigInt;
    #[verifier::external_body]
    fn add(self, rhs: &'b BigInt) -> (ret: BigInt) ensures ret@ == (self as int) + rhs@ { unimplemented!() }
}
impl vstd::std_specs::ops::AddAssignSpecImpl<u128> for BigInt {
    open spec fn obeys_add_assign_spec() -> bool { false }
    open spec fn add_assign_req(&self, rhs: u128) -> bool { true }
    open spec fn add_assign_spec(&self, rhs: u128) -> &BigInt { arbitrary() }
}
impl core::ops::AddAssign<u128> for BigInt {
    #[verifier::external_body]
    fn add_assign(&mut self, rhs: u128) ensures final(self)@ == old(self)@ + (rhs as int) { unimplemented!() }
}
impl vstd::std_specs::ops::AddSpecImpl<usize> for BigInt {
    open spec fn obeys_add_spec() -> bool { false }
    open spec fn add_req(self, rhs: usize) -> bool { true }
    open spec fn add_spec(self, rhs: usize) -> BigInt { arbitrary() }
}
impl core::ops::Add<usize> for BigInt {
    type Output = BigInt;
    #[verifier::external_body]
    fn add(self, rhs: usize) -> (ret: BigInt) ensures ret@ == self@ + (rhs as int) { unimplemented!() }
}
impl vstd::std_specs::ops::AddSpecImpl<BigInt> for usize {
    open spec fn obeys_add_spec() -> bool { false }
    open spec fn add_req(self, rhs: BigInt) -> bool { true }
    open spec fn add_spec(self, rhs: BigInt) -> BigInt { arbitrary() }
}
impl core::ops::Add<BigInt> for usize {
    type Output = BigInt;
    #[verifier::external_body]
    fn add(self, rhs: BigInt) -> (ret: BigInt) ensures ret@ == (self as int) + rhs@ { unimplemented!() }
}
impl<'a> vstd::std_specs::ops::AddSpecImpl<usize> for &'a BigInt {
    open spec fn obeys_add_spec() -> bool { false }
    open spec fn add_req(self, rhs: usize) -> bool { true }
    open spec fn add_spec(self, rhs: usize) -> BigInt { arbitrary() }
}
impl<'a> core::ops::Add<usize> for &'a BigInt {
    type Output = BigInt;
    #[verifier::external_body]
    fn add(self, rhs: usize) -> (ret: BigInt) ensures ret@ == self@ + (rhs as int) { unimplemented!() }
}
impl<'b> vstd::std_specs::ops::AddSpecImpl<&'b BigInt> for usize {
    open spec fn obeys_add_spec() -> bool { false }
    open spec fn add_req(self, rhs: &'b BigInt) -> bool { true }
    open spec fn add_spec(self, rhs: &'b BigInt) -> BigInt { arbitrary() }
}
impl<'b> core::ops::Add<&'b BigInt> for usize {
    type Output = BigInt;
    #[verifier::external_body]
    fn add(self, rhs: &'b BigInt) -> (ret: BigInt) ensures ret@ == (self as int) + rhs@ { unimplemented!() }
}
impl vstd::std_specs::ops::AddAssignSpecImpl<usize> for BigInt {
    open spec fn obeys_add_assign_spec() -> bool { false }
    open spec fn add_assign_req(&self, rhs: usize) -> bool { true }
    open spec fn add_assign_spec(&self, rhs: usize) -> &BigInt { arbitrary() }
}
impl core::ops::AddAssign<usize> for BigInt {
    #[verifier::external_body]
    fn add_assign(&mut self, rhs: usize) ensures final(self)@ == old(self)@ + (rhs as int) { unimplemented!() }
}
impl vstd::std_specs::ops::AddSpecImpl<i8> for BigInt {
    open spec fn obeys_add_spec() -> bool { false }
    open spec fn add_req(self, rhs: i8) -> bool { true }
    open spec fn add_spec(self, rhs: i8) -> BigInt { arbitrary() }
}
impl core::ops::Add<i8> for BigInt {
    type Output = BigInt;
    #[verifier::external_body]
    fn add(self, rhs: i8) -> (ret: BigInt) ensures ret@ == self@ + (rhs as int) { unimplemented!() }
}
impl vstd::std_specs::ops::AddSpecImpl<BigInt> for i8 {
    open spec fn obeys_add_spec() -> bool { false }
    open spec fn add_req(self, rhs: BigInt) -> bool { true }
    open spec fn add_spec(self, rhs: BigInt) -> BigInt { arbitrary() }
}
impl core::ops::Add<BigInt> for i8 {
    type Output = BigInt;
    #[verifier::external_body]
    fn add(self, rhs: BigInt) -> (ret: BigInt) ensures ret@ == (self as int) + rhs@ { unimplemented!() }
}
impl<'a> vstd::std_specs::ops::AddSpecImpl<i8> for &'a BigInt {
    open spec fn obeys_add_spec() -> bool { false }
    open spec fn add_req(self, rhs: i8) -> bool { true }
    open spec fn add_spec(self, rhs: i8) -> BigInt { arbitrary() }
}
impl<'a> core::ops::Add<i8> for &'a BigInt {
    type Output = BigInt;
    #[verifier::external_body]
    fn add(self, rhs: i8) -> (ret: BigInt) ensures ret@ == self@ + (rhs as int) { unimplemented!() }
}
impl<'b> vstd::std_specs::ops::AddSpecImpl<&'b BigInt> for i8 {
    open spec fn obeys_add_spec() -> bool { false }
    open spec fn add_req(self, rhs: &'b BigInt) -> bool { true }
    open spec fn add_spec(self, rhs: &'b BigInt) -> BigInt { arbitrary() }
}
impl<'b> core::ops::Add<&'b BigInt> for i8 {
    type Output = BigInt;
    #[verifier::external_body]
    fn add(self, rhs: &'b BigInt) -> (ret: BigInt) ensures ret@ == (self as int) + rhs@ { unimplemented!() }
}
impl vstd::std_specs::ops::AddAssignSpecImpl<i8> for BigInt {
    open spec fn obeys_add_assign_spec() -> bool { false }
    open spec fn add_assign_req(&self, rhs: i8) -> bool { true }
    open spec fn add_assign_spec(&self, rhs: i8) -> &BigInt { arbitrary() }
}
impl core::ops::AddAssign<i8> for BigInt {
    #[verifier::external_body]
    fn add_assign(&mut self, rhs: i8) ensures final(self)@ == old(self)@ + (rhs as int) { unimplemented!() }
}
impl vstd::std_specs::ops::AddSpecImpl<i16> for BigInt {
    open spec fn obeys_add_spec() -> bool { false }
    open spec fn add_req(self, rhs: i16) -> bool { true }
    open spec fn add_spec(self, rhs: i16) -> BigInt { arbitrary() }
}
impl core::ops::Add<i16> for BigInt {
    type Output = BigInt;
    #[verifier::external_body]
    fn add(self, rhs: i16) -> (ret: BigInt) ensures ret@ == self@ + (rhs as int) { unimplemented!() }
}
impl vstd::std_specs::ops::AddSpecImpl<BigInt> for i16 {
    open spec fn obeys_add_spec() -> bool { false }
    open spec fn add_req(self, rhs: BigInt) -> bool { true }
    open spec fn add_spec(self, rhs: BigInt) -> BigInt { arbitrary() }
}
impl core::ops::Add<BigInt> for i16 {
    type Output = BigInt;
    #[verifier::external_body]
    fn add(self, rhs: BigInt) -> (ret: BigInt) ensures ret@ == (self as int) + rhs@ { unimplemented!() }
}
impl<'a> vstd::std_specs::ops::AddSpecImpl<i16> for &'a BigInt {
    open spec fn obeys_add_spec() -> bool { false }
    open spec fn add_req(self, rhs: i16) -> bool { true }
    open spec fn add_spec(self, rhs: i16) -> BigInt { arbitrary() }
}
impl<'a> core::ops::Add<i16> for &'a BigInt {
    type Output = BigInt;
    #[verifier::external_body]
    fn add(self, rhs: i16) -> (ret: BigInt) ensures ret@ == self@ + (rhs as int) { unimplemented!() }
}
impl<'b> vstd::std_specs::ops::AddSpecImpl<&'b BigInt> for i16 {
    open spec fn obeys_add_spec() -> bool { false }
    open spec fn add_req(self, rhs: &'b BigInt) -> bool { true }
    open spec fn add_spec(self, rhs: &'b BigInt) -> BigInt { arbitrary() }
}
impl<'b> core::ops::Add<&'b BigInt> for i16 {
    type Output = BigInt;
    #[verifier::external_body]
    fn add(self, rhs: &'b BigInt) -> (ret: BigInt) ensures ret@ == (self as int) + rhs@ { unimplemented!() }
}
impl vstd::std_specs::ops::AddAssignSpecImpl<i16> for BigInt {
    open spec fn obeys_add_assign_spec() -> bool { false }
    open spec fn add_assign_req(&self, rhs: i16) -> bool { true }
    open spec fn add_assign_spec(&self, rhs: i16) -> &BigInt { arbitrary() }
}
impl core::ops::AddAssign<i16> for BigInt {
    #[verifier::external_body]
    fn add_assign(&mut self, rhs: i16) ensures final(self)@ == old(self)@ + (rhs as int) { unimplemented!() }
}
impl vstd::std_specs::ops::AddSpecImpl<i32> for BigInt {
    open spec fn obeys_add_spec() -> bool { false }
    open spec fn add_req(self, rhs: i32) -> bool { true }
    open spec fn add_spec(self, rhs: i32) -> BigInt { arbitrary() }
}
impl core::ops::Add<i32> for BigInt {
    type Output = BigInt;
    #[verifier::external_body]
    fn add(self, rhs: i32) -> (ret: BigInt) ensures ret@ == self@ + (rhs as int) { unimplemented!() }
}
impl vstd::std_specs::ops::AddSpecImpl<BigInt> for i32 {
    open spec fn obeys_add_spec() -> bool { false }
    open spec fn add_req(self, rhs: BigInt) -> bool { true }
    open spec fn add_spec(self, rhs: BigInt) -> BigInt { arbitrary() }
}
impl core::ops::Add<BigInt> for i32 {
    type Output = BigInt;
    #[verifier::external_body]
    fn add(self, rhs: BigInt) -> (ret: BigInt) ensures ret@ == (self as int) + rhs@ { unimplemented!() }
}
impl<'a> vstd::std_specs::ops::AddSpecImpl<i32> for &'a BigInt {
    open spec fn obeys_add_spec() -> bool { false }
    open spec fn add_req(self, rhs: i32) -> bool { true }
    open spec fn add_spec(self, rhs: i32) -> BigInt { arbitrary() }
}
impl<'a> core::ops::Add<i32> for &'a BigInt {
    type Output = BigInt;
    #[verifier::external_body]
    fn add(self, rhs: i32) -> (ret: BigInt) ensures ret@ == self@ + (rhs as int) { unimplemented!() }
}
impl<'b> vstd::std_specs::ops::AddSpecImpl<&'b BigInt> for i32 {
    open spec fn obeys_add_spec() -> bool { false }
    open spec fn add_req(self, rhs: &'b BigInt) -> bool { true }
    open spec fn add_spec(self, rhs: &'b BigInt) -> BigInt { arbitrary() }
}
impl<'b> core::ops::Add<&'b BigInt> for i32 {
    type Output = BigInt;
    #[verifier::external_body]
    fn add(self, rhs: &'b BigInt) -> (ret: BigInt) ensures ret@ == (self as int) + rhs@ { unimplemented!() }
}
impl vstd::std_specs::ops::AddAssignSpecImpl<i32> for BigInt {
    open spec fn obeys_add_assign_spec() -> bool { false }
    open spec fn add_assign_req(&self, rhs: i32) -> bool { true }
    open spec fn add_assign_spec(&self, rhs: i32) -> &BigInt { arbitrary() }
}
impl core::ops::AddAssign<i32> for BigInt {
    #[verifier::external_body]
    fn add_assign(&mut self, rhs: i32) ensures final(self)@ == old(self)@ + (rhs as int) { unimplemented!() }
}
impl vstd::std_specs::ops::AddSpecImpl<i64> for BigInt {
    open spec fn obeys_add_spec() -> bool { false }
    open spec fn add_req(self, rhs: i64) -> bool { true }
    open spec fn add_spec(self, rhs: i64) -> BigInt { arbitrary() }
}
impl core::ops::Add<i64> for BigInt {
    type Output = BigInt;
    #[verifier::external_body]
    fn add(self, rhs: i64) -> (ret: BigInt) ensures ret@ == self@ + (rhs as int) { unimplemented!() }
}
impl vstd::std_specs::ops::AddSpecImpl<BigInt> for i64 {
    open spec fn obeys_add_spec() -> bool { false }
    open spec fn add_req(self, rhs: BigInt) -> bool { true }
    open spec fn add_spec(self, rhs: BigInt) -> BigInt { arbitrary() }
}
impl core::ops::Add<BigInt> for i64 {
    type Output = BigInt;
    #[verifier::external_body]
    fn add(self, rhs: BigInt) -> (ret: BigInt) ensures ret@ == (self as int) + rhs@ { unimplemented!() }
}
impl<'a> vstd::std_specs::ops::AddSpecImpl<i64> for &'a BigInt {
    open spec fn obeys_add_spec() -> bool { false }
    open spec fn add_req(self, rhs: i64) -> bool { true }
    open spec fn add_spec(self, rhs: i64) -> BigInt { arbitrary() }
}
impl<'a> core::ops::Add<i64> for &'a BigInt {
    type Output = BigInt;
    #[verifier::external_body]
    fn add(self, rhs: i64) -> (ret: BigInt) ensures ret@ == self@ + (rhs as int) { unimplemented!() }
}
impl<'b> vstd::std_specs::ops::AddSpecImpl<&'b BigInt> for i64 {
    open spec fn obeys_add_spec() -> bool { false }
    open spec fn add_req(self, rhs: &'b BigInt) -> bool { true }
    open spec fn add_spec(self, rhs: &'b BigInt) -> BigInt { arbitrary() }
}
impl<'b> core::ops::Add<&'b BigInt> for i64 {
    type Output = BigInt;
    #[verifier::external_body]
    fn add(self, rhs: &'b BigInt) -> (ret: BigInt) ensures ret@ == (self as int) + rhs@ { unimplemented!() }
}
impl vstd::std_specs::ops::AddAssignSpecImpl<i64> for BigInt {
    open spec fn obeys_add_assign_spec() -> bool { false }
    open spec fn add_assign_req(&self, rhs: i64) -> bool { true }
    open spec fn add_assign_spec(&self, rhs: i64) -> &BigInt { arbitrary() }
}
impl core::ops::AddAssign<i64> for BigInt {
    #[verifier::external_body]
    fn add_assign(&mut self, rhs: i64) ensures final(self)@ == old(self)@ + (rhs as int) { unimplemented!() }
}
impl vstd::std_specs::ops::AddSpecImpl<i128> for BigInt {
    open spec fn obeys_add_spec() -> bool { false }
    open spec fn add_req(self, rhs: i128) -> bool { true }
    open spec fn add_spec(self, rhs: i128) -> BigInt { arbitrary() }
}
impl core::ops::Add<i128> for BigInt {
    type Output = BigInt;
    #[verifier::external_body]
    fn add(self, rhs: i128) -> (ret: BigInt) ensures ret@ == self@ + (rhs as int) { unimplemented!() }
}
impl vstd::std_specs::ops::AddSpecImpl<BigInt> for i128 {
    open spec fn obeys_add_spec() -> bool { false }
    open spec fn add_req(self, rhs: BigInt) -> bool { true }
    open spec fn add_spec(self, rhs: BigInt) -> BigInt { arbitrary() }
}
impl core::ops::Add<BigInt> for i128 {
    type Output = BigInt;
    #[verifier::external_body]
    fn add(self, rhs: BigInt) -> (ret: BigInt) ensures ret@ == (self as int) + rhs@ { unimplemented!() }
}
impl<'a> vstd::std_specs::ops::AddSpecImpl<i128> for &'a BigInt {
    open spec fn obeys_add_spec() -> bool { false }
    open spec fn add_req(self, rhs: i128) -> bool { true }
    open spec fn add_spec(self, rhs: i128) -> BigInt { arbitrary() }
}
impl<'a> core::ops::Add<i128> for &'a BigInt {
    type Output = BigInt;
    #[verifier::external_body]
    fn add(self, rhs: i128) -> (ret: BigInt) ensures ret@ == self@ + (rhs as int) { unimplemented!() }
}
impl<'b> vstd::std_specs::ops::AddSpecImpl<&'b BigInt> for i128 {
    open spec fn obeys_add_spec() -> bool { false }
    open spec fn add_req(self, rhs: &'b BigInt) -> bool { true }
    open spec fn add_spec(self, rhs: &'b BigInt) -> BigInt { arbitrary() }
}
impl<'b> core::ops::Add<&'b BigInt> for i128 {
    type Output = BigInt;
    #[verifier::external_body]
    fn add(self, rhs: &'b BigInt) -> (ret: BigInt) ensures ret@ == (self as int) + rhs@ { unimplemented!() }
}
impl vstd::std_specs::ops::AddAssignSpecImpl<i128> for BigInt {
    open spec fn obeys_add_assign_spec() -> bool { false }
    open spec fn add_assign_req(&self, rhs: i128) -> bool { true }
    open spec fn add_assign_spec(&self, rhs: i128) -> &BigInt { arbitrary() }
}
impl core::ops::AddAssign<i128> for BigInt {
    #[verifier::external_body]
    fn add_assign(&mut self, rhs: i128) ensures final(self)@ == old(self)@ + (rhs as int) { unimplemented!() }
}
impl vstd::std_specs::ops::AddSpecImpl<isize> for BigInt {
    open spec fn obeys_add_spec() -> bool { false }
    open spec fn add_req(self, rhs: isize) -> bool { true }
    open spec fn add_spec(self, rhs: isize) -> BigInt { arbitrary() }
}
impl core::ops::Add<isize> for BigInt {
    type Output = BigInt;
    #[verifier::external_body]
    fn add(self, rhs: isize) -> (ret: BigInt) ensures ret@ == self@ + (rhs as int) { unimplemented!() }
}
impl vstd::std_specs::ops::AddSpecImpl<BigInt> for isize {
    open spec fn obeys_add_spec() -> bool { false }
    open spec fn add_req(self, rhs: BigInt) -> bool { true }
    open spec fn add_spec(self, rhs: BigInt) -> BigInt { arbitrary() }
}
impl core::ops::Add<BigInt> for isize {
    type Output = BigInt;
    #[verifier::external_body]
    fn add(self, rhs: BigInt) -> (ret: BigInt) ensures ret@ == (self as int) + rhs@ { unimplemented!() }
}
impl<'a> vstd::std_specs::ops::AddSpecImpl<isize> for &'a BigInt {
    open spec fn obeys_add_spec() -> bool { false }
    open spec fn add_req(self, rhs: isize) -> bool { true }
    open spec fn add_spec(self, rhs: isize) -> BigInt { arbitrary() }
}
impl<'a> core::ops::Add<isize> for &'a BigInt {
    type Output = BigInt;
    #[verifier::external_body]
    fn add(self, rhs: isize) -> (ret: BigInt) ensures ret@ == self@ + (rhs as int) { unimplemented!() }
}
impl<'b> vstd::std_specs::ops::AddSpecImpl<&'b BigInt> for isize {
    open spec fn obeys_add_spec() -> bool { false }
    open spec fn add_req(self, rhs: &'b BigInt) -> bool { true }
    open spec fn add_spec(self, rhs: &'b BigInt) -> BigInt { arbitrary() }
}
impl<'b> core::ops::Add<&'b BigInt> for isize {
    type Output = BigInt;
    #[verifier::external_body]
    fn add(self, rhs: &'b BigInt) -> (ret: BigInt) ensures ret@ == (self as int) + rhs@ { unimplemented!() }
}
impl vstd::std_specs::ops::AddAssignSpecImpl<isize> for BigInt {
    open spec fn obeys_add_assign_spec() -> bool { false }
    open spec fn add_assign_req(&self, rhs: isize) -> bool { true }
    open spec fn add_assign_spec(&self, rhs: isize) -> &BigInt { arbitrary() }
}
impl core::ops::AddAssign<isize> for BigInt {
    #[verifier::external_body]
    fn add_assign(&mut self, rhs: isize) ensures final(self)@ == old(self)@ + (rhs as int) { unimplemented!() }
}
impl vstd::std_specs::ops::SubSpecImpl<BigInt> for BigInt {
    open spec fn obeys_sub_spec() -> bool { false }
    open spec fn sub_req(self, rhs: BigInt) -> bool { true }
    open spec fn sub_spec(self, rhs: BigInt) -> BigInt { arbitrary() }
}
impl core::ops::Sub<BigInt> for BigInt {
    type Output = BigInt;
    #[verifier::external_body]
    fn sub(self, rhs: BigInt) -> (ret: BigInt) ensures ret@ == self@ - rhs@ { unimplemented!() }
}
impl<'b> vstd::std_specs::ops::SubSpecImpl<&'b BigInt> for BigInt {
    open spec fn obeys_sub_spec() -> bool { false }
    open spec fn sub_req(self, rhs: &'b BigInt) -> bool { true }
    open spec fn sub_spec(self, rhs: &'b BigInt) -> BigInt { arbitrary() }
}
impl<'b> core::ops::Sub<&'b BigInt> for BigInt {
    type Output = BigInt;
    #[verifier::external_body]
    fn sub(self, rhs: &'b BigInt) -> (ret: BigInt) ensures ret@ == self@ - rhs@ { unimplemented!() }
}
impl<'a> vstd::std_specs::ops::SubSpecImpl<BigInt> for &'a BigInt {
    open spec fn obeys_sub_spec() -> bool { false }
    open spec fn sub_req(self, rhs: BigInt) -> bool { true }
    open spec fn sub_spec(self, rhs: BigInt) -> BigInt { arbitrary() }
}
impl<'a> core::ops::Sub<BigInt> for &'a BigInt {
    type Output = BigInt;
    #[verifier::external_body]
    fn sub(self, rhs: BigInt) -> (ret: BigInt) ensures ret@ == self@ - rhs@ { unimplemented!() }
}
impl<'a, 'b> vstd::std_specs::ops::SubSpecImpl<&'b BigInt> for &'a BigInt {
    open spec fn obeys_sub_spec() -> bool { false }
    open spec fn sub_req(self, rhs: &'b BigInt) -> bool { true }
    open spec fn sub_spec(self, rhs: &'b BigInt) -> BigInt { arbitrary() }
}
impl<'a, 'b> core::ops::Sub<&'b BigInt> for &'a BigInt {
    type Output = BigInt;
    #[verifier::external_body]
    fn sub(self, rhs: &'b BigInt) -> (ret: BigInt) ensures ret@ == self@ - rhs@ { unimplemented!() }
}
impl vstd::std_specs::ops::SubAssignSpecImpl<BigInt> for BigInt {
    open spec fn obeys_sub_assign_spec() -> bool { false }
    open spec fn sub_assign_req(&self, rhs: BigInt) -> bool { true }
    open spec fn sub_assign_spec(&self, rhs: BigInt) -> &BigInt { arbitrary() }
}
impl core::ops::SubAssign<BigInt> for BigInt {
    #[verifier::external_body]
    fn sub_assign(&mut self, rhs: BigInt) ensures final(self)@ == old(self)@ - rhs@ { unimplemented!() }
}
impl<'b> vstd::std_specs::ops::SubAssignSpecImpl<&'b BigInt> for BigInt {
    open spec fn obeys_sub_assign_spec() -> bool { false }
    open spec fn sub_assign_req(&self, rhs: &'b BigInt) -> bool { true }
    open spec fn sub_assign_spec(&self, rhs: &'b BigInt) -> &BigInt { arbitrary() }
}
impl<'b> core::ops::SubAssign<&'b BigInt> for BigInt {
    #[verifier::external_body]
    fn sub_assign(&mut self, rhs: &'b BigInt) ensures final(self)@ == old(self)@ - rhs@ { unimplemented!() }
}
impl vstd::std_specs::ops::SubSpecImpl<u8> for BigInt {
    open spec fn obeys_sub_spec() -> bool { false }
    open spec fn sub_req(self, rhs: u8) -> bool { true }
    open spec fn sub_spec(self, rhs: u8) -> BigInt { arbitrary() }
}
impl core::ops::Sub<u8> for BigInt {
    type Output = BigInt;
    #[verifier::external_body]
    fn sub(self, rhs: u8) -> (ret: BigInt) ensures ret@ == self@ - (rhs as int) { unimplemented!() }
}
impl vstd::std_specs::ops::SubSpecImpl<BigInt> for u8 {
    open spec fn obeys_sub_spec() -> bool { false }
    open spec fn sub_req(self, rhs: BigInt) -> bool { true }
    open spec fn sub_spec(self, rhs: BigInt) -> BigInt { arbitrary() }
}
impl core::ops::Sub<BigInt> for u8 {
    type Output = BigInt;
    #[verifier::external_body]
    fn sub(self, rhs: BigInt) -> (ret: BigInt) ensures ret@ == (self as int) - rhs@ { unimplemented!() }
}
impl<'a> vstd::std_specs::ops::SubSpecImpl<u8> for &'a BigInt {
    open spec fn obeys_sub_spec() -> bool { false }
    open spec fn sub_req(self, rhs: u8) -> bool { true }
    open spec fn sub_spec(self, rhs: u8) -> BigInt { arbitrary() }
}
impl<'a> core::ops::Sub<u8> for &'a BigInt {
    type Output = BigInt;
    #[verifier::external_body]
    fn sub(self, rhs: u8) -> (ret: BigInt) ensures ret@ == self@ - (rhs as int) { unimplemented!() }
}
impl<'b> vstd::std_specs::ops::SubSpecImpl<&'b BigInt> for u8 {
    open spec fn obeys_sub_spec() -> bool { false }
    open spec fn sub_req(self, rhs: &'b BigInt) -> bool { true }
    open spec fn sub_spec(self, rhs: &'b BigInt) -> BigInt { arbitrary() }
}
impl<'b> core::ops::Sub<&'b BigInt> for u8 {
    type Output = BigInt;
    #[verifier::external_body]
    fn sub(self, rhs: &'b BigInt) -> (ret: BigInt) ensures ret@ == (self as int) - rhs@ { unimplemented!() }
}
impl vstd::std_specs::ops::SubAssignSpecImpl<u8> for BigInt {
    open spec fn obeys_sub_assign_spec() -> bool { false }
    open spec fn sub_assign_req(&self, rhs: u8) -> bool { true }
    open spec fn sub_assign_spec(&self, rhs: u8) -> &BigInt { arbitrary() }
}
impl core::ops::SubAssign<u8> for BigInt {
    #[verifier::external_body]
    fn sub_assign(&mut self, rhs: u8) ensures final(self)@ == old(self)@ - (rhs as int) { unimplemented!() }
}
impl vstd::std_specs::ops::SubSpecImpl<u16> for BigInt {
    open spec fn obeys_sub_spec() -> bool { false }
    open spec fn sub_req(self, rhs: u16) -> bool { true }
    open spec fn sub_spec(self, rhs: u16) -> BigInt { arbitrary() }
}
impl core::ops::Sub<u16> for BigInt {
    type Output = BigInt;
    #[verifier::external_body]
    fn sub(self, rhs: u16) -> (ret: BigInt) ensures ret@ == self@ - (rhs as int) { unimplemented!() }
}
impl vstd::std_specs::ops::SubSpecImpl<BigInt> for u16 {
    open spec fn obeys_sub_spec() -> bool { false }
    open spec fn sub_req(self, rhs: BigInt) -> bool { true }
    open spec fn sub_spec(self, rhs: BigInt) -> BigInt { arbitrary() }
}
impl core::ops::Sub<BigInt> for u16 {
    type Output = BigInt;
    #[verifier::external_body]
    fn sub(self, rhs: BigInt) -> (ret: BigInt) ensures ret@ == (self as int) - rhs@ { unimplemented!() }
}
impl<'a> vstd::std_specs::ops::SubSpecImpl<u16> for &'a BigInt {
    open spec fn obeys_sub_spec() -> bool { false }
    open spec fn sub_req(self, rhs: u16) -> bool { true }
    open spec fn sub_spec(self, rhs: u16) -> BigInt { arbitrary() }
}
impl<'a> core::ops::Sub<u16> for &'a BigInt {
    type Output = BigInt;
    #[verifier::external_body]
    fn sub(self, rhs: u16) -> (ret: BigInt) ensures ret@ == self@ - (rhs as int) { unimplemented!() }
}
impl<'b> vstd::std_specs::ops::SubSpecImpl<&'b BigInt> for u16 {
    open spec fn obeys_sub_spec() -> bool { false }
    open spec fn sub_req(self, rhs: &'b BigInt) -> bool { true }
    open spec fn sub_spec(self, rhs: &'b BigInt) -> BigInt { arbitrary() }
}
impl<'b> core::ops::Sub<&'b BigInt> for u16 {
    type Output = BigInt;
    #[verifier::external_body]
    fn sub(self, rhs: &'b BigInt) -> (ret: BigInt) ensures ret@ == (self as int) - rhs@ { unimplemented!() }
}
impl vstd::std_specs::ops::SubAssignSpecImpl<u16> for BigInt {
    open spec fn obeys_sub_assign_spec() -> bool { false }
    open spec fn sub_assign_req(&self, rhs: u16) -> bool { true }
    open spec fn sub_assign_spec(&self, rhs: u16) -> &BigInt { arbitrary() }
}
impl core::ops::SubAssign<u16> for BigInt {
    #[verifier::external_body]
    fn sub_assign(&mut self, rhs: u16) ensures final(self)@ == old(self)@ - (rhs as int) { unimplemented!() }
}
impl vstd::std_specs::ops::SubSpecImpl<u32> for BigInt {
    open spec fn obeys_sub_spec() -> bool { false }
    open spec fn sub_req(self, rhs: u32) -> bool { true }
    open spec fn sub_spec(self, rhs: u32) -> BigInt { arbitrary() }
}
impl core::ops::Sub<u32> for BigInt {
    type Output = BigInt;
    #[verifier::external_body]
    fn sub(self, rhs: u32) -> (ret: BigInt) ensures ret@ == self@ - (rhs as int) { unimplemented!() }
}
impl vstd::std_specs::ops::SubSpecImpl<BigInt> for u32 {
    open spec fn obeys_sub_spec() -> bool { false }
    open spec fn sub_req(self, rhs: BigInt) -> bool { true }
    open spec fn sub_spec(self, rhs: BigInt) -> BigInt { arbitrary() }
}
impl core::ops::Sub<BigInt> for u32 {
    type Output = BigInt;
    #[verifier::external_body]
    fn sub(self, rhs: BigInt) -> (ret: BigInt) ensures ret@ == (self as int) - rhs@ { unimplemented!() }
}
impl<'a> vstd::std_specs::ops::SubSpecImpl<u32> for &'a BigInt {
    open spec fn obeys_sub_spec() -> bool { false }
    open spec fn sub_req(self, rhs: u32) -> bool { true }
    open spec fn sub_spec(self, rhs: u32) -> BigInt { arbitrary() }
}
impl<'a> core::ops::Sub<u32> for &'a BigInt {
    type Output = BigInt;
    #[verifier::external_body]
    fn sub(self, rhs: u32) -> (ret: BigInt) ensures ret@ == self@ - (rhs as int) { unimplemented!() }
}
impl<'b> vstd::std_specs::ops::SubSpecImpl<&'b BigInt> for u32 {
    open spec fn obeys_sub_spec() -> bool { false }
    open spec fn sub_req(self, rhs: &'b BigInt) -> bool { true }
    open spec fn sub_spec(self, rhs: &'b BigInt) -> BigInt { arbitrary() }
}
impl<'b> core::ops::Sub<&'b BigInt> for u32 {
    type Output = BigInt;
    #[verifier::external_body]
    fn sub(self, rhs: &'b BigInt) -> (ret: BigInt) ensures ret@ == (self as int) - rhs@ { unimplemented!() }
}
impl vstd::std_specs::ops::SubAssignSpecImpl<u32> for BigInt {
    open spec fn obeys_sub_assign_spec() -> bool { false }
    open spec fn sub_assign_req(&self, rhs: u32) -> bool { true }
    open spec fn sub_assign_spec(&self, rhs: u32) -> &BigInt { arbitrary() }
}
impl core::ops::SubAssign<u32> for BigInt {
    #[verifier::external_body]
    fn sub_assign(&mut self, rhs: u32) ensures final(self)@ == old(self)@ - (rhs as int) { unimplemented!() }
}
impl vstd::std_specs::ops::SubSpecImpl<u64> for BigInt {
    open spec fn obeys_sub_spec() -> bool { false }
    open spec fn sub_req(self, rhs: u64) -> bool { true }
    open spec fn sub_spec(self, rhs: u64) -> BigInt { arbitrary() }
}
impl core::ops::Sub<u64> for BigInt {
    type Output = BigInt;
    #[verifier::external_body]
    fn sub(self, rhs: u64) -> (ret: BigInt) ensures ret@ == self@ - (rhs as int) { unimplemented!() }
}
impl vstd::std_specs::ops::SubSpecImpl<BigInt> for u64 {
    open spec fn obeys_sub_spec() -> bool { false }
    open spec fn sub_req(self, rhs: BigInt) -> bool { true }
    open spec fn sub_spec(self, rhs: BigInt) -> BigInt { arbitrary() }
}
impl core::ops::Sub<BigInt> for u64 {
    type Output = BigInt;
    #[verifier::external_body]
    fn sub(self, rhs: BigInt) -> (ret: BigInt) ensures ret@ == (self as int) - rhs@ { unimplemented!() }
}
impl<'a> vstd::std_specs::ops::SubSpecImpl<u64> for &'a BigInt {
    open spec fn obeys_sub_spec() -> bool { false }
    open spec fn sub_req(self, rhs: u64) -> bool { true }
    open spec fn sub_spec(self, rhs: u64) -> BigInt { arbitrary() }
}
impl<'a> core::ops::Sub<u64> for &'a BigInt {
    type Output = BigInt;
    #[verifier::external_body]
    fn sub(self, rhs: u64) -> (ret: BigInt) ensures ret@ == self@ - (rhs as int) { unimplemented!() }
}
impl<'b> vstd::std_specs::ops::SubSpecImpl<&'b BigInt> for u64 {
    open spec fn obeys_sub_spec() -> bool { false }
    open spec fn sub_req(self, rhs: &'b BigInt) -> bool { true }
    open spec fn sub_spec(self, rhs: &'b BigInt) -> BigInt { arbitrary() }
}
impl<'b> core::ops::Sub<&'b BigInt> for u64 {
    type Output = BigInt;
    #[verifier::external_body]
    fn sub(self, rhs: &'b BigInt) -> (ret: BigInt) ensures ret@ == (self as int) - rhs@ { unimplemented!() }
}
impl vstd::std_specs::ops::SubAssignSpecImpl<u64> for BigInt {
    open spec fn obeys_sub_assign_spec() -> bool { false }
    open spec fn sub_assign_req(&self, rhs: u64) -> bool { true }
    open spec fn sub_assign_spec(&self, rhs: u64) -> &BigInt { arbitrary() }
}
impl core::ops::SubAssign<u64> for BigInt {
    #[verifier::external_body]
    fn sub_assign(&mut self, rhs: u64) ensures final(self)@ == old(self)@ - (rhs as int) { unimplemented!() }
}
impl vstd::std_specs::ops::SubSpecImpl<u128> for BigInt {
    open spec fn obeys_sub_spec() -> bool { false }
    open spec fn sub_req(self, rhs: u128) -> bool { true }
    open spec fn sub_spec(self, rhs: u128) -> BigInt { arbitrary() }
}
impl core::ops::Sub<u128> for BigInt {
    type Output = BigInt;
    #[verifier::external_body]
    fn sub(self, rhs: u128) -> (ret: BigInt) ensures ret@ == self@ - (rhs as int) { unimplemented!() }
}
impl vstd::std_specs::ops::SubSpecImpl<BigInt> for u128 {
    open spec fn obeys_sub_spec() -> bool { false }
    open spec fn sub_req(self, rhs: BigInt) -> bool { true }
    open spec fn sub_spec(self, rhs: BigInt) -> BigInt { arbitrary() }
}
impl core::ops::Sub<BigInt> for u128 {
    type Output = BigInt;
    #[verifier::external_body]
    fn sub(self, rhs: BigInt) -> (ret: BigInt) ensures ret@ == (self as int) - rhs@ { unimplemented!() }
}
impl<'a> vstd::std_specs::ops::SubSpecImpl<u128> for &'a BigInt {
    open spec fn obeys_sub_spec() -> bool { false }
    open spec fn sub_req(self, rhs: u128) -> bool { true }
    open spec fn sub_spec(self, rhs: u128) -> BigInt { arbitrary() }
}
impl<'a> core::ops::Sub<u128> for &'a BigInt {
    type Output = BigInt;
    #[verifier::external_body]
    fn sub(self, rhs: u128) -> (ret: BigInt) ensures ret@ == self@ - (rhs as int) { unimplemented!() }
}
impl<'b> vstd::std_specs::ops::SubSpecImpl<&'b BigInt> for u128 {
    open spec fn obeys_sub_spec() -> bool { false }
    open spec fn sub_req(self, rhs: &'b BigInt) -> bool { true }
    open spec fn sub_spec(self, rhs: &'b BigInt) -> BigInt { arbitrary() }
}
impl<'b> core::ops::Sub<&'b BigInt> for u128 {
    type Output = BigInt;
    #[verifier::external_body]
    fn sub(self, rhs: &'b BigInt) -> (ret: BigInt) ensures ret@ == (self as int) - rhs@ { unimplemented!() }
}
impl vstd::std_specs::ops::SubAssignSpecImpl<u128> for BigInt {
    open spec fn obeys_sub_assign_spec() -> bool { false }
    open spec fn sub_assign_req(&self, rhs: u128) -> bool { true }
    open spec fn sub_assign_spec(&self, rhs: u128) -> &BigInt { arbitrary() }
}
impl core::ops::SubAssign<u128> for BigInt {
    #[verifier::external_body]
    fn sub_assign(&mut self, rhs: u128) ensures final(self)@ == old(self)@ - (rhs as int) { unimplemented!() }
}
impl vstd::std_specs::ops::SubSpecImpl<usize> for BigInt {
    open spec fn obeys_sub_spec() -> bool { false }
    open spec fn sub_req(self, rhs: usize) -> bool { true }
    open spec fn sub_spec(self, rhs: usize) -> BigInt { arbitrary() }
}
impl core::ops::Sub<usize> for BigInt {
    type Output = BigInt;
    #[verifier::external_body]
    fn sub(self, rhs: usize) -> (ret: BigInt) ensures ret@ == self@ - (rhs as int) { unimplemented!() }
}
impl vstd::std_specs::ops::SubSpecImpl<BigInt> for usize {
    open spec fn obeys_sub_spec() -> bool { false }
    open spec fn sub_req(self, rhs: BigInt) -> bool { true }
    open spec fn sub_spec(self, rhs: BigInt) -> BigInt { arbitrary() }
}
impl core::ops::Sub<BigInt> for usize {
    type Output = BigInt;
    #[verifier::external_body]
    fn sub(self, rhs: BigInt) -> (ret: BigInt) ensures ret@ == (self as int) - rhs@ { unimplemented!() }
}
impl<'a> vstd::std_specs::ops::SubSpecImpl<usize> for &'a BigInt {
    open spec fn obeys_sub_spec() -> bool { false }
    open spec fn sub_req(self, rhs: usize) -> bool { true }
    open spec fn sub_spec(self, rhs: usize) -> BigInt { arbitrary() }
}
impl<'a> core::ops::Sub<usize> for &'a BigInt {
    type Output = BigInt;
    #[verifier::external_body]
    fn sub(self, rhs: usize) -> (ret: BigInt) ensures ret@ == self@ - (rhs as int) { unimplemented!() }
}
impl<'b> vstd::std_specs::ops::SubSpecImpl<&'b BigInt> for usize {
    open spec fn obeys_sub_spec() -> bool { false }
    open spec fn sub_req(self, rhs: &'b BigInt) -> bool { true }
    open spec fn sub_spec(self, rhs: &'b BigInt) -> BigInt { arbitrary() }
}
impl<'b> core::ops::Sub<&'b BigInt> for usize {
    type Output = BigInt;
    #[verifier::external_body]
    fn sub(self, rhs: &'b BigInt) -> (ret: BigInt) ensures ret@ == (self as int) - rhs@ { unimplemented!() }
}
impl vstd::std_specs::ops::SubAssignSpecImpl<usize> for BigInt {
    open spec fn obeys_sub_assign_spec() -> bool { false }
    open spec fn sub_assign_req(&self, rhs: usize) -> bool { true }
    open spec fn sub_assign_spec(&self, rhs: usize) -> &BigInt { arbitrary() }
}
impl core::ops::SubAssign<usize> for BigInt {
    #[verifier::external_body]
    fn sub_assign(&mut self, rhs: usize) ensures final(self)@ == old(self)@ - (rhs as int) { unimplemented!() }
}
impl vstd::std_specs::ops::SubSpecImpl<i8> for BigInt {
    open spec fn obeys_sub_spec() -> bool { false }
    open spec fn sub_req(self, rhs: i8) -> bool { true }
    open spec fn sub_spec(self, rhs: i8) -> BigInt { arbitrary() }
}
impl core::ops::Sub<i8> for BigInt {
    type Output = BigInt;
    #[verifier::external_body]
    fn sub(self, rhs: i8) -> (ret: BigInt) ensures ret@ == self@ - (rhs as int) { unimplemented!() }
}
impl vstd::std_specs::ops::SubSpecImpl<BigInt> for i8 {
    open spec fn obeys_sub_spec() -> bool { false }
    open spec fn sub_req(self, rhs: BigInt) -> bool { true }
    open spec fn sub_spec(self, rhs: BigInt) -> BigInt { arbitrary() }
}
impl core::ops::Sub<BigInt> for i8 {
    type Output = BigInt;
    #[verifier::external_body]
    fn sub(self, rhs: BigInt) -> (ret: BigInt) ensures ret@ == (self as int) - rhs@ { unimplemented!() }
}
impl<'a> vstd::std_specs::ops::SubSpecImpl<i8> for &'a BigInt {
    open spec fn obeys_sub_spec() -> bool { false }
    open spec fn sub_req(self, rhs: i8) -> bool { true }
    open spec fn sub_spec(self, rhs: i8) -> BigInt { arbitrary() }
}
impl<'a> core::ops::Sub<i8> for &'a BigInt {
    type Output = BigInt;
    #[verifier::external_body]
    fn sub(self, rhs: i8) -> (ret: BigInt) ensures ret@ == self@ - (rhs as int) { unimplemented!() }
}
impl<'b> vstd::std_specs::ops::SubSpecImpl<&'b BigInt> for i8 {
    open spec fn obeys_sub_spec() -> bool { false }
    open spec fn sub_req(self, rhs: &'b BigInt) -> bool { true }
    open spec fn sub_spec(self, rhs: &'b BigInt) -> BigInt { arbitrary() }
}
impl<'b> core::ops::Sub<&'b BigInt> for i8 {
    type Output = BigInt;
    #[verifier::external_body]
    fn sub(self, rhs: &'b BigInt) -> (ret: BigInt) ensures ret@ == (self as int) - rhs@ { unimplemented!() }
}
impl vstd::std_specs::ops::SubAssignSpecImpl<i8> for BigInt {
    open spec fn obeys_sub_assign_spec() -> bool { false }
    open spec fn sub_assign_req(&self, rhs: i8) -> bool { true }
    open spec fn sub_assign_spec(&self, rhs: i8) -> &BigInt { arbitrary() }
}
impl core::ops::SubAssign<i8> for BigInt {
    #[verifier::external_body]
    fn sub_assign(&mut self, rhs: i8) ensures final(self)@ == old(self)@ - (rhs as int) { unimplemented!() }
}
impl vstd::std_specs::ops::SubSpecImpl<i16> for BigInt {
    open spec fn obeys_sub_spec() -> bool { false }
    open spec fn sub_req(self, rhs: i16) -> bool { true }
    open spec fn sub_spec(self, rhs: i16) -> BigInt { arbitrary() }
}
impl core::ops::Sub<i16> for BigInt {
    type Output = BigInt;
    #[verifier::external_body]
    fn sub(self, rhs: i16) -> (ret: BigInt) ensures ret@ == self@ - (rhs as int) { unimplemented!() }
}
impl vstd::std_specs::ops::SubSpecImpl<BigInt> for i16 {
    open spec fn obeys_sub_spec() -> bool { false }
    open spec fn sub_req(self, rhs: BigInt) -> bool { true }
    open spec fn sub_spec(self, rhs: BigInt) -> BigInt { arbitrary() }
}
impl core::ops::Sub<BigInt> for i16 {
    type Output = BigInt;
    #[verifier::external_body]
    fn sub(self, rhs: BigInt) -> (ret: BigInt) ensures ret@ == (self as int) - rhs@ { unimplemented!() }
}
impl<'a> vstd::std_specs::ops::SubSpecImpl<i16> for &'a BigInt {
    open spec fn obeys_sub_spec() -> bool { false }
    open spec fn sub_req(self, rhs: i16) -> bool { true }
    open spec fn sub_spec(self, rhs: i16) -> BigInt { arbitrary() }
}
impl<'a> core::ops::Sub<i16> for &'a BigInt {
    type Output = BigInt;
    #[verifier::external_body]
    fn sub(self, rhs: i16) -> (ret: BigInt) ensures ret@ == self@ - (rhs as int) { unimplemented!() }
}
impl<'b> vstd::std_specs::ops::SubSpecImpl<&'b BigInt> for i16 {
    open spec fn obeys_sub_spec() -> bool { false }
    open spec fn sub_req(self, rhs: &'b BigInt) -> bool { true }
    open spec fn sub_spec(self, rhs: &'b BigInt) -> BigInt { arbitrary() }
}
impl<'b> core::ops::Sub<&'b BigInt> for i16 {
    type Output = BigInt;
    #[verifier::external_body]
    fn sub(self, rhs: &'b BigInt) -> (ret: BigInt) ensures ret@ == (self as int) - rhs@ { unimplemented!() }
}
impl vstd::std_specs::ops::SubAssignSpecImpl<i16> for BigInt {
    open spec fn obeys_sub_assign_spec() -> bool { false }
    open spec fn sub_assign_req(&self, rhs: i16) -> bool { true }
    open spec fn sub_assign_spec(&self, rhs: i16) -> &BigInt { arbitrary() }
}
impl core::ops::SubAssign<i16> for BigInt {
    #[verifier::external_body]
    fn sub_assign(&mut self, rhs: i16) ensures final(self)@ == old(self)@ - (rhs as int) { unimplemented!() }
}
impl vstd::std_specs::ops::SubSpecImpl<i32> for BigInt {
    open spec fn obeys_sub_spec() -> bool { false }
    open spec fn sub_req(self, rhs: i32) -> bool { true }
    open spec fn sub_spec(self, rhs: i32) -> BigInt { arbitrary() }
}
impl core::ops::Sub<i32> for BigInt {
    type Output = BigInt;
    #[verifier::external_body]
    fn sub(self, rhs: i32) -> (ret: BigInt) ensures ret@ == self@ - (rhs as int) { unimplemented!() }
}
impl vstd::std_specs::ops::SubSpecImpl<BigInt> for i32 {
    open spec fn obeys_sub_spec() -> bool { false }
    open spec fn sub_req(self, rhs: BigInt) -> bool { true }
    open spec fn sub_spec(self, rhs: BigInt) -> BigInt { arbitrary() }
}
impl core::ops::Sub<BigInt> for i32 {
    type Output = BigInt;
    #[verifier::external_body]
    fn sub(self, rhs: BigInt) -> (ret: BigInt) ensures ret@ == (self as int) - rhs@ { unimplemented!() }
}
impl<'a> vstd::std_specs::ops::SubSpecImpl<i32> for &'a BigInt {
    open spec fn obeys_sub_spec() -> bool { false }
    open spec fn sub_req(self, rhs: i32) -> bool { true }
    open spec fn sub_spec(self, rhs: i32) -> BigInt { arbitrary() }
}
impl<'a> core::ops::Sub<i32> for &'a BigInt {
    type Output = BigInt;
    #[verifier::external_body]
    fn sub(self, rhs: i32) -> (ret: BigInt) ensures ret@ == self@ - (rhs as int) { unimplemented!() }
}
impl<'b> vstd::std_specs::ops::SubSpecImpl<&'b BigInt> for i32 {
    open spec fn obeys_sub_spec() -> bool { false }
    open spec fn sub_req(self, rhs: &'b BigInt) -> bool { true }
    open spec fn sub_spec(self, rhs: &'b BigInt) -> BigInt { arbitrary() }
}
impl<'b> core::ops::Sub<&'b BigInt> for i32 {
    type Output = BigInt;
    #[verifier::external_body]
    fn sub(self, rhs: &'b BigInt) -> (ret: BigInt) ensures ret@ == (self as int) - rhs@ { unimplemented!() }
}
impl vstd::std_specs::ops::SubAssignSpecImpl<i32> for BigInt {
    open spec fn obeys_sub_assign_spec() -> bool { false }
    open spec fn sub_assign_req(&self, rhs: i32) -> bool { true }
    open spec fn sub_assign_spec(&self, rhs: i32) -> &BigInt { arbitrary() }
}
impl core::ops::SubAssign<i32> for BigInt {
    #[verifier::external_body]
    fn sub_assign(&mut self, rhs: i32) ensures final(self)@ == old(self)@ - (rhs as int) { unimplemented!() }
}
impl vstd::std_specs::ops::SubSpecImpl<i64> for BigInt {
    open spec fn obeys_sub_spec() -> bool { false }
    open spec fn sub_req(self, rhs: i64) -> bool { true }
    open spec fn sub_spec(self, rhs: i64) -> BigInt { arbitrary() }
}
impl core::ops::Sub<i64> for BigInt {
    type Output = BigInt;
    #[verifier::external_body]
    fn sub(self, rhs: i64) -> (ret: BigInt) ensures ret@ == self@ - (rhs as int) { unimplemented!() }
}
impl vstd::std_specs::ops::SubSpecImpl<BigInt> for i64 {
    open spec fn obeys_sub_spec() -> bool { false }
    open spec fn sub_req(self, rhs: BigInt) -> bool { true }
    open spec fn sub_spec(self, rhs: BigInt) -> BigInt { arbitrary() }
}
impl core::ops::Sub<BigInt> for i64 {
    type Output = BigInt;
    #[verifier::external_body]
    fn sub(self, rhs: BigInt) -> (ret: BigInt) ensures ret@ == (self as int) - rhs@ { unimplemented!() }
}
impl<'a> vstd::std_specs::ops::SubSpecImpl<i64> for &'a BigInt {
    open spec fn obeys_sub_spec() -> bool { false }
    open spec fn sub_req(self, rhs: i64) -> bool { true }
    open spec fn sub_spec(self, rhs: i64) -> BigInt { arbitrary() }
}
impl<'a> core::ops::Sub<i64> for &'a BigInt {
    type Output = BigInt;
    #[verifier::external_body]
    fn sub(self, rhs: i64) -> (ret: BigInt) ensures ret@ == self@ - (rhs as int) { unimplemented!() }
}
impl<'b> vstd::std_specs::ops::SubSpecImpl<&'b BigInt> for i64 {
    open spec fn obeys_sub_spec() -> bool { false }
    open spec fn sub_req(self, rhs: &'b BigInt) -> bool { true }
    open spec fn sub_spec(self, rhs: &'b BigInt) -> BigInt { arbitrary() }
}
impl<'b> core::ops::Sub<&'b BigInt> for i64 {
    type Output = BigInt;
    #[verifier::external_body]
    fn sub(self, rhs: &'b BigInt) -> (ret: BigInt) ensures ret@ == (self as int) - rhs@ { unimplemented!() }
}
impl vstd::std_specs::ops::SubAssignSpecImpl<i64> for BigInt {
    open spec fn obeys_sub_assign_spec() -> bool { false }
    open spec fn sub_assign_req(&self, rhs: i64) -> bool { true }
    open spec fn sub_assign_spec(&self, rhs: i64) -> &BigInt { arbitrary() }
}
impl core::ops::SubAssign<i64> for BigInt {
    #[verifier::external_body]
    fn sub_assign(&mut self, rhs: i64) ensures final(self)@ == old(self)@ - (rhs as int) { unimplemented!() }
}
impl vstd::std_specs::ops::SubSpecImpl<i128> for BigInt {
    open spec fn obeys_sub_spec() -> bool { false }
    open spec fn sub_req(self, rhs: i128) -> bool { true }
    open spec fn sub_spec(self, rhs: i128) -> BigInt { arbitrary() }
}
impl core::ops::Sub<i128> for BigInt {
    type Output = BigInt;
    #[verifier::external_body]
    fn sub(self, rhs: i128) -> (ret: BigInt) ensures ret@ == self@ - (rhs as int) { unimplemented!() }
}
impl vstd::std_specs::ops::SubSpecImpl<BigInt> for i128 {
    open spec fn obeys_sub_spec() -> bool { false }
    open spec fn sub_req(self, rhs: BigInt) -> bool { true }
    open spec fn sub_spec(self, rhs: BigInt) -> BigInt { arbitrary() }
}
impl core::ops::Sub<BigInt> for i128 {
    type Output = BigInt;
    #[verifier::external_body]
    fn sub(self, rhs: BigInt) -> (ret: BigInt) ensures ret@ == (self as int) - rhs@ { unimplemented!() }
}
impl<'a> vstd::std_specs::ops::SubSpecImpl<i128> for &'a BigInt {
    open spec fn obeys_sub_spec() -> bool { false }
    open spec fn sub_req(self, rhs: i128) -> bool { true }
    open spec fn sub_spec(self, rhs: i128) -> BigInt { arbitrary() }
}
impl<'a> core::ops::Sub<i128> for &'a BigInt {
    type Output = BigInt;
    #[verifier::external_body]
    fn sub(self, rhs: i128) -> (ret: BigInt) ensures ret@ == self@ - (rhs as int) { unimplemented!() }
}
impl<'b> vstd::std_specs::ops::SubSpecImpl<&'b BigInt> for i128 {
    open spec fn obeys_sub_spec() -> bool { false }
    open spec fn sub_req(self, rhs: &'b BigInt) -> bool { true }
    open spec fn sub_spec(self, rhs: &'b BigInt) -> BigInt { arbitrary() }
}
impl<'b> core::ops::Sub<&'b BigInt> for i128 {
    type Output = BigInt;
    #[verifier::external_body]
    fn sub(self, rhs: &'b BigInt) -> (ret: BigInt) ensures ret@ == (self as int) - rhs@ { unimplemented!() }
}
impl vstd::std_specs::ops::SubAssignSpecImpl<i128> for BigInt {
    open spec fn obeys_sub_assign_spec() -> bool { false }
    open spec fn sub_assign_req(&self, rhs: i128) -> bool { true }
    open spec fn sub_assign_spec(&self, rhs: i128) -> &BigInt { arbitrary() }
}
impl core::ops::SubAssign<i128> for BigInt {
    #[verifier::external_body]
    fn sub_assign(&mut self, rhs: i128) ensures final(self)@ == old(self)@ - (rhs as int) { unimplemented!() }
}
impl vstd::std_specs::ops::SubSpecImpl<isize> for BigInt {
    open spec fn obeys_sub_spec() -> bool { false }
    open spec fn sub_req(self, rhs: isize) -> bool { true }
    open spec fn sub_spec(self, rhs: isize) -> BigInt { arbitrary() }
}
impl core::ops::Sub<isize> for BigInt {
    type Output = BigInt;
    #[verifier::external_body]
    fn sub(self, rhs: isize) -> (ret: BigInt) ensures ret@ == self@ - (rhs as int) { unimplemented!() }
}
impl vstd::std_specs::ops::SubSpecImpl<BigInt> for isize {
    open spec fn obeys_sub_spec() -> bool { false }
    open spec fn sub_req(self, rhs: BigInt) -> bool { true }
    open spec fn sub_spec(self, rhs: BigInt) -> BigInt { arbitrary() }
}
impl core::ops::Sub<BigInt> for isize {
    type Output = BigInt;
    #[verifier::external_body]
    fn sub(self, rhs: BigInt) -> (ret: BigInt) ensures ret@ == (self as int) - rhs@ { unimplemented!() }
}
impl<'a> vstd::std_specs::ops::SubSpecImpl<isize> for &'a BigInt {
    open spec fn obeys_sub_spec() -> bool { false }
    open spec fn sub_req(self, rhs: isize) -> bool { true }
    open spec fn sub_spec(self, rhs: isize) -> BigInt { arbitrary() }
}
impl<'a> core::ops::Sub<isize> for &'a BigInt {
    type Output = BigInt;
    #[verifier::external_body]
    fn sub(self, rhs: isize) -> (ret: BigInt) ensures ret@ == self@ - (rhs as int) { unimplemented!() }
}
impl<'b> vstd::std_specs::ops::SubSpecImpl<&'b BigInt> for isize {
    open spec fn obeys_sub_spec() -> bool { false }
    open spec fn sub_req(self, rhs: &'b BigInt) -> bool { true }
    open spec fn sub_spec(self, rhs: &'b BigInt) -> BigInt { arbitrary() }
}
impl<'b> core::ops::Sub<&'b BigInt> for isize {
    type Output = BigInt;
    #[verifier::external_body]
    fn sub(self, rhs: &'b BigInt) -> (ret: BigInt) ensures ret@ == (self as int) - rhs@ { unimplemented!() }
}
impl vstd::std_specs::ops::SubAssignSpecImpl<isize> for BigInt {
    open spec fn obeys_sub_assign_spec() -> bool { false }
    open spec fn sub_assign_req(&self, rhs: isize) -> bool { true }
    open spec fn sub_assign_spec(&self, rhs: isize) -> &BigInt { arbitrary() }
}
impl core::ops::SubAssign<isize> for BigInt {
    #[verifier::external_body]
    fn sub_assign(&mut self, rhs: isize) ensures final(self)@ == old(self)@ - (rhs as int) { unimplemented!() }
}
impl vstd::std_specs::ops::MulSpecImpl<BigInt> for BigInt {
    open spec fn obeys_mul_spec() -> bool { false }
    open spec fn mul_req(self, rhs: BigInt) -> bool { true }
    open spec fn mul_spec(self, rhs: BigInt) -> BigInt { arbitrary() }
}
impl core::ops::Mul<BigInt> for BigInt {
    type Output = BigInt;
    #[verifier::external_body]
    fn mul(self, rhs: BigInt) -> (ret: BigInt) ensures ret@ == self@ * rhs@ { unimplemented!() }
}
impl<'b> vstd::std_specs::ops::MulSpecImpl<&'b BigInt> for BigInt {
    open spec fn obeys_mul_spec() -> bool { false }
    open spec fn mul_req(self, rhs: &'b BigInt) -> bool { true }
    open spec fn mul_spec(self, rhs: &'b BigInt) -> BigInt { arbitrary() }
}
impl<'b> core::ops::Mul<&'b BigInt> for BigInt {
    type Output = BigInt;
    #[verifier::external_body]
    fn mul(self, rhs: &'b BigInt) -> (ret: BigInt) ensures ret@ == self@ * rhs@ { unimplemented!() }
}
impl<'a> vstd::std_specs::ops::MulSpecImpl<BigInt> for &'a BigInt {
    open spec fn obeys_mul_spec() -> bool { false }
    open spec fn mul_req(self, rhs: BigInt) -> bool { true }
    open spec fn mul_spec(self, rhs: BigInt) -> BigInt { arbitrary() }
}
impl<'a> core::ops::Mul<BigInt> for &'a BigInt {
    type Output = BigInt;
    #[verifier::external_body]
    fn mul(self, rhs: BigInt) -> (ret: BigInt) ensures ret@ == self@ * rhs@ { unimplemented!() }
}
impl<'a, 'b> vstd::std_specs::ops::MulSpecImpl<&'b BigInt> for &'a BigInt {
    open spec fn obeys_mul_spec() -> bool { false }
    open spec fn mul_req(self, rhs: &'b BigInt) -> bool { true }
    open spec fn mul_spec(self, rhs: &'b BigInt) -> BigInt { arbitrary() }
}
impl<'a, 'b> core::ops::Mul<&'b BigInt> for &'a BigInt {
    type Output = BigInt;
    #[verifier::external_body]
    fn mul(self, rhs: &'b BigInt) -> (ret: BigInt) ensures ret@ == self@ * rhs@ { unimplemented!() }
}
impl vstd::std_specs::ops::MulAssignSpecImpl<BigInt> for BigInt {
    open spec fn obeys_mul_assign_spec() -> bool { false }
    open spec fn mul_assign_req(&self, rhs: BigInt) -> bool { true }
    open spec fn mul_assign_spec(&self, rhs: BigInt) -> &BigInt { arbitrary() }
}
impl core::ops::MulAssign<BigInt> for BigInt {
    #[verifier::external_body]
    fn mul_assign(&mut self, rhs: BigInt) ensures final(self)@ == old(self)@ * rhs@ { unimplemented!() }
}
impl<'b> vstd::std_specs::ops::MulAssignSpecImpl<&'b BigInt> for BigInt {
    open spec fn obeys_mul_assign_spec() -> bool { false }
    open spec fn mul_assign_req(&self, rhs: &'b BigInt) -> bool { true }
    open spec fn mul_assign_spec(&self, rhs: &'b BigInt) -> &BigInt { arbitrary() }
}
impl<'b> core::ops::MulAssign<&'b BigInt> for BigInt {
    #[verifier::external_body]
    fn mul_assign(&mut self, rhs: &'b BigInt) ensures final(self)@ == old(self)@ * rhs@ { unimplemented!() }
}
impl vstd::std_specs::ops::MulSpecImpl<u8> for BigInt {
    open spec fn obeys_mul_spec() -> bool { false }
    open spec fn mul_req(self, rhs: u8) -> bool { true }
    open spec fn mul_spec(self, rhs: u8) -> BigInt { arbitrary() }
}
impl core::ops::Mul<u8> for BigInt {
    type Output = BigInt;
    #[verifier::external_body]
    fn mul(self, rhs: u8) -> (ret: BigInt) ensures ret@ == self@ * (rhs as int) { unimplemented!() }
}
impl vstd::std_specs::ops::MulSpecImpl<BigInt> for u8 {
    open spec fn obeys_mul_spec() -> bool { false }
    open spec fn mul_req(self, rhs: BigInt) -> bool { true }
    open spec fn mul_spec(self, rhs: BigInt) -> BigInt { arbitrary() }
}
impl core::ops::Mul<BigInt> for u8 {
    type Output = BigInt;
    #[verifier::external_body]
    fn mul(self, rhs: BigInt) -> (ret: BigInt) ensures ret@ == (self as int) * rhs@ { unimplemented!() }
}
impl<'a> vstd::std_specs::ops::MulSpecImpl<u8> for &'a BigInt {
    open spec fn obeys_mul_spec() -> bool { false }
    open spec fn mul_req(self, rhs: u8) -> bool { true }
    open spec fn mul_spec(self, rhs: u8) -> BigInt { arbitrary() }
}
impl<'a> core::ops::Mul<u8> for &'a BigInt {
    type Output = BigInt;
    #[verifier::external_body]
    fn mul(self, rhs: u8) -> (ret: BigInt) ensures ret@ == self@ * (rhs as int) { unimplemented!() }
}
impl<'b> vstd::std_specs::ops::MulSpecImpl<&'b BigInt> for u8 {
    open spec fn obeys_mul_spec() -> bool { false }
    open spec fn mul_req(self, rhs: &'b BigInt) -> bool { true }
    open spec fn mul_spec(self, rhs: &'b BigInt) -> BigInt { arbitrary() }
}
impl<'b> core::ops::Mul<&'b BigInt> for u8 {
    type Output = BigInt;
    #[verifier::external_body]
    fn mul(self, rhs: &'b BigInt) -> (ret: BigInt) ensures ret@ == (self as int) * rhs@ { unimplemented!() }
}
impl vstd::std_specs::ops::MulAssignSpecImpl<u8> for BigInt {
    open spec fn obeys_mul_assign_spec() -> bool { false }
    open spec fn mul_assign_req(&self, rhs: u8) -> bool { true }
    open spec fn mul_assign_spec(&self, rhs: u8) -> &BigInt { arbitrary() }
}
impl core::ops::MulAssign<u8> for BigInt {
    #[verifier::external_body]
    fn mul_assign(&mut self, rhs: u8) ensures final(self)@ == old(self)@ * (rhs as int) { unimplemented!() }
}
impl vstd::std_specs::ops::MulSpecImpl<u16> for BigInt {
    open spec fn obeys_mul_spec() -> bool { false }
    open spec fn mul_req(self, rhs: u16) -> bool { true }
    open spec fn mul_spec(self, rhs: u16) -> BigInt { arbitrary() }
}
impl core::ops::Mul<u16> for BigInt {
    type Output = BigInt;
    #[verifier::external_body]
    fn mul(self, rhs: u16) -> (ret: BigInt) ensures ret@ == self@ * (rhs as int) { unimplemented!() }
}
impl vstd::std_specs::ops::MulSpecImpl<BigInt> for u16 {
    open spec fn obeys_mul_spec() -> bool { false }
    open spec fn mul_req(self, rhs: BigInt) -> bool { true }
    open spec fn mul_spec(self, rhs: BigInt) -> BigInt { arbitrary() }
}
impl core::ops::Mul<BigInt> for u16 {
    type Output = BigInt;
    #[verifier::external_body]
    fn mul(self, rhs: BigInt) -> (ret: BigInt) ensures ret@ == (self as int) * rhs@ { unimplemented!() }
}
impl<'a> vstd::std_specs::ops::MulSpecImpl<u16> for &'a BigInt {
    open spec fn obeys_mul_spec() -> bool { false }
    open spec fn mul_req(self, rhs: u16) -> bool { true }
    open spec fn mul_spec(self, rhs: u16) -> BigInt { arbitrary() }
}
impl<'a> core::ops::Mul<u16> for &'a BigInt {
    type Output = BigInt;
    #[verifier::external_body]
    fn mul(self, rhs: u16) -> (ret: BigInt) ensures ret@ == self@ * (rhs as int) { unimplemented!() }
}
impl<'b> vstd::std_specs::ops::MulSpecImpl<&'b BigInt> for u16 {
    open spec fn obeys_mul_spec() -> bool { false }
    open spec fn mul_req(self, rhs: &'b BigInt) -> bool { true }
    open spec fn mul_spec(self, rhs: &'b BigInt) -> BigInt { arbitrary() }
}
impl<'b> core::ops::Mul<&'b BigInt> for u16 {
    type Output = BigInt;
    #[verifier::external_body]
    fn mul(self, rhs: &'b BigInt) -> (ret: BigInt) ensures ret@ == (self as int) * rhs@ { unimplemented!() }
}
impl vstd::std_specs::ops::MulAssignSpecImpl<u16> for BigInt {
    open spec fn obeys_mul_assign_spec() -> bool { false }
    open spec fn mul_assign_req(&self, rhs: u16) -> bool { true }
    open spec fn mul_assign_spec(&self, rhs: u16) -> &BigInt { arbitrary() }
}
impl core::ops::MulAssign<u16> for BigInt {
    #[verifier::external_body]
    fn mul_assign(&mut self, rhs: u16) ensures final(self)@ == old(self)@ * (rhs as int) { unimplemented!() }
}
impl vstd::std_specs::ops::MulSpecImpl<u32> for BigInt {
    open spec fn obeys_mul_spec() -> bool { false }
    open spec fn mul_req(self, rhs: u32) -> bool { true }
    open spec fn mul_spec(self, rhs: u32) -> BigInt { arbitrary() }
}
impl core::ops::Mul<u32> for BigInt {
    type Output = BigInt;
    #[verifier::external_body]
    fn mul(self, rhs: u32) -> (ret: BigInt) ensures ret@ == self@ * (rhs as int) { unimplemented!() }
}
impl vstd::std_specs::ops::MulSpecImpl<BigInt> for u32 {
    open spec fn obeys_mul_spec() -> bool { false }
    open spec fn mul_req(self, rhs: BigInt) -> bool { true }
    open spec fn mul_spec(self, rhs: BigInt) -> BigInt { arbitrary() }
}
impl core::ops::Mul<BigInt> for u32 {
    type Output = BigInt;
    #[verifier::external_body]
    fn mul(self, rhs: BigInt) -> (ret: BigInt) ensures ret@ == (self as int) * rhs@ { unimplemented!() }
}
impl<'a> vstd::std_specs::ops::MulSpecImpl<u32> for &'a BigInt {
    open spec fn obeys_mul_spec() -> bool { false }
    open spec fn mul_req(self, rhs: u32) -> bool { true }
    open spec fn mul_spec(self, rhs: u32) -> BigInt { arbitrary() }
}
impl<'a> core::ops::Mul<u32> for &'a BigInt {
    type Output = BigInt;
    #[verifier::external_body]
    fn mul(self, rhs: u32) -> (ret: BigInt) ensures ret@ == self@ * (rhs as int) { unimplemented!() }
}
impl<'b> vstd::std_specs::ops::MulSpecImpl<&'b BigInt> for u32 {
    open spec fn obeys_mul_spec() -> bool { false }
    open spec fn mul_req(self, rhs: &'b BigInt) -> bool { true }
    open spec fn mul_spec(self, rhs: &'b BigInt) -> BigInt { arbitrary() }
}
impl<'b> core::ops::Mul<&'b BigInt> for u32 {
    type Output = BigInt;
    #[verifier::external_body]
    fn mul(self, rhs: &'b BigInt) -> (ret: BigInt) ensures ret@ == (self as int) * rhs@ { unimplemented!() }
}
impl vstd::std_specs::ops::MulAssignSpecImpl<u32> for BigInt {
    open spec fn obeys_mul_assign_spec() -> bool { false }
    open spec fn mul_assign_req(&self, rhs: u32) -> bool { true }
    open spec fn mul_assign_spec(&self, rhs: u32) -> &BigInt { arbitrary() }
}
impl core::ops::MulAssign<u32> for BigInt {
    #[verifier::external_body]
    fn mul_assign(&mut self, rhs: u32) ensures final(self)@ == old(self)@ * (rhs as int) { unimplemented!() }
}
impl vstd::std_specs::ops::MulSpecImpl<u64> for BigInt {
    open spec fn obeys_mul_spec() -> bool { false }
    open spec fn mul_req(self, rhs: u64) -> bool { true }
    open spec fn mul_spec(self, rhs: u64) -> BigInt { arbitrary() }
}
impl core::ops::Mul<u64> for BigInt {
    type Output = BigInt;
    #[verifier::external_body]
    fn mul(self, rhs: u64) -> (ret: BigInt) ensures ret@ == self@ * (rhs as int) { unimplemented!() }
}
impl vstd::std_specs::ops::MulSpecImpl<BigInt> for u64 {
    open spec fn obeys_mul_spec() -> bool { false }
    open spec fn mul_req(self, rhs: BigInt) -> bool { true }
    open spec fn mul_spec(self, rhs: BigInt) -> BigInt { arbitrary() }
}
impl core::ops::Mul<BigInt> for u64 {
    type Output = BigInt;
    #[verifier::external_body]
    fn mul(self, rhs: BigInt) -> (ret: BigInt) ensures ret@ == (self as int) * rhs@ { unimplemented!() }
}
impl<'a> vstd::std_specs::ops::MulSpecImpl<u64> for &'a BigInt {
    open spec fn obeys_mul_spec() -> bool { false }
    open spec fn mul_req(self, rhs: u64) -> bool { true }
    open spec fn mul_spec(self, rhs: u64) -> BigInt { arbitrary() }
}
impl<'a> core::ops::Mul<u64> for &'a BigInt {
    type Output = BigInt;
    #[verifier::external_body]
    fn mul(self, rhs: u64) -> (ret: BigInt) ensures ret@ == self@ * (rhs as int) { unimplemented!() }
}
impl<'b> vstd::std_specs::ops::MulSpecImpl<&'b BigInt> for u64 {
    open spec fn obeys_mul_spec() -> bool { false }
    open spec fn mul_req(self, rhs: &'b BigInt) -> bool { true }
    open spec fn mul_spec(self, rhs: &'b BigInt) -> BigInt { arbitrary() }
}
impl<'b> core::ops::Mul<&'b BigInt> for u64 {
    type Output = BigInt;
    #[verifier::external_body]
    fn mul(self, rhs: &'b BigInt) -> (ret: BigInt) ensures ret@ == (self as int) * rhs@ { unimplemented!() }
}
impl vstd::std_specs::ops::MulAssignSpecImpl<u64> for BigInt {
    open spec fn obeys_mul_assign_spec() -> bool { false }
    open spec fn mul_assign_req(&self, rhs: u64) -> bool { true }
    open spec fn mul_assign_spec(&self, rhs: u64) -> &BigInt { arbitrary() }
}
impl core::ops::MulAssign<u64> for BigInt {
    #[verifier::external_body]
    fn mul_assign(&mut self, rhs: u64) ensures final(self)@ == old(self)@ * (rhs as int) { unimplemented!() }
}
impl vstd::std_specs::ops::MulSpecImpl<u128> for BigInt {
    open spec fn obeys_mul_spec() -> bool { false }
    open spec fn mul_req(self, rhs: u128) -> bool { true }
    open spec fn mul_spec(self, rhs: u128) -> BigInt { arbitrary() }
}
impl core::ops::Mul<u128> for BigInt {
    type Output = BigInt;
    #[verifier::external_body]
    fn mul(self, rhs: u128) -> (ret: BigInt) ensures ret@ == self@ * (rhs as int) { unimplemented!() }
}
impl vstd::std_specs::ops::MulSpecImpl<BigInt> for u128 {
    open spec fn obeys_mul_spec() -> bool { false }
    open spec fn mul_req(self, rhs: BigInt) -> bool { true }
    open spec fn mul_spec(self, rhs: BigInt) -> BigInt { arbitrary() }
}
impl core::ops::Mul<BigInt> for u128 {
    type Output = BigInt;
    #[verifier::external_body]
    fn mul(self, rhs: BigInt) -> (ret: BigInt) ensures ret@ == (self as int) * rhs@ { unimplemented!() }
}
impl<'a> vstd::std_specs::ops::MulSpecImpl<u128> for &'a BigInt {
    open spec fn obeys_mul_spec() -> bool { false }
    open spec fn mul_req(self, rhs: u128) -> bool { true }
    open spec fn mul_spec(self, rhs: u128) -> BigInt { arbitrary() }
}
impl<'a> core::ops::Mul<u128> for &'a BigInt {
    type Output = BigInt;
    #[verifier::external_body]
    fn mul(self, rhs: u128) -> (ret: BigInt) ensures ret@ == self@ * (rhs as int) { unimplemented!() }
}
impl<'b> vstd::std_specs::ops::MulSpecImpl<&'b BigInt> for u128 {
    open spec fn obeys_mul_spec() -> bool { false }
    open spec fn mul_req(self, rhs: &'b BigInt) -> bool { true }
    open spec fn mul_spec(self, rhs: &'b BigInt) -> BigInt { arbitrary() }
}
impl<'b> core::ops::Mul<&'b BigInt> for u128 {
    type Output = BigInt;
    #[verifier::external_body]
    fn mul(self, rhs: &'b BigInt) -> (ret: BigInt) ensures ret@ == (self as int) * rhs@ { unimplemented!() }
}
impl vstd::std_specs::ops::MulAssignSpecImpl<u128> for BigInt {
    open spec fn obeys_mul_assign_spec() -> bool { false }
    open spec fn mul_assign_req(&self, rhs: u128) -> bool { true }
    open spec fn mul_assign_spec(&self, rhs: u128) -> &BigInt { arbitrary() }
}
impl core::ops::MulAssign<u128> for BigInt {
    #[verifier::external_body]
    fn mul_assign(&mut self, rhs: u128) ensures final(self)@ == old(self)@ * (rhs as int) { unimplemented!() }
}
impl vstd::std_specs::ops::MulSpecImpl<usize> for BigInt {
    open spec fn obeys_mul_spec() -> bool { false }
    open spec fn mul_req(self, rhs: usize) -> bool { true }
    open spec fn mul_spec(self, rhs: usize) -> BigInt { arbitrary() }
}
impl core::ops::Mul<usize> for BigInt {
    type Output = BigInt;
    #[verifier::external_body]
    fn mul(self, rhs: usize) -> (ret: BigInt) ensures ret@ == self@ * (rhs as int) { unimplemented!() }
}
impl vstd::std_specs::ops::MulSpecImpl<BigInt> for usize {
    open spec fn obeys_mul_spec() -> bool { false }
    open spec fn mul_req(self, rhs: BigInt) -> bool { true }
    open spec fn mul_spec(self, rhs: BigInt) -> BigInt { arbitrary() }
}
impl core::ops::Mul<BigInt> for usize {
    type Output = BigInt;
    #[verifier::external_body]
    fn mul(self, rhs: BigInt) -> (ret: BigInt) ensures ret@ == (self as int) * rhs@ { unimplemented!() }
}
impl<'a> vstd::std_specs::ops::MulSpecImpl<usize> for &'a BigInt {
    open spec fn obeys_mul_spec() -> bool { false }
    open spec fn mul_req(self, rhs: usize) -> bool { true }
    open spec fn mul_spec(self, rhs: usize) -> BigInt { arbitrary() }
}
impl<'a> core::ops::Mul<usize> for &'a BigInt {
    type Output = BigInt;
    #[verifier::external_body]
    fn mul(self, rhs: usize) -> (ret: BigInt) ensures ret@ == self@ * (rhs as int) { unimplemented!() }
}
impl<'b> vstd::std_specs::ops::MulSpecImpl<&'b BigInt> for usize {
    open spec fn obeys_mul_spec() -> bool { false }
    open spec fn mul_req(self, rhs: &'b BigInt) -> bool { true }
    open spec fn mul_spec(self, rhs: &'b BigInt) -> BigInt { arbitrary() }
}
impl<'b> core::ops::Mul<&'b BigInt> for usize {
    type Output = BigInt;
    #[verifier::external_body]
    fn mul(self, rhs: &'b BigInt) -> (ret: BigInt) ensures ret@ == (self as int) * rhs@ { unimplemented!() }
}
impl vstd::std_specs::ops::MulAssignSpecImpl<usize> for BigInt {
    open spec fn obeys_mul_assign_spec() -> bool { false }
    open spec fn mul_assign_req(&self, rhs: usize) -> bool { true }
    open spec fn mul_assign_spec(&self, rhs: usize) -> &BigInt { arbitrary() }
}
impl core::ops::MulAssign<usize> for BigInt {
    #[verifier::external_body]
    fn mul_assign(&mut self, rhs: usize) ensures final(self)@ == old(self)@ * (rhs as int) { unimplemented!() }
}
impl vstd::std_specs::ops::MulSpecImpl<i8> for BigInt {
    open spec fn obeys_mul_spec() -> bool { false }
    open spec fn mul_req(self, rhs: i8) -> bool { true }
    open spec fn mul_spec(self, rhs: i8) -> BigInt { arbitrary() }
}
impl core::ops::Mul<i8> for BigInt {
    type Output = BigInt;
    #[verifier::external_body]
    fn mul(self, rhs: i8) -> (ret: BigInt) ensures ret@ == self@ * (rhs as int) { unimplemented!() }
}
impl vstd::std_specs::ops::MulSpecImpl<BigInt> for i8 {
    open spec fn obeys_mul_spec() -> bool { false }
    open spec fn mul_req(self, rhs: BigInt) -> bool { true }
    open spec fn mul_spec(self, rhs: BigInt) -> BigInt { arbitrary() }
}
impl core::ops::Mul<BigInt> for i8 {
    type Output = BigInt;
    #[verifier::external_body]
    fn mul(self, rhs: BigInt) -> (ret: BigInt) ensures ret@ == (self as int) * rhs@ { unimplemented!() }
}
impl<'a> vstd::std_specs::ops::MulSpecImpl<i8> for &'a BigInt {
    open spec fn obeys_mul_spec() -> bool { false }
    open spec fn mul_req(self, rhs: i8) -> bool { true }
    open spec fn mul_spec(self, rhs: i8) -> BigInt { arbitrary() }
}
impl<'a> core::ops::Mul<i8> for &'a BigInt {
    type Output = BigInt;
    #[verifier::external_body]
    fn mul(self, rhs: i8) -> (ret: BigInt) ensures ret@ == self@ * (rhs as int) { unimplemented!() }
}
impl<'b> vstd::std_specs::ops::MulSpecImpl<&'b BigInt> for i8 {
    open spec fn obeys_mul_spec() -> bool { false }
    open spec fn mul_req(self, rhs: &'b BigInt) -> bool { true }
    open spec fn mul_spec(self, rhs: &'b BigInt) -> BigInt { arbitrary() }
}
impl<'b> core::ops::Mul<&'b BigInt> for i8 {
    type Output = BigInt;
    #[verifier::external_body]
    fn mul(self, rhs: &'b BigInt) -> (ret: BigInt) ensures ret@ == (self as int) * rhs@ { unimplemented!() }
}
impl vstd::std_specs::ops::MulAssignSpecImpl<i8> for BigInt {
    open spec fn obeys_mul_assign_spec() -> bool { false }
    open spec fn mul_assign_req(&self, rhs: i8) -> bool { true }
    open spec fn mul_assign_spec(&self, rhs: i8) -> &BigInt { arbitrary() }
}
impl core::ops::MulAssign<i8> for BigInt {
    #[verifier::external_body]
    fn mul_assign(&mut self, rhs: i8) ensures final(self)@ == old(self)@ * (rhs as int) { unimplemented!() }
}
impl vstd::std_specs::ops::MulSpecImpl<i16> for BigInt {
    open spec fn obeys_mul_spec() -> bool { false }
    open spec fn mul_req(self, rhs: i16) -> bool { true }
    open spec fn mul_spec(self, rhs: i16) -> BigInt { arbitrary() }
}
impl core::ops::Mul<i16> for BigInt {
    type Output = BigInt;
    #[verifier::external_body]
    fn mul(self, rhs: i16) -> (ret: BigInt) ensures ret@ == self@ * (rhs as int) { unimplemented!() }
}
impl vstd::std_specs::ops::MulSpecImpl<BigInt> for i16 {
    open spec fn obeys_mul_spec() -> bool { false }
    open spec fn mul_req(self, rhs: BigInt) -> bool { true }
    open spec fn mul_spec(self, rhs: BigInt) -> BigInt { arbitrary() }
}
impl core::ops::Mul<BigInt> for i16 {
    type Output = BigInt;
    #[verifier::external_body]
    fn mul(self, rhs: BigInt) -> (ret: BigInt) ensures ret@ == (self as int) * rhs@ { unimplemented!() }
}
impl<'a> vstd::std_specs::ops::MulSpecImpl<i16> for &'a BigInt {
    open spec fn obeys_mul_spec() -> bool { false }
    open spec fn mul_req(self, rhs: i16) -> bool { true }
    open spec fn mul_spec(self, rhs: i16) -> BigInt { arbitrary() }
}
impl<'a> core::ops::Mul<i16> for &'a BigInt {
    type Output = BigInt;
    #[verifier::external_body]
    fn mul(self, rhs: i16) -> (ret: BigInt) ensures ret@ == self@ * (rhs as int) { unimplemented!() }
}
impl<'b> vstd::std_specs::ops::MulSpecImpl<&'b BigInt> for i16 {
    open spec fn obeys_mul_spec() -> bool { false }
    open spec fn mul_req(self, rhs: &'b BigInt) -> bool { true }
    open spec fn mul_spec(self, rhs: &'b BigInt) -> BigInt { arbitrary() }
}
impl<'b> core::ops::Mul<&'b BigInt> for i16 {
    type Output = BigInt;
    #[verifier::external_body]
    fn mul(self, rhs: &'b BigInt) -> (ret: BigInt) ensures ret@ == (self as int) * rhs@ { unimplemented!() }
}
impl vstd::std_specs::ops::MulAssignSpecImpl<i16> for BigInt {
    open spec fn obeys_mul_assign_spec() -> bool { false }
    open spec fn mul_assign_req(&self, rhs: i16) -> bool { true }
    open spec fn mul_assign_spec(&self, rhs: i16) -> &BigInt { arbitrary() }
}
impl core::ops::MulAssign<i16> for BigInt {
    #[verifier::external_body]
    fn mul_assign(&mut self, rhs: i16) ensures final(self)@ == old(self)@ * (rhs as int) { unimplemented!() }
}
impl vstd::std_specs::ops::MulSpecImpl<i32> for BigInt {
    open spec fn obeys_mul_spec() -> bool { false }
    open spec fn mul_req(self, rhs: i32) -> bool { true }
    open spec fn mul_spec(self, rhs: i32) -> BigInt { arbitrary() }
}
impl core::ops::Mul<i32> for BigInt {
    type Output = BigInt;
    #[verifier::external_body]
    fn mul(self, rhs: i32) -> (ret: BigInt) ensures ret@ == self@ * (rhs as int) { unimplemented!() }
}
impl vstd::std_specs::ops::MulSpecImpl<BigInt> for i32 {
    open spec fn obeys_mul_spec() -> bool { false }
    open spec fn mul_req(self, rhs: BigInt) -> bool { true }
    open spec fn mul_spec(self, rhs: BigInt) -> BigInt { arbitrary() }
}
impl core::ops::Mul<BigInt> for i32 {
    type Output = BigInt;
    #[verifier::external_body]
    fn mul(self, rhs: BigInt) -> (ret: BigInt) ensures ret@ == (self as int) * rhs@ { unimplemented!() }
}
impl<'a> vstd::std_specs::ops::MulSpecImpl<i32> for &'a BigInt {
    open spec fn obeys_mul_spec() -> bool { false }
    open spec fn mul_req(self, rhs: i32) -> bool { true }
    open spec fn mul_spec(self, rhs: i32) -> BigInt { arbitrary() }
}
impl<'a> core::ops::Mul<i32> for &'a BigInt {
    type Output = BigInt;
    #[verifier::external_body]
    fn mul(self, rhs: i32) -> (ret: BigInt) ensures ret@ == self@ * (rhs as int) { unimplemented!() }
}
impl<'b> vstd::std_specs::ops::MulSpecImpl<&'b BigInt> for i32 {
    open spec fn obeys_mul_spec() -> bool { false }
    open spec fn mul_req(self, rhs: &'b BigInt) -> bool { true }
    open spec fn mul_spec(self, rhs: &'b BigInt) -> BigInt { arbitrary() }
}
impl<'b> core::ops::Mul<&'b BigInt> for i32 {
    type Output = BigInt;
    #[verifier::external_body]
    fn mul(self, rhs: &'b BigInt) -> (ret: BigInt) ensures ret@ == (self as int) * rhs@ { unimplemented!() }
}
impl vstd::std_specs::ops::MulAssignSpecImpl<i32> for BigInt {
    open spec fn obeys_mul_assign_spec() -> bool { false }
    open spec fn mul_assign_req(&self, rhs: i32) -> bool { true }
    open spec fn mul_assign_spec(&self, rhs: i32) -> &BigInt { arbitrary() }
}
impl core::ops::MulAssign<i32> for BigInt {
    #[verifier::external_body]
    fn mul_assign(&mut self, rhs: i32) ensures final(self)@ == old(self)@ * (rhs as int) { unimplemented!() }
}
impl vstd::std_specs::ops::MulSpecImpl<i64> for BigInt {
    open spec fn obeys_mul_spec() -> bool { false }
    open spec fn mul_req(self, rhs: i64) -> bool { true }
    open spec fn mul_spec(self, rhs: i64) -> BigInt { arbitrary() }
}
impl core::ops::Mul<i64> for BigInt {
    type Output = BigInt;
    #[verifier::external_body]
    fn mul(self, rhs: i64) -> (ret: BigInt) ensures ret@ == self@ * (rhs as int) { unimplemented!() }
}
impl vstd::std_specs::ops::MulSpecImpl<BigInt> for i64 {
    open spec fn obeys_mul_spec() -> bool { false }
    open spec fn mul_req(self, rhs: BigInt) -> bool { true }
    open spec fn mul_spec(self, rhs: BigInt) -> BigInt { arbitrary() }
}
impl core::ops::Mul<BigInt> for i64 {
    type Output = BigInt;
    #[verifier::external_body]
    fn mul(self, rhs: BigInt) -> (ret: BigInt) ensures ret@ == (self as int) * rhs@ { unimplemented!() }
}
impl<'a> vstd::std_specs::ops::MulSpecImpl<i64> for &'a BigInt {
    open spec fn obeys_mul_spec() -> bool { false }
    open spec fn mul_req(self, rhs: i64) -> bool { true }
    open spec fn mul_spec(self, rhs: i64) -> BigInt { arbitrary() }
}
impl<'a> core::ops::Mul<i64> for &'a BigInt {
    type Output = BigInt;
    #[verifier::external_body]
    fn mul(self, rhs: i64) -> (ret: BigInt) ensures ret@ == self@ * (rhs as int) { unimplemented!() }
}
impl<'b> vstd::std_specs::ops::MulSpecImpl<&'b BigInt> for i64 {
    open spec fn obeys_mul_spec() -> bool { false }
    open spec fn mul_req(self, rhs: &'b BigInt) -> bool { true }
    open spec fn mul_spec(self, rhs: &'b BigInt) -> BigInt { arbitrary() }
}
impl<'b> core::ops::Mul<&'b BigInt> for i64 {
    type Output = BigInt;
    #[verifier::external_body]
    fn mul(self, rhs: &'b BigInt) -> (ret: BigInt) ensures ret@ == (self as int) * rhs@ { unimplemented!() }
}
impl vstd::std_specs::ops::MulAssignSpecImpl<i64> for BigInt {
    open spec fn obeys_mul_assign_spec() -> bool { false }
    open spec fn mul_assign_req(&self, rhs: i64) -> bool { true }
    open spec fn mul_assign_spec(&self, rhs: i64) -> &BigInt { arbitrary() }
}
impl core::ops::MulAssign<i64> for BigInt {
    #[verifier::external_body]
    fn mul_assign(&mut self, rhs: i64) ensures final(self)@ == old(self)@ * (rhs as int) { unimplemented!() }
}
impl vstd::std_specs::ops::MulSpecImpl<i128> for BigInt {
    open spec fn obeys_mul_spec() -> bool { false }
    open spec fn mul_req(self, rhs: i128) -> bool { true }
    open spec fn mul_spec(self, rhs: i128) -> BigInt { arbitrary() }
}
impl core::ops::Mul<i128> for BigInt {
    type Output = BigInt;
    #[verifier::external_body]
    fn mul(self, rhs: i128) -> (ret: BigInt) ensures ret@ == self@ * (rhs as int) { unimplemented!() }
}
impl vstd::std_specs::ops::MulSpecImpl<BigInt> for i128 {
    open spec fn obeys_mul_spec() -> bool { false }
    open spec fn mul_req(self, rhs: BigInt) -> bool { true }
    open spec fn mul_spec(self, rhs: BigInt) -> BigInt { arbitrary() }
}
impl core::ops::Mul<BigInt> for i128 {
    type Output = BigInt;
    #[verifier::external_body]
    fn mul(self, rhs: BigInt) -> (ret: BigInt) ensures ret@ == (self as int) * rhs@ { unimplemented!() }
}
impl<'a> vstd::std_specs::ops::MulSpecImpl<i128> for &'a BigInt {
    open spec fn obeys_mul_spec() -> bool { false }
    open spec fn mul_req(self, rhs: i128) -> bool { true }
    open spec fn mul_spec(self, rhs: i128) -> BigInt { arbitrary() }
}
impl<'a> core::ops::Mul<i128> for &'a BigInt {
    type Output = BigInt;
    #[verifier::external_body]
    fn mul(self, rhs: i128) -> (ret: BigInt) ensures ret@ == self@ * (rhs as int) { unimplemented!() }
}
impl<'b> vstd::std_specs::ops::MulSpecImpl<&'b BigInt> for i128 {
    open spec fn obeys_mul_spec() -> bool { false }
    open spec fn mul_req(self, rhs: &'b BigInt) -> bool { true }
    open spec fn mul_spec(self, rhs: &'b BigInt) -> BigInt { arbitrary() }
}
impl<'b> core::ops::Mul<&'b BigInt> for i128 {
    type Output = BigInt;
    #[verifier::external_body]
    fn mul(self, rhs: &'b BigInt) -> (ret: BigInt) ensures ret@ == (self as int) * rhs@ { unimplemented!() }
}
impl vstd::std_specs::ops::MulAssignSpecImpl<i128> for BigInt {
    open spec fn obeys_mul_assign_spec() -> bool { false }
    open spec fn mul_assign_req(&self, rhs: i128) -> bool { true }
    open spec fn mul_assign_spec(&self, rhs: i128) -> &BigInt { arbitrary() }
}
impl core::ops::MulAssign<i128> for BigInt {
    #[verifier::external_body]
    fn mul_assign(&mut self, rhs: i128) ensures final(self)@ == old(self)@ * (rhs as int) { unimplemented!() }
}
impl vstd::std_specs::ops::MulSpecImpl<isize> for BigInt {
    open spec fn obeys_mul_spec() -> bool { false }
    open spec fn mul_req(self, rhs: isize) -> bool { true }
    open spec fn mul_spec(self, rhs: isize) -> BigInt { arbitrary() }
}
impl core::ops::Mul<isize> for BigInt {
    type Output = BigInt;
    #[verifier::external_body]
    fn mul(self, rhs: isize) -> (ret: BigInt) ensures ret@ == self@ * (rhs as int) { unimplemented!() }
}
impl vstd::std_specs::ops::MulSpecImpl<BigInt> for isize {
    open spec fn obeys_mul_spec() -> bool { false }
    open spec fn mul_req(self, rhs: BigInt) -> bool { true }
    open spec fn mul_spec(self, rhs: BigInt) -> BigInt { arbitrary() }
}
impl core::ops::Mul<BigInt> for isize {
    type Output = BigInt;
    #[verifier::external_body]
    fn mul(self, rhs: BigInt) -> (ret: BigInt) ensures ret@ == (self as int) * rhs@ { unimplemented!() }
}
impl<'a> vstd::std_specs::ops::MulSpecImpl<isize> for &'a BigInt {
    open spec fn obeys_mul_spec() -> bool { false }
    open spec fn mul_req(self, rhs: isize) -> bool { true }
    open spec fn mul_spec(self, rhs: isize) -> BigInt { arbitrary() }
}
impl<'a> core::ops::Mul<isize> for &'a BigInt {
    type Output = BigInt;
    #[verifier::external_body]
    fn mul(self, rhs: isize) -> (ret: BigInt) ensures ret@ == self@ * (rhs as int) { unimplemented!() }
}
impl<'b> vstd::std_specs::ops::MulSpecImpl<&'b BigInt> for isize {
    open spec fn obeys_mul_spec() -> bool { false }
    open spec fn mul_req(self, rhs: &'b BigInt) -> bool { true }
    open spec fn mul_spec(self, rhs: &'b BigInt) -> BigInt { arbitrary() }
}
impl<'b> core::ops::Mul<&'b BigInt> for isize {
    type Output = BigInt;
    #[verifier::external_body]
    fn mul(self, rhs: &'b BigInt) -> (ret: BigInt) ensures ret@ == (self as int) * rhs@ { unimplemented!() }
}
impl vstd::std_specs::ops::MulAssignSpecImpl<isize> for BigInt {
    open spec fn obeys_mul_assign_spec() -> bool { false }
    open spec fn mul_assign_req(&self, rhs: isize) -> bool { true }
    open spec fn mul_assign_spec(&self, rhs: isize) -> &BigInt { arbitrary() }
}
impl core::ops::MulAssign<isize> for BigInt {
    #[verifier::external_body]
    fn mul_assign(&mut self, rhs: isize) ensures final(self)@ == old(self)@ * (rhs as int) { unimplemented!() }
}
impl vstd::std_specs::ops::DivSpecImpl<BigInt> for BigInt {
    open spec fn obeys_div_spec() -> bool { false }
    open spec fn div_req(self, rhs: BigInt) -> bool { true }
    open spec fn div_spec(self, rhs: BigInt) -> BigInt { arbitrary() }
}
impl core::ops::Div<BigInt> for BigInt {
    type Output = BigInt;
    #[verifier::external_body]
    fn div(self, rhs: BigInt) -> (ret: BigInt) ensures rhs@ != 0, ret@ == tdiv(self@, rhs@) { unimplemented!() }
}
impl<'b> vstd::std_specs::ops::DivSpecImpl<&'b BigInt> for BigInt {
    open spec fn obeys_div_spec() -> bool { false }
    open spec fn div_req(self, rhs: &'b BigInt) -> bool { true }
    open spec fn div_spec(self, rhs: &'b BigInt) -> BigInt { arbitrary() }
}
impl<'b> core::ops::Div<&'b BigInt> for BigInt {
    type Output = BigInt;
    #[verifier::external_body]
    fn div(self, rhs: &'b BigInt) -> (ret: BigInt) ensures rhs@ != 0, ret@ == tdiv(self@, rhs@) { unimplemented!() }
}
impl<'a> vstd::std_specs::ops::DivSpecImpl<BigInt> for &'a BigInt {
    open spec fn obeys_div_spec() -> bool { false }
    open spec fn div_req(self, rhs: BigInt) -> bool { true }
    open spec fn div_spec(self, rhs: BigInt) -> BigInt { arbitrary() }
}
impl<'a> core::ops::Div<BigInt> for &'a BigInt {
    type Output = BigInt;
    #[verifier::external_body]
    fn div(self, rhs: BigInt) -> (ret: BigInt) ensures rhs@ != 0, ret@ == tdiv(self@, rhs@) { unimplemented!() }
}
impl<'a, 'b> vstd::std_specs::ops::DivSpecImpl<&'b BigInt> for &'a BigInt {
    open spec fn obeys_div_spec() -> bool { false }
    open spec fn div_req(self, rhs: &'b BigInt) -> bool { true }
    open spec fn div_spec(self, rhs: &'b BigInt) -> BigInt { arbitrary() }
}
impl<'a, 'b> core::ops::Div<&'b BigInt> for &'a BigInt {
    type Output = BigInt;
    #[verifier::external_body]
    fn div(self, rhs: &'b BigInt) -> (ret: BigInt) ensures rhs@ != 0, ret@ == tdiv(self@, rhs@) { unimplemented!() }
}
impl vstd::std_specs::ops::DivAssignSpecImpl<BigInt> for BigInt {
    open spec fn obeys_div_assign_spec() -> bool { false }
    open spec fn div_assign_req(&self, rhs: BigInt) -> bool { true }
    open spec fn div_assign_spec(&self, rhs: BigInt) -> &BigInt { arbitrary() }
}
impl core::ops::DivAssign<BigInt> for BigInt {
    #[verifier::external_body]
    fn div_assign(&mut self, rhs: BigInt) ensures rhs@ != 0, final(self)@ == tdiv(old(self)@, rhs@) { unimplemented!() }
}
impl<'b> vstd::std_specs::ops::DivAssignSpecImpl<&'b BigInt> for BigInt {
    open spec fn obeys_div_assign_spec() -> bool { false }
    open spec fn div_assign_req(&self, rhs: &'b BigInt) -> bool { true }
    open spec fn div_assign_spec(&self, rhs: &'b BigInt) -> &BigInt { arbitrary() }
}
impl<'b> core::ops::DivAssign<&'b BigInt> for BigInt {
    #[verifier::external_body]
    fn div_assign(&mut self, rhs: &'b BigInt) ensures rhs@ != 0, final(self)@ == tdiv(old(self)@, rhs@) { unimplemented!() }
}
impl vstd::std_specs::ops::DivSpecImpl<u8> for BigInt {
    open spec fn obeys_div_spec() -> bool { false }
    open spec fn div_req(self, rhs: u8) -> bool { true }
    open spec fn div_spec(self, rhs: u8) -> BigInt { arbitrary() }
}
impl core::ops::Div<u8> for BigInt {
    type Output = BigInt;
    #[verifier::external_body]
    fn div(self, rhs: u8) -> (ret: BigInt) ensures (rhs as int) != 0, ret@ == tdiv(self@, (rhs as int)) { unimplemented!() }
}
impl vstd::std_specs::ops::DivSpecImpl<BigInt> for u8 {
    open spec fn obeys_div_spec() -> bool { false }
    open spec fn div_req(self, rhs: BigInt) -> bool { true }
    open spec fn div_spec(self, rhs: BigInt) -> BigInt { arbitrary() }
}
impl core::ops::Div<BigInt> for u8 {
    type Output = BigInt;
    #[verifier::external_body]
    fn div(self, rhs: BigInt) -> (ret: BigInt) ensures rhs@ != 0, ret@ == tdiv((self as int), rhs@) { unimplemented!() }
}
impl<'a> vstd::std_specs::ops::DivSpecImpl<u8> for &'a BigInt {
    open spec fn obeys_div_spec() -> bool { false }
    open spec fn div_req(self, rhs: u8) -> bool { true }
    open spec fn div_spec(self, rhs: u8) -> BigInt { arbitrary() }
}
impl<'a> core::ops::Div<u8> for &'a BigInt {
    type Output = BigInt;
    #[verifier::external_body]
    fn div(self, rhs: u8) -> (ret: BigInt) ensures (rhs as int) != 0, ret@ == tdiv(self@, (rhs as int)) { unimplemented!() }
}
impl<'b> vstd::std_specs::ops::DivSpecImpl<&'b BigInt> for u8 {
    open spec fn obeys_div_spec() -> bool { false }
    open spec fn div_req(self, rhs: &'b BigInt) -> bool { true }
    open spec fn div_spec(self, rhs: &'b BigInt) -> BigInt { arbitrary() }
}
impl<'b> core::ops::Div<&'b BigInt> for u8 {
    type Output = BigInt;
    #[verifier::external_body]
    fn div(self, rhs: &'b BigInt) -> (ret: BigInt) ensures rhs@ != 0, ret@ == tdiv((self as int), rhs@) { unimplemented!() }
}
impl vstd::std_specs::ops::DivAssignSpecImpl<u8> for BigInt {
    open spec fn obeys_div_assign_spec() -> bool { false }
    open spec fn div_assign_req(&self, rhs: u8) -> bool { true }
    open spec fn div_assign_spec(&self, rhs: u8) -> &BigInt { arbitrary() }
}
impl core::ops::DivAssign<u8> for BigInt {
    #[verifier::external_body]
    fn div_assign(&mut self, rhs: u8) ensures (rhs as int) != 0, final(self)@ == tdiv(old(self)@, (rhs as int)) { unimplemented!() }
}
impl vstd::std_specs::ops::DivSpecImpl<u16> for BigInt {
    open spec fn obeys_div_spec() -> bool { false }
    open spec fn div_req(self, rhs: u16) -> bool { true }
    open spec fn div_spec(self, rhs: u16) -> BigInt { arbitrary() }
}
impl core::ops::Div<u16> for BigInt {
    type Output = BigInt;
    #[verifier::external_body]
    fn div(self, rhs: u16) -> (ret: BigInt) ensures (rhs as int) != 0, ret@ == tdiv(self@, (rhs as int)) { unimplemented!() }
}
impl vstd::std_specs::ops::DivSpecImpl<BigInt> for u16 {
    open spec fn obeys_div_spec() -> bool { false }
    open spec fn div_req(self, rhs: BigInt) -> bool { true }
    open spec fn div_spec(self, rhs: BigInt) -> BigInt { arbitrary() }
}
impl core::ops::Div<BigInt> for u16 {
    type Output = BigInt;
    #[verifier::external_body]
    fn div(self, rhs: BigInt) -> (ret: BigInt) ensures rhs@ != 0, ret@ == tdiv((self as int), rhs@) { unimplemented!() }
}
impl<'a> vstd::std_specs::ops::DivSpecImpl<u16> for &'a BigInt {
    open spec fn obeys_div_spec() -> bool { false }
    open spec fn div_req(self, rhs: u16) -> bool { true }
    open spec fn div_spec(self, rhs: u16) -> BigInt { arbitrary() }
}
impl<'a> core::ops::Div<u16> for &'a BigInt {
    type Output = BigInt;
    #[verifier::external_body]
    fn div(self, rhs: u16) -> (ret: BigInt) ensures (rhs as int) != 0, ret@ == tdiv(self@, (rhs as int)) { unimplemented!() }
}
impl<'b> vstd::std_specs::ops::DivSpecImpl<&'b BigInt> for u16 {
    open spec fn obeys_div_spec() -> bool { false }
    open spec fn div_req(self, rhs: &'b BigInt) -> bool { true }
    open spec fn div_spec(self, rhs: &'b BigInt) -> BigInt { arbitrary() }
}
impl<'b> core::ops::Div<&'b BigInt> for u16 {
    type Output = BigInt;
    #[verifier::external_body]
    fn div(self, rhs: &'b BigInt) -> (ret: BigInt) ensures rhs@ != 0, ret@ == tdiv((self as int), rhs@) { unimplemented!() }
}
impl vstd::std_specs::ops::DivAssignSpecImpl<u16> for BigInt {
    open spec fn obeys_div_assign_spec() -> bool { false }
    open spec fn div_assign_req(&self, rhs: u16) -> bool { true }
    open spec fn div_assign_spec(&self, rhs: u16) -> &BigInt { arbitrary() }
}
impl core::ops::DivAssign<u16> for BigInt {
    #[verifier::external_body]
    fn div_assign(&mut self, rhs: u16) ensures (rhs as int) != 0, final(self)@ == tdiv(old(self)@, (rhs as int)) { unimplemented!() }
}
impl vstd::std_specs::ops::DivSpecImpl<u32> for BigInt {
    open spec fn obeys_div_spec() -> bool { false }
    open spec fn div_req(self, rhs: u32) -> bool { true }
    open spec fn div_spec(self, rhs: u32) -> BigInt { arbitrary() }
}
impl core::ops::Div<u32> for BigInt {
    type Output = BigInt;
    #[verifier::external_body]
    fn div(self, rhs: u32) -> (ret: BigInt) ensures (rhs as int) != 0, ret@ == tdiv(self@, (rhs as int)) { unimplemented!() }
}
impl vstd::std_specs::ops::DivSpecImpl<BigInt> for u32 {
    open spec fn obeys_div_spec() -> bool { false }
    open spec fn div_req(self, rhs: BigInt) -> bool { true }
    open spec fn div_spec(self, rhs: BigInt) -> BigInt { arbitrary() }
}
impl core::ops::Div<BigInt> for u32 {
    type Output = BigInt;
    #[verifier::external_body]
    fn div(self, rhs: BigInt) -> (ret: BigInt) ensures rhs@ != 0, ret@ == tdiv((self as int), rhs@) { unimplemented!() }
}
impl<'a> vstd::std_specs::ops::DivSpecImpl<u32> for &'a BigInt {
    open spec fn obeys_div_spec() -> bool { false }
    open spec fn div_req(self, rhs: u32) -> bool { true }
    open spec fn div_spec(self, rhs: u32) -> BigInt { arbitrary() }
}
impl<'a> core::ops::Div<u32> for &'a BigInt {
    type Output = BigInt;
    #[verifier::external_body]
    fn div(self, rhs: u32) -> (ret: BigInt) ensures (rhs as int) != 0, ret@ == tdiv(self@, (rhs as int)) { unimplemented!() }
}
impl<'b> vstd::std_specs::ops::DivSpecImpl<&'b BigInt> for u32 {
    open spec fn obeys_div_spec() -> bool { false }
    open spec fn div_req(self, rhs: &'b BigInt) -> bool { true }
    open spec fn div_spec(self, rhs: &'b BigInt) -> BigInt { arbitrary() }
}
impl<'b> core::ops::Div<&'b BigInt> for u32 {
    type Output = BigInt;
    #[verifier::external_body]
    fn div(self, rhs: &'b BigInt) -> (ret: BigInt) ensures rhs@ != 0, ret@ == tdiv((self as int), rhs@) { unimplemented!() }
}
impl vstd::std_specs::ops::DivAssignSpecImpl<u32> for BigInt {
    open spec fn obeys_div_assign_spec() -> bool { false }
    open spec fn div_assign_req(&self, rhs: u32) -> bool { true }
    open spec fn div_assign_spec(&self, rhs: u32) -> &BigInt { arbitrary() }
}
impl core::ops::DivAssign<u32> for BigInt {
    #[verifier::external_body]
    fn div_assign(&mut self, rhs: u32) ensures (rhs as int) != 0, final(self)@ == tdiv(old(self)@, (rhs as int)) { unimplemented!() }
}
impl vstd::std_specs::ops::DivSpecImpl<u64> for BigInt {
    open spec fn obeys_div_spec() -> bool { false }
    open spec fn div_req(self, rhs: u64) -> bool { true }
    open spec fn div_spec(self, rhs: u64) -> BigInt { arbitrary() }
}
impl core::ops::Div<u64> for BigInt {
    type Output = BigInt;
    #[verifier::external_body]
    fn div(self, rhs: u64) -> (ret: BigInt) ensures (rhs as int) != 0, ret@ == tdiv(self@, (rhs as int)) { unimplemented!() }
}
impl vstd::std_specs::ops::DivSpecImpl<BigInt> for u64 {
    open spec fn obeys_div_spec() -> bool { false }
    open spec fn div_req(self, rhs: BigInt) -> bool { true }
    open spec fn div_spec(self, rhs: BigInt) -> BigInt { arbitrary() }
}
impl core::ops::Div<BigInt> for u64 {
    type Output = BigInt;
    #[verifier::external_body]
    fn div(self, rhs: BigInt) -> (ret: BigInt) ensures rhs@ != 0, ret@ == tdiv((self as int), rhs@) { unimplemented!() }
}
impl<'a> vstd::std_specs::ops::DivSpecImpl<u64> for &'a BigInt {
    open spec fn obeys_div_spec() -> bool { false }
    open spec fn div_req(self, rhs: u64) -> bool { true }
    open spec fn div_spec(self, rhs: u64) -> BigInt { arbitrary() }
}
impl<'a> core::ops::Div<u64> for &'a BigInt {
    type Output = BigInt;
    #[verifier::external_body]
    fn div(self, rhs: u64) -> (ret: BigInt) ensures (rhs as int) != 0, ret@ == tdiv(self@, (rhs as int)) { unimplemented!() }
}
impl<'b> vstd::std_specs::ops::DivSpecImpl<&'b BigInt> for u64 {
    open spec fn obeys_div_spec() -> bool { false }
    open spec fn div_req(self, rhs: &'b BigInt) -> bool { true }
    open spec fn div_spec(self, rhs: &'b BigInt) -> BigInt { arbitrary() }
}
impl<'b> core::ops::Div<&'b BigInt> for u64 {
    type Output = BigInt;
    #[verifier::external_body]
    fn div(self, rhs: &'b BigInt) -> (ret: BigInt) ensures rhs@ != 0, ret@ == tdiv((self as int), rhs@) { unimplemented!() }
}
impl vstd::std_specs::ops::DivAssignSpecImpl<u64> for BigInt {
    open spec fn obeys_div_assign_spec() -> bool { false }
    open spec fn div_assign_req(&self, rhs: u64) -> bool { true }
    open spec fn div_assign_spec(&self, rhs: u64) -> &BigInt { arbitrary() }
}
impl core::ops::DivAssign<u64> for BigInt {
    #[verifier::external_body]
    fn div_assign(&mut self, rhs: u64) ensures (rhs as int) != 0, final(self)@ == tdiv(old(self)@, (rhs as int)) { unimplemented!() }
}
impl vstd::std_specs::ops::DivSpecImpl<u128> for BigInt {
    open spec fn obeys_div_spec() -> bool { false }
    open spec fn div_req(self, rhs: u128) -> bool { true }
    open spec fn div_spec(self, rhs: u128) -> BigInt { arbitrary() }
}
impl core::ops::Div<u128> for BigInt {
    type Output = BigInt;
    #[verifier::external_body]
    fn div(self, rhs: u128) -> (ret: BigInt) ensures (rhs as int) != 0, ret@ == tdiv(self@, (rhs as int)) { unimplemented!() }
}
impl vstd::std_specs::ops::DivSpecImpl<BigInt> for u128 {
    open spec fn obeys_div_spec() -> bool { false }
    open spec fn div_req(self, rhs: BigInt) -> bool { true }
    open spec fn div_spec(self, rhs: BigInt) -> BigInt { arbitrary() }
}
impl core::ops::Div<BigInt> for u128 {
    type Output = BigInt;
    #[verifier::external_body]
    fn div(self, rhs: BigInt) -> (ret: BigInt) ensures rhs@ != 0, ret@ == tdiv((self as int), rhs@) { unimplemented!() }
}
impl<'a> vstd::std_specs::ops::DivSpecImpl<u128> for &'a BigInt {
    open spec fn obeys_div_spec() -> bool { false }
    open spec fn div_req(self, rhs: u128) -> bool { true }
    open spec fn div_spec(self, rhs: u128) -> BigInt { arbitrary() }
}
impl<'a> core::ops::Div<u128> for &'a BigInt {
    type Output = BigInt;
    #[verifier::external_body]
    fn div(self, rhs: u128) -> (ret: BigInt) ensures (rhs as int) != 0, ret@ == tdiv(self@, (rhs as int)) { unimplemented!() }
}
impl<'b> vstd::std_specs::ops::DivSpecImpl<&'b BigInt> for u128 {
    open spec fn obeys_div_spec() -> bool { false }
    open spec fn div_req(self, rhs: &'b BigInt) -> bool { true }
    open spec fn div_spec(self, rhs: &'b BigInt) -> BigInt { arbitrary() }
}
impl<'b> core::ops::Div<&'b BigInt> for u128 {
    type Output = BigInt;
    #[verifier::external_body]
    fn div(self, rhs: &'b BigInt) -> (ret: BigInt) ensures rhs@ != 0, ret@ == tdiv((self as int), rhs@) { unimplemented!() }
}
impl vstd::std_specs::ops::DivAssignSpecImpl<u128> for BigInt {
    open spec fn obeys_div_assign_spec() -> bool { false }
    open spec fn div_assign_req(&self, rhs: u128) -> bool { true }
    open spec fn div_assign_spec(&self, rhs: u128) -> &BigInt { arbitrary() }
}
impl core::ops::DivAssign<u128> for BigInt {
    #[verifier::external_body]
    fn div_assign(&mut self, rhs: u128) ensures (rhs as int) != 0, final(self)@ == tdiv(old(self)@, (rhs as int)) { unimplemented!() }
}
impl vstd::std_specs::ops::DivSpecImpl<usize> for BigInt {
    open spec fn obeys_div_spec() -> bool { false }
    open spec fn div_req(self, rhs: usize) -> bool { true }
    open spec fn div_spec(self, rhs: usize) -> BigInt { arbitrary() }
}
impl core::ops::Div<usize> for BigInt {
    type Output = BigInt;
    #[verifier::external_body]
    fn div(self, rhs: usize) -> (ret: BigInt) ensures (rhs as int) != 0, ret@ == tdiv(self@, (rhs as int)) { unimplemented!() }
}
impl vstd::std_specs::ops::DivSpecImpl<BigInt> for usize {
    open spec fn obeys_div_spec() -> bool { false }
    open spec fn div_req(self, rhs: BigInt) -> bool { true }
    open spec fn div_spec(self, rhs: BigInt) -> BigInt { arbitrary() }
}
impl core::ops::Div<BigInt> for usize {
    type Output = BigInt;
    #[verifier::external_body]
    fn div(self, rhs: BigInt) -> (ret: BigInt) ensures rhs@ != 0, ret@ == tdiv((self as int), rhs@) { unimplemented!() }
}
impl<'a> vstd::std_specs::ops::DivSpecImpl<usize> for &'a BigInt {
    open spec fn obeys_div_spec() -> bool { false }
    open spec fn div_req(self, rhs: usize) -> bool { true }
    open spec fn div_spec(self, rhs: usize) -> BigInt { arbitrary() }
}
impl<'a> core::ops::Div<usize> for &'a BigInt {
    type Output = BigInt;
    #[verifier::external_body]
    fn div(self, rhs: usize) -> (ret: BigInt) ensures (rhs as int) != 0, ret@ == tdiv(self@, (rhs as int)) { unimplemented!() }
}
impl<'b> vstd::std_specs::ops::DivSpecImpl<&'b BigInt> for usize {
    open spec fn obeys_div_spec() -> bool { false }
    open spec fn div_req(self, rhs: &'b BigInt) -> bool { true }
    open spec fn div_spec(self, rhs: &'b BigInt) -> BigInt { arbitrary() }
}
impl<'b> core::ops::Div<&'b BigInt> for usize {
    type Output = BigInt;
    #[verifier::external_body]
    fn div(self, rhs: &'b BigInt) -> (ret: BigInt) ensures rhs@ != 0, ret@ == tdiv((self as int), rhs@) { unimplemented!() }
}
impl vstd::std_specs::ops::DivAssignSpecImpl<usize> for BigInt {
    open spec fn obeys_div_assign_spec() -> bool { false }
    open spec fn div_assign_req(&self, rhs: usize) -> bool { true }
    open spec fn div_assign_spec(&self, rhs: usize) -> &BigInt { arbitrary() }
}
impl core::ops::DivAssign<usize> for BigInt {
    #[verifier::external_body]
    fn div_assign(&mut self, rhs: usize) ensures (rhs as int) != 0, final(self)@ == tdiv(old(self)@, (rhs as int)) { unimplemented!() }
}
impl vstd::std_specs::ops::DivSpecImpl<i8> for BigInt {
    open spec fn obeys_div_spec() -> bool { false }
    open spec fn div_req(self, rhs: i8) -> bool { true }
    open spec fn div_spec(self, rhs: i8) -> BigInt { arbitrary() }
}
impl core::ops::Div<i8> for BigInt {
    type Output = BigInt;
    #[verifier::external_body]
    fn div(self, rhs: i8) -> (ret: BigInt) ensures (rhs as int) != 0, ret@ == tdiv(self@, (rhs as int)) { unimplemented!() }
}
impl vstd::std_specs::ops::DivSpecImpl<BigInt> for i8 {
    open spec fn obeys_div_spec() -> bool { false }
    open spec fn div_req(self, rhs: BigInt) -> bool { true }
    open spec fn div_spec(self, rhs: BigInt) -> BigInt { arbitrary() }
}
impl core::ops::Div<BigInt> for i8 {
    type Output = BigInt;
    #[verifier::external_body]
    fn div(self, rhs: BigInt) -> (ret: BigInt) ensures rhs@ != 0, ret@ == tdiv((self as int), rhs@) { unimplemented!() }
}
impl<'a> vstd::std_specs::ops::DivSpecImpl<i8> for &'a BigInt {
    open spec fn obeys_div_spec() -> bool { false }
    open spec fn div_req(self, rhs: i8) -> bool { true }
    open spec fn div_spec(self, rhs: i8) -> BigInt { arbitrary() }
}
impl<'a> core::ops::Div<i8> for &'a BigInt {
    type Output = BigInt;
    #[verifier::external_body]
    fn div(self, rhs: i8) -> (ret: BigInt) ensures (rhs as int) != 0, ret@ == tdiv(self@, (rhs as int)) { unimplemented!() }
}
impl<'b> vstd::std_specs::ops::DivSpecImpl<&'b BigInt> for i8 {
    open spec fn obeys_div_spec() -> bool { false }
    open spec fn div_req(self, rhs: &'b BigInt) -> bool { true }
    open spec fn div_spec(self, rhs: &'b BigInt) -> BigInt { arbitrary() }
}
impl<'b> core::ops::Div<&'b BigInt> for i8 {
    type Output = BigInt;
    #[verifier::external_body]
    fn div(self, rhs: &'b BigInt) -> (ret: BigInt) ensures rhs@ != 0, ret@ == tdiv((self as int), rhs@) { unimplemented!() }
}
impl vstd::std_specs::ops::DivAssignSpecImpl<i8> for BigInt {
    open spec fn obeys_div_assign_spec() -> bool { false }
    open spec fn div_assign_req(&self, rhs: i8) -> bool { true }
    open spec fn div_assign_spec(&self, rhs: i8) -> &BigInt { arbitrary() }
}
impl core::ops::DivAssign<i8> for BigInt {
    #[verifier::external_body]
    fn div_assign(&mut self, rhs: i8) ensures (rhs as int) != 0, final(self)@ == tdiv(old(self)@, (rhs as int)) { unimplemented!() }
}
impl vstd::std_specs::ops::DivSpecImpl<i16> for BigInt {
    open spec fn obeys_div_spec() -> bool { false }
    open spec fn div_req(self, rhs: i16) -> bool { true }
    open spec fn div_spec(self, rhs: i16) -> BigInt { arbitrary() }
}
impl core::ops::Div<i16> for BigInt {
    type Output = BigInt;
    #[verifier::external_body]
    fn div(self, rhs: i16) -> (ret: BigInt) ensures (rhs as int) != 0, ret@ == tdiv(self@, (rhs as int)) { unimplemented!() }
}
impl vstd::std_specs::ops::DivSpecImpl<BigInt> for i16 {
    open spec fn obeys_div_spec() -> bool { false }
    open spec fn div_req(self, rhs: BigInt) -> bool { true }
    open spec fn div_spec(self, rhs: BigInt) -> BigInt { arbitrary() }
}
impl core::ops::Div<BigInt> for i16 {
    type Output = BigInt;
    #[verifier::external_body]
    fn div(self, rhs: BigInt) -> (ret: BigInt) ensures rhs@ != 0, ret@ == tdiv((self as int), rhs@) { unimplemented!() }
}
impl<'a> vstd::std_specs::ops::DivSpecImpl<i16> for &'a BigInt {
    open spec fn obeys_div_spec() -> bool { false }
    open spec fn div_req(self, rhs: i16) -> bool { true }
    open spec fn div_spec(self, rhs: i16) -> BigInt { arbitrary() }
}
impl<'a> core::ops::Div<i16> for &'a BigInt {
    type Output = BigInt;
    #[verifier::external_body]
    fn div(self, rhs: i16) -> (ret: BigInt) ensures (rhs as int) != 0, ret@ == tdiv(self@, (rhs as int)) { unimplemented!() }
}
impl<'b> vstd::std_specs::ops::DivSpecImpl<&'b BigInt> for i16 {
    open spec fn obeys_div_spec() -> bool { false }
    open spec fn div_req(self, rhs: &'b BigInt) -> bool { true }
    open spec fn div_spec(self, rhs: &'b BigInt) -> BigInt { arbitrary() }
}
impl<'b> core::ops::Div<&'b BigInt> for i16 {
    type Output = BigInt;
    #[verifier::external_body]
    fn div(self, rhs: &'b BigInt) -> (ret: BigInt) ensures rhs@ != 0, ret@ == tdiv((self as int), rhs@) { unimplemented!() }
}
impl vstd::std_specs::ops::DivAssignSpecImpl<i16> for BigInt {
    open spec fn obeys_div_assign_spec() -> bool { false }
    open spec fn div_assign_req(&self, rhs: i16) -> bool { true }
    open spec fn div_assign_spec(&self, rhs: i16) -> &BigInt { arbitrary() }
}
impl core::ops::DivAssign<i16> for BigInt {
    #[verifier::external_body]
    fn div_assign(&mut self, rhs: i16) ensures (rhs as int) != 0, final(self)@ == tdiv(old(self)@, (rhs as int)) { unimplemented!() }
}
impl vstd::std_specs::ops::DivSpecImpl<i32> for BigInt {
    open spec fn obeys_div_spec() -> bool { false }
    open spec fn div_req(self, rhs: i32) -> bool { true }
    open spec fn div_spec(self, rhs: i32) -> BigInt { arbitrary() }
}
impl core::ops::Div<i32> for BigInt {
    type Output = BigInt;
    #[verifier::external_body]
    fn div(self, rhs: i32) -> (ret: BigInt) ensures (rhs as int) != 0, ret@ == tdiv(self@, (rhs as int)) { unimplemented!() }
}
impl vstd::std_specs::ops::DivSpecImpl<BigInt> for i32 {
    open spec fn obeys_div_spec() -> bool { false }
    open spec fn div_req(self, rhs: BigInt) -> bool { true }
    open spec fn div_spec(self, rhs: BigInt) -> BigInt { arbitrary() }
}
impl core::ops::Div<BigInt> for i32 {
    type Output = BigInt;
    #[verifier::external_body]
    fn div(self, rhs: BigInt) -> (ret: BigInt) ensures rhs@ != 0, ret@ == tdiv((self as int), rhs@) { unimplemented!() }
}
impl<'a> vstd::std_specs::ops::DivSpecImpl<i32> for &'a BigInt {
    open spec fn obeys_div_spec() -> bool { false }
    open spec fn div_req(self, rhs: i32) -> bool { true }
    open spec fn div_spec(self, rhs: i32) -> BigInt { arbitrary() }
}
impl<'a> core::ops::Div<i32> for &'a BigInt {
    type Output = BigInt;
    #[verifier::external_body]
    fn div(self, rhs: i32) -> (ret: BigInt) ensures (rhs as int) != 0, ret@ == tdiv(self@, (rhs as int)) { unimplemented!() }
}
impl<'b> vstd::std_specs::ops::DivSpecImpl<&'b BigInt> for i32 {
    open spec fn obeys_div_spec() -> bool { false }
    open spec fn div_req(self, rhs: &'b BigInt) -> bool { true }
    open spec fn div_spec(self, rhs: &'b BigInt) -> BigInt { arbitrary() }
}
impl<'b> core::ops::Div<&'b BigInt> for i32 {
    type Output = BigInt;
    #[verifier::external_body]
    fn div(self, rhs: &'b BigInt) -> (ret: BigInt) ensures rhs@ != 0, ret@ == tdiv((self as int), rhs@) { unimplemented!() }
}
impl vstd::std_specs::ops::DivAssignSpecImpl<i32> for BigInt {
    open spec fn obeys_div_assign_spec() -> bool { false }
    open spec fn div_assign_req(&self, rhs: i32) -> bool { true }
    open spec fn div_assign_spec(&self, rhs: i32) -> &BigInt { arbitrary() }
}
impl core::ops::DivAssign<i32> for BigInt {
    #[verifier::external_body]
    fn div_assign(&mut self, rhs: i32) ensures (rhs as int) != 0, final(self)@ == tdiv(old(self)@, (rhs as int)) { unimplemented!() }
}
impl vstd::std_specs::ops::DivSpecImpl<i64> for BigInt {
    open spec fn obeys_div_spec() -> bool { false }
    open spec fn div_req(self, rhs: i64) -> bool { true }
    open spec fn div_spec(self, rhs: i64) -> BigInt { arbitrary() }
}
impl core::ops::Div<i64> for BigInt {
    type Output = BigInt;
    #[verifier::external_body]
    fn div(self, rhs: i64) -> (ret: BigInt) ensures (rhs as int) != 0, ret@ == tdiv(self@, (rhs as int)) { unimplemented!() }
}
impl vstd::std_specs::ops::DivSpecImpl<BigInt> for i64 {
    open spec fn obeys_div_spec() -> bool { false }
    open spec fn div_req(self, rhs: BigInt) -> bool { true }
    open spec fn div_spec(self, rhs: BigInt) -> BigInt { arbitrary() }
}
impl core::ops::Div<BigInt> for i64 {
    type Output = BigInt;
    #[verifier::external_body]
    fn div(self, rhs: BigInt) -> (ret: BigInt) ensures rhs@ != 0, ret@ == tdiv((self as int), rhs@) { unimplemented!() }
}
impl<'a> vstd::std_specs::ops::DivSpecImpl<i64> for &'a BigInt {
    open spec fn obeys_div_spec() -> bool { false }
    open spec fn div_req(self, rhs: i64) -> bool { true }
    open spec fn div_spec(self, rhs: i64) -> BigInt { arbitrary() }
}
impl<'a> core::ops::Div<i64> for &'a BigInt {
    type Output = BigInt;
    #[verifier::external_body]
    fn div(self, rhs: i64) -> (ret: BigInt) ensures (rhs as int) != 0, ret@ == tdiv(self@, (rhs as int)) { unimplemented!() }
}
impl<'b> vstd::std_specs::ops::DivSpecImpl<&'b BigInt> for i64 {
    open spec fn obeys_div_spec() -> bool { false }
    open spec fn div_req(self, rhs: &'b BigInt) -> bool { true }
    open spec fn div_spec(self, rhs: &'b BigInt) -> BigInt { arbitrary() }
}
impl<'b> core::ops::Div<&'b BigInt> for i64 {
    type Output = BigInt;
    #[verifier::external_body]
    fn div(self, rhs: &'b BigInt) -> (ret: BigInt) ensures rhs@ != 0, ret@ == tdiv((self as int), rhs@) { unimplemented!() }
}
impl vstd::std_specs::ops::DivAssignSpecImpl<i64> for BigInt {
    open spec fn obeys_div_assign_spec() -> bool { false }
    open spec fn div_assign_req(&self, rhs: i64) -> bool { true }
    open spec fn div_assign_spec(&self, rhs: i64) -> &BigInt { arbitrary() }
}
impl core::ops::DivAssign<i64> for BigInt {
    #[verifier::external_body]
    fn div_assign(&mut self, rhs: i64) ensures (rhs as int) != 0, final(self)@ == tdiv(old(self)@, (rhs as int)) { unimplemented!() }
}
impl vstd::std_specs::ops::DivSpecImpl<i128> for BigInt {
    open spec fn obeys_div_spec() -> bool { false }
    open spec fn div_req(self, rhs: i128) -> bool { true }
    open spec fn div_spec(self, rhs: i128) -> BigInt { arbitrary() }
}
impl core::ops::Div<i128> for BigInt {
    type Output = BigInt;
    #[verifier::external_body]
    fn div(self, rhs: i128) -> (ret: BigInt) ensures (rhs as int) != 0, ret@ == tdiv(self@, (rhs as int)) { unimplemented!() }
}
impl vstd::std_specs::ops::DivSpecImpl<BigInt> for i128 {
    open spec fn obeys_div_spec() -> bool { false }
    open spec fn div_req(self, rhs: BigInt) -> bool { true }
    open spec fn div_spec(self, rhs: BigInt) -> BigInt { arbitrary() }
}
impl core::ops::Div<BigInt> for i128 {
    type Output = BigInt;
    #[verifier::external_body]
    fn div(self, rhs: BigInt) -> (ret: BigInt) ensures rhs@ != 0, ret@ == tdiv((self as int), rhs@) { unimplemented!() }
}
impl<'a> vstd::std_specs::ops::DivSpecImpl<i128> for &'a BigInt {
    open spec fn obeys_div_spec() -> bool { false }
    open spec fn div_req(self, rhs: i128) -> bool { true }
    open spec fn div_spec(self, rhs: i128) -> BigInt { arbitrary() }
}
impl<'a> core::ops::Div<i128> for &'a BigInt {
    type Output = BigInt;
    #[verifier::external_body]
    fn div(self, rhs: i128) -> (ret: BigInt) ensures (rhs as int) != 0, ret@ == tdiv(self@, (rhs as int)) { unimplemented!() }
}
impl<'b> vstd::std_specs::ops::DivSpecImpl<&'b BigInt> for i128 {
    open spec fn obeys_div_spec() -> bool { false }
    open spec fn div_req(self, rhs: &'b BigInt) -> bool { true }
    open spec fn div_spec(self, rhs: &'b BigInt) -> BigInt { arbitrary() }
}
impl<'b> core::ops::Div<&'b BigInt> for i128 {
    type Output = BigInt;
    #[verifier::external_body]
    fn div(self, rhs: &'b BigInt) -> (ret: BigInt) ensures rhs@ != 0, ret@ == tdiv((self as int), rhs@) { unimplemented!() }
}
impl vstd::std_specs::ops::DivAssignSpecImpl<i128> for BigInt {
    open spec fn obeys_div_assign_spec() -> bool { false }
    open spec fn div_assign_req(&self, rhs: i128) -> bool { true }
    open spec fn div_assign_spec(&self, rhs: i128) -> &BigInt { arbitrary() }
}
impl core::ops::DivAssign<i128> for BigInt {
    #[verifier::external_body]
    fn div_assign(&mut self, rhs: i128) ensures (rhs as int) != 0, final(self)@ == tdiv(old(self)@, (rhs as int)) { unimplemented!() }
}
impl vstd::std_specs::ops::DivSpecImpl<isize> for BigInt {
    open spec fn obeys_div_spec() -> bool { false }
    open spec fn div_req(self, rhs: isize) -> bool { true }
    open spec fn div_spec(self, rhs: isize) -> BigInt { arbitrary() }
}
impl core::ops::Div<isize> for BigInt {
    type Output = BigInt;
    #[verifier::external_body]
    fn div(self, rhs: isize) -> (ret: BigInt) ensures (rhs as int) != 0, ret@ == tdiv(self@, (rhs as int)) { unimplemented!() }
}
impl vstd::std_specs::ops::DivSpecImpl<BigInt> for isize {
    open spec fn obeys_div_spec() -> bool { false }
    open spec fn div_req(self, rhs: BigInt) -> bool { true }
    open spec fn div_spec(self, rhs: BigInt) -> BigInt { arbitrary() }
}
impl core::ops::Div<BigInt> for isize {
    type Output = BigInt;
    #[verifier::external_body]
    fn div(self, rhs: BigInt) -> (ret: BigInt) ensures rhs@ != 0, ret@ == tdiv((self as int), rhs@) { unimplemented!() }
}
impl<'a> vstd::std_specs::ops::DivSpecImpl<isize> for &'a BigInt {
    open spec fn obeys_div_spec() -> bool { false }
    open spec fn div_req(self, rhs: isize) -> bool { true }
    open spec fn div_spec(self, rhs: isize) -> BigInt { arbitrary() }
}
impl<'a> core::ops::Div<isize> for &'a BigInt {
    type Output = BigInt;
    #[verifier::external_body]
    fn div(self, rhs: isize) -> (ret: BigInt) ensures (rhs as int) != 0, ret@ == tdiv(self@, (rhs as int)) { unimplemented!() }
}
impl<'b> vstd::std_specs::ops::DivSpecImpl<&'b BigInt> for isize {
    open spec fn obeys_div_spec() -> bool { false }
    open spec fn div_req(self, rhs: &'b BigInt) -> bool { true }
    open spec fn div_spec(self, rhs: &'b BigInt) -> BigInt { arbitrary() }
}
impl<'b> core::ops::Div<&'b BigInt> for isize {
    type Output = BigInt;
    #[verifier::external_body]
    fn div(self, rhs: &'b BigInt) -> (ret: BigInt) ensures rhs@ != 0, ret@ == tdiv((self as int), rhs@) { unimplemented!() }
}
impl vstd::std_specs::ops::DivAssignSpecImpl<isize> for BigInt {
    open spec fn obeys_div_assign_spec() -> bool { false }
    open spec fn div_assign_req(&self, rhs: isize) -> bool { true }
    open spec fn div_assign_spec(&self, rhs: isize) -> &BigInt { arbitrary() }
}
impl core::ops::DivAssign<isize> for BigInt {
    #[verifier::external_body]
    fn div_assign(&mut self, rhs: isize) ensures (rhs as int) != 0, final(self)@ == tdiv(old(self)@, (rhs as int)) { unimplemented!() }
}
impl vstd::std_specs::ops::RemSpecImpl<BigInt> for BigInt {
    open spec fn obeys_rem_spec() -> bool { false }
    open spec fn rem_req(self, rhs: BigInt) -> bool { true }
    open spec fn rem_spec(self, rhs: BigInt) -> BigInt { arbitrary() }
}
impl core::ops::Rem<BigInt> for BigInt {
    type Output = BigInt;
    #[verifier::external_body]
    fn rem(self, rhs: BigInt) -> (ret: BigInt) ensures rhs@ != 0, ret@ == trem(self@, rhs@) { unimplemented!() }
}
impl<'b> vstd::std_specs::ops::RemSpecImpl<&'b BigInt> for BigInt {
    open spec fn obeys_rem_spec() -> bool { false }
    open spec fn rem_req(self, rhs: &'b BigInt) -> bool { true }
    open spec fn rem_spec(self, rhs: &'b BigInt) -> BigInt { arbitrary() }
}
impl<'b> core::ops::Rem<&'b BigInt> for BigInt {
    type Output = BigInt;
    #[verifier::external_body]
    fn rem(self, rhs: &'b BigInt) -> (ret: BigInt) ensures rhs@ != 0, ret@ == trem(self@, rhs@) { unimplemented!() }
}
impl<'a> vstd::std_specs::ops::RemSpecImpl<BigInt> for &'a BigInt {
    open spec fn obeys_rem_spec() -> bool { false }
    open spec fn rem_req(self, rhs: BigInt) -> bool { true }
    open spec fn rem_spec(self, rhs: BigInt) -> BigInt { arbitrary() }
}
impl<'a> core::ops::Rem<BigInt> for &'a BigInt {
    type Output = BigInt;
    #[verifier::external_body]
    fn rem(self, rhs: BigInt) -> (ret: BigInt) ensures rhs@ != 0, ret@ == trem(self@, rhs@) { unimplemented!() }
}
impl<'a, 'b> vstd::std_specs::ops::RemSpecImpl<&'b BigInt> for &'a BigInt {
    open spec fn obeys_rem_spec() -> bool { false }
    open spec fn rem_req(self, rhs: &'b BigInt) -> bool { true }
    open spec fn rem_spec(self, rhs: &'b BigInt) -> BigInt { arbitrary() }
}
impl<'a, 'b> core::ops::Rem<&'b BigInt> for &'a BigInt {
    type Output = BigInt;
    #[verifier::external_body]
    fn rem(self, rhs: &'b BigInt) -> (ret: BigInt) ensures rhs@ != 0, ret@ == trem(self@, rhs@) { unimplemented!() }
}
impl vstd::std_specs::ops::RemAssignSpecImpl<BigInt> for BigInt {
    open spec fn obeys_rem_assign_spec() -> bool { false }
    open spec fn rem_assign_req(&self, rhs: BigInt) -> bool { true }
    open spec fn rem_assign_spec(&self, rhs: BigInt) -> &BigInt { arbitrary() }
}
impl core::ops::RemAssign<BigInt> for BigInt {
    #[verifier::external_body]
    fn rem_assign(&mut self, rhs: BigInt) ensures rhs@ != 0, final(self)@ == trem(old(self)@, rhs@) { unimplemented!() }
}
impl<'b> vstd::std_specs::ops::RemAssignSpecImpl<&'b BigInt> for BigInt {
    open spec fn obeys_rem_assign_spec() -> bool { false }
    open spec fn rem_assign_req(&self, rhs: &'b BigInt) -> bool { true }
    open spec fn rem_assign_spec(&self, rhs: &'b BigInt) -> &BigInt { arbitrary() }
}
impl<'b> core::ops::RemAssign<&'b BigInt> for BigInt {
    #[verifier::external_body]
    fn rem_assign(&mut self, rhs: &'b BigInt) ensures rhs@ != 0, final(self)@ == trem(old(self)@, rhs@) { unimplemented!() }
}
impl vstd::std_specs::ops::RemSpecImpl<u8> for BigInt {
    open spec fn obeys_rem_spec() -> bool { false }
    open spec fn rem_req(self, rhs: u8) -> bool { true }
    open spec fn rem_spec(self, rhs: u8) -> BigInt { arbitrary() }
}
impl core::ops::Rem<u8> for BigInt {
    type Output = BigInt;
    #[verifier::external_body]
    fn rem(self, rhs: u8) -> (ret: BigInt) ensures (rhs as int) != 0, ret@ == trem(self@, (rhs as int)) { unimplemented!() }
}
impl vstd::std_specs::ops::RemSpecImpl<BigInt> for u8 {
    open spec fn obeys_rem_spec() -> bool { false }
    open spec fn rem_req(self, rhs: BigInt) -> bool { true }
    open spec fn rem_spec(self, rhs: BigInt) -> BigInt { arbitrary() }
}
impl core::ops::Rem<BigInt> for u8 {
    type Output = BigInt;
    #[verifier::external_body]
    fn rem(self, rhs: BigInt) -> (ret: BigInt) ensures rhs@ != 0, ret@ == trem((self as int), rhs@) { unimplemented!() }
}
impl<'a> vstd::std_specs::ops::RemSpecImpl<u8> for &'a BigInt {
    open spec fn obeys_rem_spec() -> bool { false }
    open spec fn rem_req(self, rhs: u8) -> bool { true }
    open spec fn rem_spec(self, rhs: u8) -> BigInt { arbitrary() }
}
impl<'a> core::ops::Rem<u8> for &'a BigInt {
    type Output = BigInt;
    #[verifier::external_body]
    fn rem(self, rhs: u8) -> (ret: BigInt) ensures (rhs as int) != 0, ret@ == trem(self@, (rhs as int)) { unimplemented!() }
}
impl<'b> vstd::std_specs::ops::RemSpecImpl<&'b BigInt> for u8 {
    open spec fn obeys_rem_spec() -> bool { false }
    open spec fn rem_req(self, rhs: &'b BigInt) -> bool { true }
    open spec fn rem_spec(self, rhs: &'b BigInt) -> BigInt { arbitrary() }
}
impl<'b> core::ops::Rem<&'b BigInt> for u8 {
    type Output = BigInt;
    #[verifier::external_body]
    fn rem(self, rhs: &'b BigInt) -> (ret: BigInt) ensures rhs@ != 0, ret@ == trem((self as int), rhs@) { unimplemented!() }
}
impl vstd::std_specs::ops::RemAssignSpecImpl<u8> for BigInt {
    open spec fn obeys_rem_assign_spec() -> bool { false }
    open spec fn rem_assign_req(&self, rhs: u8) -> bool { true }
    open spec fn rem_assign_spec(&self, rhs: u8) -> &BigInt { arbitrary() }
}
impl core::ops::RemAssign<u8> for BigInt {
    #[verifier::external_body]
    fn rem_assign(&mut self, rhs: u8) ensures (rhs as int) != 0, final(self)@ == trem(old(self)@, (rhs as int)) { unimplemented!() }
}
impl vstd::std_specs::ops::RemSpecImpl<u16> for BigInt {
    open spec fn obeys_rem_spec() -> bool { false }
    open spec fn rem_req(self, rhs: u16) -> bool { true }
    open spec fn rem_spec(self, rhs: u16) -> BigInt { arbitrary() }
}
impl core::ops::Rem<u16> for BigInt {
    type Output = BigInt;
    #[verifier::external_body]
    fn rem(self, rhs: u16) -> (ret: BigInt) ensures (rhs as int) != 0, ret@ == trem(self@, (rhs as int)) { unimplemented!() }
}
impl vstd::std_specs::ops::RemSpecImpl<BigInt> for u16 {
    open spec fn obeys_rem_spec() -> bool { false }
    open spec fn rem_req(self, rhs: BigInt) -> bool { true }
    open spec fn rem_spec(self, rhs: BigInt) -> BigInt { arbitrary() }
}
impl core::ops::Rem<BigInt> for u16 {
    type Output = BigInt;
    #[verifier::external_body]
    fn rem(self, rhs: BigInt) -> (ret: BigInt) ensures rhs@ != 0, ret@ == trem((self as int), rhs@) { unimplemented!() }
}
impl<'a> vstd::std_specs::ops::RemSpecImpl<u16> for &'a BigInt {
    open spec fn obeys_rem_spec() -> bool { false }
    open spec fn rem_req(self, rhs: u16) -> bool { true }
    open spec fn rem_spec(self, rhs: u16) -> BigInt { arbitrary() }
}
impl<'a> core::ops::Rem<u16> for &'a BigInt {
    type Output = BigInt;
    #[verifier::external_body]
    fn rem(self, rhs: u16) -> (ret: BigInt) ensures (rhs as int) != 0, ret@ == trem(self@, (rhs as int)) { unimplemented!() }
}
impl<'b> vstd::std_specs::ops::RemSpecImpl<&'b BigInt> for u16 {
    open spec fn obeys_rem_spec() -> bool { false }
    open spec fn rem_req(self, rhs: &'b BigInt) -> bool { true }
    open spec fn rem_spec(self, rhs: &'b BigInt) -> BigInt { arbitrary() }
}
impl<'b> core::ops::Rem<&'b BigInt> for u16 {
    type Output = BigInt;
    #[verifier::external_body]
    fn rem(self, rhs: &'b BigInt) -> (ret: BigInt) ensures rhs@ != 0, ret@ == trem((self as int), rhs@) { unimplemented!() }
}
impl vstd::std_specs::ops::RemAssignSpecImpl<u16> for BigInt {
    open spec fn obeys_rem_assign_spec() -> bool { false }
    open spec fn rem_assign_req(&self, rhs: u16) -> bool { true }
    open spec fn rem_assign_spec(&self, rhs: u16) -> &BigInt { arbitrary() }
}
impl core::ops::RemAssign<u16> for BigInt {
    #[verifier::external_body]
    fn rem_assign(&mut self, rhs: u16) ensures (rhs as int) != 0, final(self)@ == trem(old(self)@, (rhs as int)) { unimplemented!() }
}
impl vstd::std_specs::ops::RemSpecImpl<u32> for BigInt {
    open spec fn obeys_rem_spec() -> bool { false }
    open spec fn rem_req(self, rhs: u32) -> bool { true }
    open spec fn rem_spec(self, rhs: u32) -> BigInt { arbitrary() }
}
impl core::ops::Rem<u32> for BigInt {
    type Output = BigInt;
    #[verifier::external_body]
    fn rem(self, rhs: u32) -> (ret: BigInt) ensures (rhs as int) != 0, ret@ == trem(self@, (rhs as int)) { unimplemented!() }
}
impl vstd::std_specs::ops::RemSpecImpl<BigInt> for u32 {
    open spec fn obeys_rem_spec() -> bool { false }
    open spec fn rem_req(self, rhs: BigInt) -> bool { true }
    open spec fn rem_spec(self, rhs: BigInt) -> BigInt { arbitrary() }
}
impl core::ops::Rem<BigInt> for u32 {
    type Output = BigInt;
    #[verifier::external_body]
    fn rem(self, rhs: BigInt) -> (ret: BigInt) ensures rhs@ != 0, ret@ == trem((self as int), rhs@) { unimplemented!() }
}
impl<'a> vstd::std_specs::ops::RemSpecImpl<u32> for &'a BigInt {
    open spec fn obeys_rem_spec() -> bool { false }
    open spec fn rem_req(self, rhs: u32) -> bool { true }
    open spec fn rem_spec(self, rhs: u32) -> BigInt { arbitrary() }
}
impl<'a> core::ops::Rem<u32> for &'a BigInt {
    type Output = BigInt;
    #[verifier::external_body]
    fn rem(self, rhs: u32) -> (ret: BigInt) ensures (rhs as int) != 0, ret@ == trem(self@, (rhs as int)) { unimplemented!() }
}
impl<'b> vstd::std_specs::ops::RemSpecImpl<&'b BigInt> for u32 {
    open spec fn obeys_rem_spec() -> bool { false }
    open spec fn rem_req(self, rhs: &'b BigInt) -> bool { true }
    open spec fn rem_spec(self, rhs: &'b BigInt) -> BigInt { arbitrary() }
}
impl<'b> core::ops::Rem<&'b BigInt> for u32 {
    type Output = BigInt;
    #[verifier::external_body]
    fn rem(self, rhs: &'b BigInt) -> (ret: BigInt) ensures rhs@ != 0, ret@ == trem((self as int), rhs@) { unimplemented!() }
}
impl vstd::std_specs::ops::RemAssignSpecImpl<u32> for BigInt {
    open spec fn obeys_rem_assign_spec() -> bool { false }
    open spec fn rem_assign_req(&self, rhs: u32) -> bool { true }
    open spec fn rem_assign_spec(&self, rhs: u32) -> &BigInt { arbitrary() }
}
impl core::ops::RemAssign<u32> for BigInt {
    #[verifier::external_body]
    fn rem_assign(&mut self, rhs: u32) ensures (rhs as int) != 0, final(self)@ == trem(old(self)@, (rhs as int)) { unimplemented!() }
}
impl vstd::std_specs::ops::RemSpecImpl<u64> for BigInt {
    open spec fn obeys_rem_spec() -> bool { false }
    open spec fn rem_req(self, rhs: u64) -> bool { true }
    open spec fn rem_spec(self, rhs: u64) -> BigInt { arbitrary() }
}
impl core::ops::Rem<u64> for BigInt {
    type Output = BigInt;
    #[verifier::external_body]
    fn rem(self, rhs: u64) -> (ret: BigInt) ensures (rhs as int) != 0, ret@ == trem(self@, (rhs as int)) { unimplemented!() }
}
impl vstd::std_specs::ops::RemSpecImpl<BigInt> for u64 {
    open spec fn obeys_rem_spec() -> bool { false }
    open spec fn rem_req(self, rhs: BigInt) -> bool { true }
    open spec fn rem_spec(self, rhs: BigInt) -> BigInt { arbitrary() }
}
impl core::ops::Rem<BigInt> for u64 {
    type Output = BigInt;
    #[verifier::external_body]
    fn rem(self, rhs: BigInt) -> (ret: BigInt) ensures rhs@ != 0, ret@ == trem((self as int), rhs@) { unimplemented!() }
}
impl<'a> vstd::std_specs::ops::RemSpecImpl<u64> for &'a BigInt {
    open spec fn obeys_rem_spec() -> bool { false }
    open spec fn rem_req(self, rhs: u64) -> bool { true }
    open spec fn rem_spec(self, rhs: u64) -> BigInt { arbitrary() }
}
impl<'a> core::ops::Rem<u64> for &'a BigInt {
    type Output = BigInt;
    #[verifier::external_body]
    fn rem(self, rhs: u64) -> (ret: BigInt) ensures (rhs as int) != 0, ret@ == trem(self@, (rhs as int)) { unimplemented!() }
}
impl<'b> vstd::std_specs::ops::RemSpecImpl<&'b BigInt> for u64 {
    open spec fn obeys_rem_spec() -> bool { false }
    open spec fn rem_req(self, rhs: &'b BigInt) -> bool { true }
    open spec fn rem_spec(self, rhs: &'b BigInt) -> BigInt { arbitrary() }
}
impl<'b> core::ops::Rem<&'b BigInt> for u64 {
    type Output = BigInt;
    #[verifier::external_body]
    fn rem(self, rhs: &'b BigInt) -> (ret: BigInt) ensures rhs@ != 0, ret@ == trem((self as int), rhs@) { unimplemented!() }
}
impl vstd::std_specs::ops::RemAssignSpecImpl<u64> for BigInt {
    open spec fn obeys_rem_assign_spec() -> bool { false }
    open spec fn rem_assign_req(&self, rhs: u64) -> bool { true }
    open spec fn rem_assign_spec(&self, rhs: u64) -> &BigInt { arbitrary() }
}
impl core::ops::RemAssign<u64> for BigInt {
    #[verifier::external_body]
    fn rem_assign(&mut self, rhs: u64) ensures (rhs as int) != 0, final(self)@ == trem(old(self)@, (rhs as int)) { unimplemented!() }
}
impl vstd::std_specs::ops::RemSpecImpl<u128> for BigInt {
    open spec fn obeys_rem_spec() -> bool { false }
    open spec fn rem_req(self, rhs: u128) -> bool { true }
    open spec fn rem_spec(self, rhs: u128) -> BigInt { arbitrary() }
}
impl core::ops::Rem<u128> for BigInt {
    type Output = BigInt;
    #[verifier::external_body]
    fn rem(self, rhs: u128) -> (ret: BigInt) ensures (rhs as int) != 0, ret@ == trem(self@, (rhs as int)) { unimplemented!() }
}
impl vstd::std_specs::ops::RemSpecImpl<BigInt> for u128 {
    open spec fn obeys_rem_spec() -> bool { false }
    open spec fn rem_req(self, rhs: BigInt) -> bool { true }
    open spec fn rem_spec(self, rhs: BigInt) -> BigInt { arbitrary() }
}
impl core::ops::Rem<BigInt> for u128 {
    type Output = BigInt;
    #[verifier::external_body]
    fn rem(self, rhs: BigInt) -> (ret: BigInt) ensures rhs@ != 0, ret@ == trem((self as int), rhs@) { unimplemented!() }
}
impl<'a> vstd::std_specs::ops::RemSpecImpl<u128> for &'a BigInt {
    open spec fn obeys_rem_spec() -> bool { false }
    open spec fn rem_req(self, rhs: u128) -> bool { true }
    open spec fn rem_spec(self, rhs: u128) -> BigInt { arbitrary() }
}
impl<'a> core::ops::Rem<u128> for &'a BigInt {
    type Output = BigInt;
    #[verifier::external_body]
    fn rem(self, rhs: u128) -> (ret: BigInt) ensures (rhs as int) != 0, ret@ == trem(self@, (rhs as int)) { unimplemented!() }
}
impl<'b> vstd::std_specs::ops::RemSpecImpl<&'b BigInt> for u128 {
    open spec fn obeys_rem_spec() -> bool { false }
    open spec fn rem_req(self, rhs: &'b BigInt) -> bool { true }
    open spec fn rem_spec(self, rhs: &'b BigInt) -> BigInt { arbitrary() }
}
impl<'b> core::ops::Rem<&'b BigInt> for u128 {
    type Output = BigInt;
    #[verifier::external_body]
    fn rem(self, rhs: &'b BigInt) -> (ret: BigInt) ensures rhs@ != 0, ret@ == trem((self as int), rhs@) { unimplemented!() }
}
impl vstd::std_specs::ops::RemAssignSpecImpl<u128> for BigInt {
    open spec fn obeys_rem_assign_spec() -> bool { false }
    open spec fn rem_assign_req(&self, rhs: u128) -> bool { true }
    open spec fn rem_assign_spec(&self, rhs: u128) -> &BigInt { arbitrary() }
}
impl core::ops::RemAssign<u128> for BigInt {
    #[verifier::external_body]
    fn rem_assign(&mut self, rhs: u128) ensures (rhs as int) != 0, final(self)@ == trem(old(self)@, (rhs as int)) { unimplemented!() }
}
impl vstd::std_specs::ops::RemSpecImpl<usize> for BigInt {
    open spec fn obeys_rem_spec() -> bool { false }
    open spec fn rem_req(self, rhs: usize) -> bool { true }
    open spec fn rem_spec(self, rhs: usize) -> BigInt { arbitrary() }
}
impl core::ops::Rem<usize> for BigInt {
    type Output = BigInt;
    #[verifier::external_body]
    fn rem(self, rhs: usize) -> (ret: BigInt) ensures (rhs as int) != 0, ret@ == trem(self@, (rhs as int)) { unimplemented!() }
}
impl vstd::std_specs::ops::RemSpecImpl<BigInt> for usize {
    open spec fn obeys_rem_spec() -> bool { false }
    open spec fn rem_req(self, rhs: BigInt) -> bool { true }
    open spec fn rem_spec(self, rhs: BigInt) -> BigInt { arbitrary() }
}
impl core::ops::Rem<BigInt> for usize {
    type Output = BigInt;
    #[verifier::external_body]
    fn rem(self, rhs: BigInt) -> (ret: BigInt) ensures rhs@ != 0, ret@ == trem((self as int), rhs@) { unimplemented!() }
}
impl<'a> vstd::std_specs::ops::RemSpecImpl<usize> for &'a BigInt {
    open spec fn obeys_rem_spec() -> bool { false }
    open spec fn rem_req(self, rhs: usize) -> bool { true }
    open spec fn rem_spec(self, rhs: usize) -> BigInt { arbitrary() }
}
impl<'a> core::ops::Rem<usize> for &'a BigInt {
    type Output = BigInt;
    #[verifier::external_body]
    fn rem(self, rhs: usize) -> (ret: BigInt) ensures (rhs as int) != 0, ret@ == trem(self@, (rhs as int)) { unimplemented!() }
}
impl<'b> vstd::std_specs::ops::RemSpecImpl<&'b BigInt> for usize {
    open spec fn obeys_rem_spec() -> bool { false }
    open spec fn rem_req(self, rhs: &'b BigInt) -> bool { true }
    open spec fn rem_spec(self, rhs: &'b BigInt) -> BigInt { arbitrary() }
}
impl<'b> core::ops::Rem<&'b BigInt> for usize {
    type Output = BigInt;
    #[verifier::external_body]
    fn rem(self, rhs: &'b BigInt) -> (ret: BigInt) ensures rhs@ != 0, ret@ == trem((self as int), rhs@) { unimplemented!() }
}
impl vstd::std_specs::ops::RemAssignSpecImpl<usize> for BigInt {
    open spec fn obeys_rem_assign_spec() -> bool { false }
    open spec fn rem_assign_req(&self, rhs: usize) -> bool { true }
    open spec fn rem_assign_spec(&self, rhs: usize) -> &BigInt { arbitrary() }
}
impl core::ops::RemAssign<usize> for BigInt {
    #[verifier::external_body]
    fn rem_assign(&mut self, rhs: usize) ensures (rhs as int) != 0, final(self)@ == trem(old(self)@, (rhs as int)) { unimplemented!() }
}
impl vstd::std_specs::ops::RemSpecImpl<i8> for BigInt {
    open spec fn obeys_rem_spec() -> bool { false }
    open spec fn rem_req(self, rhs: i8) -> bool { true }
    open spec fn rem_spec(self, rhs: i8) -> BigInt { arbitrary() }
}
impl core::ops::Rem<i8> for BigInt {
    type Output = BigInt;
    #[verifier::external_body]
    fn rem(self, rhs: i8) -> (ret: BigInt) ensures (rhs as int) != 0, ret@ == trem(self@, (rhs as int)) { unimplemented!() }
}
impl vstd::std_specs::ops::RemSpecImpl<BigInt> for i8 {
    open spec fn obeys_rem_spec() -> bool { false }
    open spec fn rem_req(self, rhs: BigInt) -> bool { true }
    open spec fn rem_spec(self, rhs: BigInt) -> BigInt { arbitrary() }
}
impl core::ops::Rem<BigInt> for i8 {
    type Output = BigInt;
    #[verifier::external_body]
    fn rem(self, rhs: BigInt) -> (ret: BigInt) ensures rhs@ != 0, ret@ == trem((self as int), rhs@) { unimplemented!() }
}
impl<'a> vstd::std_specs::ops::RemSpecImpl<i8> for &'a BigInt {
    open spec fn obeys_rem_spec() -> bool { false }
    open spec fn rem_req(self, rhs: i8) -> bool { true }
    open spec fn rem_spec(self, rhs: i8) -> BigInt { arbitrary() }
}
impl<'a> core::ops::Rem<i8> for &'a BigInt {
    type Output = BigInt;
    #[verifier::external_body]
    fn rem(self, rhs: i8) -> (ret: BigInt) ensures (rhs as int) != 0, ret@ == trem(self@, (rhs as int)) { unimplemented!() }
}
impl<'b> vstd::std_specs::ops::RemSpecImpl<&'b BigInt> for i8 {
    open spec fn obeys_rem_spec() -> bool { false }
    open spec fn rem_req(self, rhs: &'b BigInt) -> bool { true }
    open spec fn rem_spec(self, rhs: &'b BigInt) -> BigInt { arbitrary() }
}
impl<'b> core::ops::Rem<&'b BigInt> for i8 {
    type Output = BigInt;
    #[verifier::external_body]
    fn rem(self, rhs: &'b BigInt) -> (ret: BigInt) ensures rhs@ != 0, ret@ == trem((self as int), rhs@) { unimplemented!() }
}
impl vstd::std_specs::ops::RemAssignSpecImpl<i8> for BigInt {
    open spec fn obeys_rem_assign_spec() -> bool { false }
    open spec fn rem_assign_req(&self, rhs: i8) -> bool { true }
    open spec fn rem_assign_spec(&self, rhs: i8) -> &BigInt { arbitrary() }
}
impl core::ops::RemAssign<i8> for BigInt {
    #[verifier::external_body]
    fn rem_assign(&mut self, rhs: i8) ensures (rhs as int) != 0, final(self)@ == trem(old(self)@, (rhs as int)) { unimplemented!() }
}
impl vstd::std_specs::ops::RemSpecImpl<i16> for BigInt {
    open spec fn obeys_rem_spec() -> bool { false }
    open spec fn rem_req(self, rhs: i16) -> bool { true }
    open spec fn rem_spec(self, rhs: i16) -> BigInt { arbitrary() }
}
impl core::ops::Rem<i16> for BigInt {
    type Output = BigInt;
    #[verifier::external_body]
    fn rem(self, rhs: i16) -> (ret: BigInt) ensures (rhs as int) != 0, ret@ == trem(self@, (rhs as int)) { unimplemented!() }
}
impl vstd::std_specs::ops::RemSpecImpl<BigInt> for i16 {
    open spec fn obeys_rem_spec() -> bool { false }
    open spec fn rem_req(self, rhs: BigInt) -> bool { true }
    open spec fn rem_spec(self, rhs: BigInt) -> BigInt { arbitrary() }
}
impl core::ops::Rem<BigInt> for i16 {
    type Output = BigInt;
    #[verifier::external_body]
    fn rem(self, rhs: BigInt) -> (ret: BigInt) ensures rhs@ != 0, ret@ == trem((self as int), rhs@) { unimplemented!() }
}
impl<'a> vstd::std_specs::ops::RemSpecImpl<i16> for &'a BigInt {
    open spec fn obeys_rem_spec() -> bool { false }
    open spec fn rem_req(self, rhs: i16) -> bool { true }
    open spec fn rem_spec(self, rhs: i16) -> BigInt { arbitrary() }
}
impl<'a> core::ops::Rem<i16> for &'a BigInt {
    type Output = BigInt;
    #[verifier::external_body]
    fn rem(self, rhs: i16) -> (ret: BigInt) ensures (rhs as int) != 0, ret@ == trem(self@, (rhs as int)) { unimplemented!() }
}
impl<'b> vstd::std_specs::ops::RemSpecImpl<&'b BigInt> for i16 {
    open spec fn obeys_rem_spec() -> bool { false }
    open spec fn rem_req(self, rhs: &'b BigInt) -> bool { true }
    open spec fn rem_spec(self, rhs: &'b BigInt) -> BigInt { arbitrary() }
}
impl<'b> core::ops::Rem<&'b BigInt> for i16 {
    type Output = BigInt;
    #[verifier::external_body]
    fn rem(self, rhs: &'b BigInt) -> (ret: BigInt) ensures rhs@ != 0, ret@ == trem((self as int), rhs@) { unimplemented!() }
}
impl vstd::std_specs::ops::RemAssignSpecImpl<i16> for BigInt {
    open spec fn obeys_rem_assign_spec() -> bool { false }
    open spec fn rem_assign_req(&self, rhs: i16) -> bool { true }
    open spec fn rem_assign_spec(&self, rhs: i16) -> &BigInt { arbitrary() }
}
impl core::ops::RemAssign<i16> for BigInt {
    #[verifier::external_body]
    fn rem_assign(&mut self, rhs: i16) ensures (rhs as int) != 0, final(self)@ == trem(old(self)@, (rhs as int)) { unimplemented!() }
}
impl vstd::std_specs::ops::RemSpecImpl<i32> for BigInt {
    open spec fn obeys_rem_spec() -> bool { false }
    open spec fn rem_req(self, rhs: i32) -> bool { true }
    open spec fn rem_spec(self, rhs: i32) -> BigInt { arbitrary() }
}
impl core::ops::Rem<i32> for BigInt {
    type Output = BigInt;
    #[verifier::external_body]
    fn rem(self, rhs: i32) -> (ret: BigInt) ensures (rhs as int) != 0, ret@ == trem(self@, (rhs as int)) { unimplemented!() }
}
impl vstd::std_specs::ops::RemSpecImpl<BigInt> for i32 {
    open spec fn obeys_rem_spec() -> bool { false }
    open spec fn rem_req(self, rhs: BigInt) -> bool { true }
    open spec fn rem_spec(self, rhs: BigInt) -> BigInt { arbitrary() }
}
impl core::ops::Rem<BigInt> for i32 {
    type Output = BigInt;
    #[verifier::external_body]
    fn rem(self, rhs: BigInt) -> (ret: BigInt) ensures rhs@ != 0, ret@ == trem((self as int), rhs@) { unimplemented!() }
}
impl<'a> vstd::std_specs::ops::RemSpecImpl<i32> for &'a BigInt {
    open spec fn obeys_rem_spec() -> bool { false }
    open spec fn rem_req(self, rhs: i32) -> bool { true }
    open spec fn rem_spec(self, rhs: i32) -> BigInt { arbitrary() }
}
impl<'a> core::ops::Rem<i32> for &'a BigInt {
    type Output = BigInt;
    #[verifier::external_body]
    fn rem(self, rhs: i32) -> (ret: BigInt) ensures (rhs as int) != 0, ret@ == trem(self@, (rhs as int)) { unimplemented!() }
}
impl<'b> vstd::std_specs::ops::RemSpecImpl<&'b BigInt> for i32 {
    open spec fn obeys_rem_spec() -> bool { false }
    open spec fn rem_req(self, rhs: &'b BigInt) -> bool { true }
    open spec fn rem_spec(self, rhs: &'b BigInt) -> BigInt { arbitrary() }
}
impl<'b> core::ops::Rem<&'b BigInt> for i32 {
    type Output = BigInt;
    #[verifier::external_body]
    fn rem(self, rhs: &'b BigInt) -> (ret: BigInt) ensures rhs@ != 0, ret@ == trem((self as int), rhs@) { unimplemented!() }
}
impl vstd::std_specs::ops::RemAssignSpecImpl<i32> for BigInt {
    open spec fn obeys_rem_assign_spec() -> bool { false }
    open spec fn rem_assign_req(&self, rhs: i32) -> bool { true }
    open spec fn rem_assign_spec(&self, rhs: i32) -> &BigInt { arbitrary() }
}
impl core::ops::RemAssign<i32> for BigInt {
    #[verifier::external_body]
    fn rem_assign(&mut self, rhs: i32) ensures (rhs as int) != 0, final(self)@ == trem(old(self)@, (rhs as int)) { unimplemented!() }
}
impl vstd::std_specs::ops::RemSpecImpl<i64> for BigInt {
    open spec fn obeys_rem_spec() -> bool { false }
    open spec fn rem_req(self, rhs: i64) -> bool { true }
    open spec fn rem_spec(self, rhs: i64) -> BigInt { arbitrary() }
}
impl core::ops::Rem<i64> for BigInt {
    type Output = BigInt;
    #[verifier::external_body]
    fn rem(self, rhs: i64) -> (ret: BigInt) ensures (rhs as int) != 0, ret@ == trem(self@, (rhs as int)) { unimplemented!() }
}
impl vstd::std_specs::ops::RemSpecImpl<BigInt> for i64 {
    open spec fn obeys_rem_spec() -> bool { false }
    open spec fn rem_req(self, rhs: BigInt) -> bool { true }
    open spec fn rem_spec(self, rhs: BigInt) -> BigInt { arbitrary() }
}
impl core::ops::Rem<BigInt> for i64 {
    type Output = BigInt;
    #[verifier::external_body]
    fn rem(self, rhs: BigInt) -> (ret: BigInt) ensures rhs@ != 0, ret@ == trem((self as int), rhs@) { unimplemented!() }
}
impl<'a> vstd::std_specs::ops::RemSpecImpl<i64> for &'a BigInt {
    open spec fn obeys_rem_spec() -> bool { false }
    open spec fn rem_req(self, rhs: i64) -> bool { true }
    open spec fn rem_spec(self, rhs: i64) -> BigInt { arbitrary() }
}
impl<'a> core::ops::Rem<i64> for &'a BigInt {
    type Output = BigInt;
    #[verifier::external_body]
    fn rem(self, rhs: i64) -> (ret: BigInt) ensures (rhs as int) != 0, ret@ == trem(self@, (rhs as int)) { unimplemented!() }
}
impl<'b> vstd::std_specs::ops::RemSpecImpl<&'b BigInt> for i64 {
    open spec fn obeys_rem_spec() -> bool { false }
    open spec fn rem_req(self, rhs: &'b BigInt) -> bool { true }
    open spec fn rem_spec(self, rhs: &'b BigInt) -> BigInt { arbitrary() }
}
impl<'b> core::ops::Rem<&'b BigInt> for i64 {
    type Output = BigInt;
    #[verifier::external_body]
    fn rem(self, rhs: &'b BigInt) -> (ret: BigInt) ensures rhs@ != 0, ret@ == trem((self as int), rhs@) { unimplemented!() }
}
impl vstd::std_specs::ops::RemAssignSpecImpl<i64> for BigInt {
    open spec fn obeys_rem_assign_spec() -> bool { false }
    open spec fn rem_assign_req(&self, rhs: i64) -> bool { true }
    open spec fn rem_assign_spec(&self, rhs: i64) -> &BigInt { arbitrary() }
}
impl core::ops::RemAssign<i64> for BigInt {
    #[verifier::external_body]
    fn rem_assign(&mut self, rhs: i64) ensures (rhs as int) != 0, final(self)@ == trem(old(self)@, (rhs as int)) { unimplemented!() }
}
impl vstd::std_specs::ops::RemSpecImpl<i128> for BigInt {
    open spec fn obeys_rem_spec() -> bool { false }
    open spec fn rem_req(self, rhs: i128) -> bool { true }
    open spec fn rem_spec(self, rhs: i128) -> BigInt { arbitrary() }
}
impl core::ops::Rem<i128> for BigInt {
    type Output = BigInt;
    #[verifier::external_body]
    fn rem(self, rhs: i128) -> (ret: BigInt) ensures (rhs as int) != 0, ret@ == trem(self@, (rhs as int)) { unimplemented!() }
}
impl vstd::std_specs::ops::RemSpecImpl<BigInt> for i128 {
    open spec fn obeys_rem_spec() -> bool { false }
    open spec fn rem_req(self, rhs: BigInt) -> bool { true }
    open spec fn rem_spec(self, rhs: BigInt) -> BigInt { arbitrary() }
}
impl core::ops::Rem<BigInt> for i128 {
    type Output = BigInt;
    #[verifier::external_body]
    fn rem(self, rhs: BigInt) -> (ret: BigInt) ensures rhs@ != 0, ret@ == trem((self as int), rhs@) { unimplemented!() }
}
impl<'a> vstd::std_specs::ops::RemSpecImpl<i128> for &'a BigInt {
    open spec fn obeys_rem_spec() -> bool { false }
    open spec fn rem_req(self, rhs: i128) -> bool { true }
    open spec fn rem_spec(self, rhs: i128) -> BigInt { arbitrary() }
}
impl<'a> core::ops::Rem<i128> for &'a BigInt {
    type Output = BigInt;
    #[verifier::external_body]
    fn rem(self, rhs: i128) -> (ret: BigInt) ensures (rhs as int) != 0, ret@ == trem(self@, (rhs as int)) { unimplemented!() }
}
impl<'b> vstd::std_specs::ops::RemSpecImpl<&'b BigInt> for i128 {
    open spec fn obeys_rem_spec() -> bool { false }
    open spec fn rem_req(self, rhs: &'b BigInt) -> bool { true }
    open spec fn rem_spec(self, rhs: &'b BigInt) -> BigInt { arbitrary() }
}
impl<'b> core::ops::Rem<&'b BigInt> for i128 {
    type Output = BigInt;
    #[verifier::external_body]
    fn rem(self, rhs: &'b BigInt) -> (ret: BigInt) ensures rhs@ != 0, ret@ == trem((self as int), rhs@) { unimplemented!() }
}
impl vstd::std_specs::ops::RemAssignSpecImpl<i128> for BigInt {
    open spec fn obeys_rem_assign_spec() -> bool { false }
    open spec fn rem_assign_req(&self, rhs: i128) -> bool { true }
    open spec fn rem_assign_spec(&self, rhs: i128) -> &BigInt { arbitrary() }
}
impl core::ops::RemAssign<i128> for BigInt {
    #[verifier::external_body]
    fn rem_assign(&mut self, rhs: i128) ensures (rhs as int) != 0, final(self)@ == trem(old(self)@, (rhs as int)) { unimplemented!() }
}
impl vstd::std_specs::ops::RemSpecImpl<isize> for BigInt {
    open spec fn obeys_rem_spec() -> bool { false }
    open spec fn rem_req(self, rhs: isize) -> bool { true }
    open spec fn rem_spec(self, rhs: isize) -> BigInt { arbitrary() }
}
impl core::ops::Rem<isize> for BigInt {
    type Output = BigInt;
    #[verifier::external_body]
    fn rem(self, rhs: isize) -> (ret: BigInt) ensures (rhs as int) != 0, ret@ == trem(self@, (rhs as int)) { unimplemented!() }
}
impl vstd::std_specs::ops::RemSpecImpl<BigInt> for isize {
    open spec fn obeys_rem_spec() -> bool { false }
    open spec fn rem_req(self, rhs: BigInt) -> bool { true }
    open spec fn rem_spec(self, rhs: BigInt) -> BigInt { arbitrary() }
}
impl core::ops::Rem<BigInt> for isize {
    type Output = BigInt;
    #[verifier::external_body]
    fn rem(self, rhs: BigInt) -> (ret: BigInt) ensures rhs@ != 0, ret@ == trem((self as int), rhs@) { unimplemented!() }
}
impl<'a> vstd::std_specs::ops::RemSpecImpl<isize> for &'a BigInt {
    open spec fn obeys_rem_spec() -> bool { false }
    open spec fn rem_req(self, rhs: isize) -> bool { true }
    open spec fn rem_spec(self, rhs: isize) -> BigInt { arbitrary() }
}
impl<'a> core::ops::Rem<isize> for &'a BigInt {
    type Output = BigInt;
    #[verifier::external_body]
    fn rem(self, rhs: isize) -> (ret: BigInt) ensures (rhs as int) != 0, ret@ == trem(self@, (rhs as int)) { unimplemented!() }
}
impl<'b> vstd::std_specs::ops::RemSpecImpl<&'b BigInt> for isize {
    open spec fn obeys_rem_spec() -> bool { false }
    open spec fn rem_req(self, rhs: &'b BigInt) -> bool { true }
    open spec fn rem_spec(self, rhs: &'b BigInt) -> BigInt { arbitrary() }
}
impl<'b> core::ops::Rem<&'b BigInt> for isize {
    type Output = BigInt;
    #[verifier::external_body]
    fn rem(self, rhs: &'b BigInt) -> (ret: BigInt) ensures rhs@ != 0, ret@ == trem((self as int), rhs@) { unimplemented!() }
}
impl vstd::std_specs::ops::RemAssignSpecImpl<isize> for BigInt {
    open spec fn obeys_rem_assign_spec() -> bool { false }
    open spec fn rem_assign_req(&self, rhs: isize) -> bool { true }
    open spec fn rem_assign_spec(&self, rhs: isize) -> &BigInt { arbitrary() }
}
impl core::ops::RemAssign<isize> for BigInt {
    #[verifier::external_body]
    fn rem_assign(&mut self, rhs: isize) ensures (rhs as int) != 0, final(self)@ == trem(old(self)@, (rhs as int)) { unimplemented!() }
}
impl vstd::std_specs::ops::AddSpecImpl<BigUint> for BigUint {
    open spec fn obeys_add_spec() -> bool { false }
    open spec fn add_req(self, rhs: BigUint) -> bool { true }
    open spec fn add_spec(self, rhs: BigUint) -> BigUint { arbitrary() }
}
impl core::ops::Add<BigUint> for BigUint {
    type Output = BigUint;
    #[verifier::external_body]
    fn add(self, rhs: BigUint) -> (ret: BigUint) ensures (ret@ as int) == (self@ as int) + (rhs@ as int) { unimplemented!() }
}
impl<'b> vstd::std_specs::ops::AddSpecImpl<&'b BigUint> for BigUint {
    open spec fn obeys_add_spec() -> bool { false }
    open spec fn add_req(self, rhs: &'b BigUint) -> bool { true }
    open spec fn add_spec(self, rhs: &'b BigUint) -> BigUint { arbitrary() }
}
impl<'b> core::ops::Add<&'b BigUint> for BigUint {
    type Output = BigUint;
    #[verifier::external_body]
    fn add(self, rhs: &'b BigUint) -> (ret: BigUint) ensures (ret@ as int) == (self@ as int) + (rhs@ as int) { unimplemented!() }
}
impl<'a> vstd::std_specs::ops::AddSpecImpl<BigUint> for &'a BigUint {
    open spec fn obeys_add_spec() -> bool { false }
    open spec fn add_req(self, rhs: BigUint) -> bool { true }
    open spec fn add_spec(self, rhs: BigUint) -> BigUint { arbitrary() }
}
impl<'a> core::ops::Add<BigUint> for &'a BigUint {
    type Output = BigUint;
    #[verifier::external_body]
    fn add(self, rhs: BigUint) -> (ret: BigUint) ensures (ret@ as int) == (self@ as int) + (rhs@ as int) { unimplemented!() }
}
impl<'a, 'b> vstd::std_specs::ops::AddSpecImpl<&'b BigUint> for &'a BigUint {
    open spec fn obeys_add_spec() -> bool { false }
    open spec fn add_req(self, rhs: &'b BigUint) -> bool { true }
    open spec fn add_spec(self, rhs: &'b BigUint) -> BigUint { arbitrary() }
}
impl<'a, 'b> core::ops::Add<&'b BigUint> for &'a BigUint {
    type Output = BigUint;
    #[verifier::external_body]
    fn add(self, rhs: &'b BigUint) -> (ret: BigUint) ensures (ret@ as int) == (self@ as int) + (rhs@ as int) { unimplemented!() }
}
impl vstd::std_specs::ops::AddAssignSpecImpl<BigUint> for BigUint {
    open spec fn obeys_add_assign_spec() -> bool { false }
    open spec fn add_assign_req(&self, rhs: BigUint) -> bool { true }
    open spec fn add_assign_spec(&self, rhs: BigUint) -> &BigUint { arbitrary() }
}
impl core::ops::AddAssign<BigUint> for BigUint {
    #[verifier::external_body]
    fn add_assign(&mut self, rhs: BigUint) ensures (final(self)@ as int) == (old(self)@ as int) + (rhs@ as int) { unimplemented!() }
}
impl<'b> vstd::std_specs::ops::AddAssignSpecImpl<&'b BigUint> for BigUint {
    open spec fn obeys_add_assign_spec() -> bool { false }
    open spec fn add_assign_req(&self, rhs: &'b BigUint) -> bool { true }
    open spec fn add_assign_spec(&self, rhs: &'b BigUint) -> &BigUint { arbitrary() }
}
impl<'b> core::ops::AddAssign<&'b BigUint> for BigUint {
    #[verifier::external_body]
    fn add_assign(&mut self, rhs: &'b BigUint) ensures (final(self)@ as int) == (old(self)@ as int) + (rhs@ as int) { unimplemented!() }
}
impl vstd::std_specs::ops::AddSpecImpl<u8> for BigUint {
    open spec fn obeys_add_spec() -> bool { false }
    open spec fn add_req(self, rhs: u8) -> bool { true }
    open spec fn add_spec(self, rhs: u8) -> BigUint { arbitrary() }
}
impl core::ops::Add<u8> for BigUint {
    type Output = BigUint;
    #[verifier::external_body]
    fn add(self, rhs: u8) -> (ret: BigUint) ensures (ret@ as int) == (self@ as int) + (rhs as int) { unimplemented!() }
}
impl vstd::std_specs::ops::AddSpecImpl<BigUint> for u8 {
    open spec fn obeys_add_spec() -> bool { false }
    open spec fn add_req(self, rhs: BigUint) -> bool { true }
    open spec fn add_spec(self, rhs: BigUint) -> BigUint { arbitrary() }
}
impl core::ops::Add<BigUint> for u8 {
    type Output = BigUint;
    #[verifier::external_body]
    fn add(self, rhs: BigUint) -> (ret: BigUint) ensures (ret@ as int) == (self as int) + (rhs@ as int) { unimplemented!() }
}
impl<'a> vstd::std_specs::ops::AddSpecImpl<u8> for &'a BigUint {
    open spec fn obeys_add_spec() -> bool { false }
    open spec fn add_req(self, rhs: u8) -> bool { true }
    open spec fn add_spec(self, rhs: u8) -> BigUint { arbitrary() }
}
impl<'a> core::ops::Add<u8> for &'a BigUint {
    type Output = BigUint;
    #[verifier::external_body]
    fn add(self, rhs: u8) -> (ret: BigUint) ensures (ret@ as int) == (self@ as int) + (rhs as int) { unimplemented!() }
}
impl<'b> vstd::std_specs::ops::AddSpecImpl<&'b BigUint> for u8 {
    open spec fn obeys_add_spec() -> bool { false }
    open spec fn add_req(self, rhs: &'b BigUint) -> bool { true }
    open spec fn add_spec(self, rhs: &'b BigUint) -> BigUint { arbitrary() }
}
impl<'b> core::ops::Add<&'b BigUint> for u8 {
    type Output = BigUint;
    #[verifier::external_body]
    fn add(self, rhs: &'b BigUint) -> (ret: BigUint) ensures (ret@ as int) == (self as int) + (rhs@ as int) { unimplemented!() }
}
impl vstd::std_specs::ops::AddAssignSpecImpl<u8> for BigUint {
    open spec fn obeys_add_assign_spec() -> bool { false }
    open spec fn add_assign_req(&self, rhs: u8) -> bool { true }
    open spec fn add_assign_spec(&self, rhs: u8) -> &BigUint { arbitrary() }
}
impl core::ops::AddAssign<u8> for BigUint {
    #[verifier::external_body]
    fn add_assign(&mut self, rhs: u8) ensures (final(self)@ as int) == (old(self)@ as int) + (rhs as int) { unimplemented!() }
}
impl vstd::std_specs::ops::AddSpecImpl<u16> for BigUint {
    open spec fn obeys_add_spec() -> bool { false }
    open spec fn add_req(self, rhs: u16) -> bool { true }
    open spec fn add_spec(self, rhs: u16) -> BigUint { arbitrary() }
}
impl core::ops::Add<u16> for BigUint {
    type Output = BigUint;
    #[verifier::external_body]
    fn add(self, rhs: u16) -> (ret: BigUint) ensures (ret@ as int) == (self@ as int) + (rhs as int) { unimplemented!() }
}
impl vstd::std_specs::ops::AddSpecImpl<BigUint> for u16 {
    open spec fn obeys_add_spec() -> bool { false }
    open spec fn add_req(self, rhs: BigUint) -> bool { true }
    open spec fn add_spec(self, rhs: BigUint) -> BigUint { arbitrary() }
}
impl core::ops::Add<BigUint> for u16 {
    type Output = BigUint;
    #[verifier::external_body]
    fn add(self, rhs: BigUint) -> (ret: BigUint) ensures (ret@ as int) == (self as int) + (rhs@ as int) { unimplemented!() }
}
impl<'a> vstd::std_specs::ops::AddSpecImpl<u16> for &'a BigUint {
    open spec fn obeys_add_spec() -> bool { false }
    open spec fn add_req(self, rhs: u16) -> bool { true }
    open spec fn add_spec(self, rhs: u16) -> BigUint { arbitrary() }
}
impl<'a> core::ops::Add<u16> for &'a BigUint {
    type Output = BigUint;
    #[verifier::external_body]
    fn add(self, rhs: u16) -> (ret: BigUint) ensures (ret@ as int) == (self@ as int) + (rhs as int) { unimplemented!() }
}
impl<'b> vstd::std_specs::ops::AddSpecImpl<&'b BigUint> for u16 {
    open spec fn obeys_add_spec() -> bool { false }
    open spec fn add_req(self, rhs: &'b BigUint) -> bool { true }
    open spec fn add_spec(self, rhs: &'b BigUint) -> BigUint { arbitrary() }
}
impl<'b> core::ops::Add<&'b BigUint> for u16 {
    type Output = BigUint;
    #[verifier::external_body]
    fn add(self, rhs: &'b BigUint) -> (ret: BigUint) ensures (ret@ as int) == (self as int) + (rhs@ as int) { unimplemented!() }
}
impl vstd::std_specs::ops::AddAssignSpecImpl<u16> for BigUint {
    open spec fn obeys_add_assign_spec() -> bool { false }
    open spec fn add_assign_req(&self, rhs: u16) -> bool { true }
    open spec fn add_assign_spec(&self, rhs: u16) -> &BigUint { arbitrary() }
}
impl core::ops::AddAssign<u16> for BigUint {
    #[verifier::external_body]
    fn add_assign(&mut self, rhs: u16) ensures (final(self)@ as int) == (old(self)@ as int) + (rhs as int) { unimplemented!() }
}
impl vstd::std_specs::ops::AddSpecImpl<u32> for BigUint {
    open spec fn obeys_add_spec() -> bool { false }
    open spec fn add_req(self, rhs: u32) -> bool { true }
    open spec fn add_spec(self, rhs: u32) -> BigUint { arbitrary() }
}
impl core::ops::Add<u32> for BigUint {
    type Output = BigUint;
    #[verifier::external_body]
    fn add(self, rhs: u32) -> (ret: BigUint) ensures (ret@ as int) == (self@ as int) + (rhs as int) { unimplemented!() }
}
impl vstd::std_specs::ops::AddSpecImpl<BigUint> for u32 {
    open spec fn obeys_add_spec() -> bool { false }
    open spec fn add_req(self, rhs: BigUint) -> bool { true }
    open spec fn add_spec(self, rhs: BigUint) -> BigUint { arbitrary() }
}
impl core::ops::Add<BigUint> for u32 {
    type Output = BigUint;
    #[verifier::external_body]
    fn add(self, rhs: BigUint) -> (ret: BigUint) ensures (ret@ as int) == (self as int) + (rhs@ as int) { unimplemented!() }
}
impl<'a> vstd::std_specs::ops::AddSpecImpl<u32> for &'a BigUint {
    open spec fn obeys_add_spec() -> bool { false }
    open spec fn add_req(self, rhs: u32) -> bool { true }
    open spec fn add_spec(self, rhs: u32) -> BigUint { arbitrary() }
}
impl<'a> core::ops::Add<u32> for &'a BigUint {
    type Output = BigUint;
    #[verifier::external_body]
    fn add(self, rhs: u32) -> (ret: BigUint) ensures (ret@ as int) == (self@ as int) + (rhs as int) { unimplemented!() }
}
impl<'b> vstd::std_specs::ops::AddSpecImpl<&'b BigUint> for u32 {
    open spec fn obeys_add_spec() -> bool { false }
    open spec fn add_req(self, rhs: &'b BigUint) -> bool { true }
    open spec fn add_spec(self, rhs: &'b BigUint) -> BigUint { arbitrary() }
}
impl<'b> core::ops::Add<&'b BigUint> for u32 {
    type Output = BigUint;
    #[verifier::external_body]
    fn add(self, rhs: &'b BigUint) -> (ret: BigUint) ensures (ret@ as int) == (self as int) + (rhs@ as int) { unimplemented!() }
}
impl vstd::std_specs::ops::AddAssignSpecImpl<u32> for BigUint {
    open spec fn obeys_add_assign_spec() -> bool { false }
    open spec fn add_assign_req(&self, rhs: u32) -> bool { true }
    open spec fn add_assign_spec(&self, rhs: u32) -> &BigUint { arbitrary() }
}
impl core::ops::AddAssign<u32> for BigUint {
    #[verifier::external_body]
    fn add_assign(&mut self, rhs: u32) ensures (final(self)@ as int) == (old(self)@ as int) + (rhs as int) { unimplemented!() }
}
impl vstd::std_specs::ops::AddSpecImpl<u64> for BigUint {
    open spec fn obeys_add_spec() -> bool { false }
    open spec fn add_req(self, rhs: u64) -> bool { true }
    open spec fn add_spec(self, rhs: u64) -> BigUint { arbitrary() }
}
impl core::ops::Add<u64> for BigUint {
    type Output = BigUint;
    #[verifier::external_body]
    fn add(self, rhs: u64) -> (ret: BigUint) ensures (ret@ as int) == (self@ as int) + (rhs as int) { unimplemented!() }
}
impl vstd::std_specs::ops::AddSpecImpl<BigUint> for u64 {
    open spec fn obeys_add_spec() -> bool { false }
    open spec fn add_req(self, rhs: BigUint) -> bool { true }
    open spec fn add_spec(self, rhs: BigUint) -> BigUint { arbitrary() }
}
impl core::ops::Add<BigUint> for u64 {
    type Output = BigUint;
    #[verifier::external_body]
    fn add(self, rhs: BigUint) -> (ret: BigUint) ensures (ret@ as int) == (self as int) + (rhs@ as int) { unimplemented!() }
}
impl<'a> vstd::std_specs::ops::AddSpecImpl<u64> for &'a BigUint {
    open spec fn obeys_add_spec() -> bool { false }
    open spec fn add_req(self, rhs: u64) -> bool { true }
    open spec fn add_spec(self, rhs: u64) -> BigUint { arbitrary() }
}
impl<'a> core::ops::Add<u64> for &'a BigUint {
    type Output = BigUint;
    #[verifier::external_body]
    fn add(self, rhs: u64) -> (ret: BigUint) ensures (ret@ as int) == (self@ as int) + (rhs as int) { unimplemented!() }
}
impl<'b> vstd::std_specs::ops::AddSpecImpl<&'b BigUint> for u64 {
    open spec fn obeys_add_spec() -> bool { false }
    open spec fn add_req(self, rhs: &'b BigUint) -> bool { true }
    open spec fn add_spec(self, rhs: &'b BigUint) -> BigUint { arbitrary() }
}
impl<'b> core::ops::Add<&'b BigUint> for u64 {
    type Output = BigUint;
    #[verifier::external_body]
    fn add(self, rhs: &'b BigUint) -> (ret: BigUint) ensures (ret@ as int) == (self as int) + (rhs@ as int) { unimplemented!() }
}
impl vstd::std_specs::ops::AddAssignSpecImpl<u64> for BigUint {
    open spec fn obeys_add_assign_spec() -> bool { false }
    open spec fn add_assign_req(&self, rhs: u64) -> bool { true }
    open spec fn add_assign_spec(&self, rhs: u64) -> &BigUint { arbitrary() }
}
impl core::ops::AddAssign<u64> for BigUint {
    #[verifier::external_body]
    fn add_assign(&mut self, rhs: u64) ensures (final(self)@ as int) == (old(self)@ as int) + (rhs as int) { unimplemented!() }
}
impl vstd::std_specs::ops::AddSpecImpl<u128> for BigUint {
    open spec fn obeys_add_spec() -> bool { false }
    open spec fn add_req(self, rhs: u128) -> bool { true }
    open spec fn add_spec(self, rhs: u128) -> BigUint { arbitrary() }
}
impl core::ops::Add<u128> for BigUint {
    type Output = BigUint;
    #[verifier::external_body]
    fn add(self, rhs: u128) -> (ret: BigUint) ensures (ret@ as int) == (self@ as int) + (rhs as int) { unimplemented!() }
}
impl vstd::std_specs::ops::AddSpecImpl<BigUint> for u128 {
    open spec fn obeys_add_spec() -> bool { false }
    open spec fn add_req(self, rhs: BigUint) -> bool { true }
    open spec fn add_spec(self, rhs: BigUint) -> BigUint { arbitrary() }
}
impl core::ops::Add<BigUint> for u128 {
    type Output = BigUint;
    #[verifier::external_body]
    fn add(self, rhs: BigUint) -> (ret: BigUint) ensures (ret@ as int) == (self as int) + (rhs@ as int) { unimplemented!() }
}
impl<'a> vstd::std_specs::ops::AddSpecImpl<u128> for &'a BigUint {
    open spec fn obeys_add_spec() -> bool { false }
    open spec fn add_req(self, rhs: u128) -> bool { true }
    open spec fn add_spec(self, rhs: u128) -> BigUint { arbitrary() }
}
impl<'a> core::ops::Add<u128> for &'a BigUint {
    type Output = BigUint;
    #[verifier::external_body]
    fn add(self, rhs: u128) -> (ret: BigUint) ensures (ret@ as int) == (self@ as int) + (rhs as int) { unimplemented!() }
}
impl<'b> vstd::std_specs::ops::AddSpecImpl<&'b BigUint> for u128 {
    open spec fn obeys_add_spec() -> bool { false }
    open spec fn add_req(self, rhs: &'b BigUint) -> bool { true }
    open spec fn add_spec(self, rhs: &'b BigUint) -> BigUint { arbitrary() }
}
impl<'b> core::ops::Add<&'b BigUint> for u128 {
    type Output = BigUint;
    #[verifier::external_body]
    fn add(self, rhs: &'b BigUint) -> (ret: BigUint) ensures (ret@ as int) == (self as int) + (rhs@ as int) { unimplemented!() }
}
impl vstd::std_specs::ops::AddAssignSpecImpl<u128> for BigUint {
    open spec fn obeys_add_assign_spec() -> bool { false }
    open spec fn add_assign_req(&self, rhs: u128) -> bool { true }
    open spec fn add_assign_spec(&self, rhs: u128) -> &BigUint { arbitrary() }
}
impl core::ops::AddAssign<u128> for BigUint {
    #[verifier::external_body]
    fn add_assign(&mut self, rhs: u128) ensures (final(self)@ as int) == (old(self)@ as int) + (rhs as int) { unimplemented!() }
}
impl vstd::std_specs::ops::AddSpecImpl<usize> for BigUint {
    open spec fn obeys_add_spec() -> bool { false }
    open spec fn add_req(self, rhs: usize) -> bool { true }
    open spec fn add_spec(self, rhs: usize) -> BigUint { arbitrary() }
}
impl core::ops::Add<usize> for BigUint {
    type Output = BigUint;
    #[verifier::external_body]
    fn add(self, rhs: usize) -> (ret: BigUint) ensures (ret@ as int) == (self@ as int) + (rhs as int) { unimplemented!() }
}
impl vstd::std_specs::ops::AddSpecImpl<BigUint> for usize {
    open spec fn obeys_add_spec() -> bool { false }
    open spec fn add_req(self, rhs: BigUint) -> bool { true }
    open spec fn add_spec(self, rhs: BigUint) -> BigUint { arbitrary() }
}
impl core::ops::Add<BigUint> for usize {
    type Output = BigUint;
    #[verifier::external_body]
    fn add(self, rhs: BigUint) -> (ret: BigUint) ensures (ret@ as int) == (self as int) + (rhs@ as int) { unimplemented!() }
}
impl<'a> vstd::std_specs::ops::AddSpecImpl<usize> for &'a BigUint {
    open spec fn obeys_add_spec() -> bool { false }
    open spec fn add_req(self, rhs: usize) -> bool { true }
    open spec fn add_spec(self, rhs: usize) -> BigUint { arbitrary() }
}
impl<'a> core::ops::Add<usize> for &'a BigUint {
    type Output = BigUint;
    #[verifier::external_body]
    fn add(self, rhs: usize) -> (ret: BigUint) ensures (ret@ as int) == (self@ as int) + (rhs as int) { unimplemented!() }
}
impl<'b> vstd::std_specs::ops::AddSpecImpl<&'b BigUint> for usize {
    open spec fn obeys_add_spec() -> bool { false }
    open spec fn add_req(self, rhs: &'b BigUint) -> bool { true }
    open spec fn add_spec(self, rhs: &'b BigUint) -> BigUint { arbitrary() }
}
impl<'b> core::ops::Add<&'b BigUint> for usize {
    type Output = BigUint;
    #[verifier::external_body]
    fn add(self, rhs: &'b BigUint) -> (ret: BigUint) ensures (ret@ as int) == (self as int) + (rhs@ as int) { unimplemented!() }
}
impl vstd::std_specs::ops::AddAssignSpecImpl<usize> for BigUint {
    open spec fn obeys_add_assign_spec() -> bool { false }
    open spec fn add_assign_req(&self, rhs: usize) -> bool { true }
    open spec fn add_assign_spec(&self, rhs: usize) -> &BigUint { arbitrary() }
}
impl core::ops::AddAssign<usize> for BigUint {
    #[verifier::external_body]
    fn add_assign(&mut self, rhs: usize) ensures (final(self)@ as int) == (old(self)@ as int) + (rhs as int) { unimplemented!() }
}
impl vstd::std_specs::ops::SubSpecImpl<BigUint> for BigUint {
    open spec fn obeys_sub_spec() -> bool { false }
    open spec fn sub_req(self, rhs: BigUint) -> bool { true }
    open spec fn sub_spec(self, rhs: BigUint) -> BigUint { arbitrary() }
}
impl core::ops::Sub<BigUint> for BigUint {
    type Output = BigUint;
    #[verifier::external_body]
    fn sub(self, rhs: BigUint) -> (ret: BigUint) ensures (self@ as int) >= (rhs@ as int), (ret@ as int) == (self@ as int) - (rhs@ as int) { unimplemented!() }
}
impl<'b> vstd::std_specs::ops::SubSpecImpl<&'b BigUint> for BigUint {
    open spec fn obeys_sub_spec() -> bool { false }
    open spec fn sub_req(self, rhs: &'b BigUint) -> bool { true }
    open spec fn sub_spec(self, rhs: &'b BigUint) -> BigUint { arbitrary() }
}
impl<'b> core::ops::Sub<&'b BigUint> for BigUint {
    type Output = BigUint;
    #[verifier::external_body]
    fn sub(self, rhs: &'b BigUint) -> (ret: BigUint) ensures (self@ as int) >= (rhs@ as int), (ret@ as int) == (self@ as int) - (rhs@ as int) { unimplemented!() }
}
impl<'a> vstd::std_specs::ops::SubSpecImpl<BigUint> for &'a BigUint {
    open spec fn obeys_sub_spec() -> bool { false }
    open spec fn sub_req(self, rhs: BigUint) -> bool { true }
    open spec fn sub_spec(self, rhs: BigUint) -> BigUint { arbitrary() }
}
impl<'a> core::ops::Sub<BigUint> for &'a BigUint {
    type Output = BigUint;
    #[verifier::external_body]
    fn sub(self, rhs: BigUint) -> (ret: BigUint) ensures (self@ as int) >= (rhs@ as int), (ret@ as int) == (self@ as int) - (rhs@ as int) { unimplemented!() }
}
impl<'a, 'b> vstd::std_specs::ops::SubSpecImpl<&'b BigUint> for &'a BigUint {
    open spec fn obeys_sub_spec() -> bool { false }
    open spec fn sub_req(self, rhs: &'b BigUint) -> bool { true }
    open spec fn sub_spec(self, rhs: &'b BigUint) -> BigUint { arbitrary() }
}
impl<'a, 'b> core::ops::Sub<&'b BigUint> for &'a BigUint {
    type Output = BigUint;
    #[verifier::external_body]
    fn sub(self, rhs: &'b BigUint) -> (ret: BigUint) ensures (self@ as int) >= (rhs@ as int), (ret@ as int) == (self@ as int) - (rhs@ as int) { unimplemented!() }
}
impl vstd::std_specs::ops::SubAssignSpecImpl<BigUint> for BigUint {
    open spec fn obeys_sub_assign_spec() -> bool { false }
    open spec fn sub_assign_req(&self, rhs: BigUint) -> bool { true }
    open spec fn sub_assign_spec(&self, rhs: BigUint) -> &BigUint { arbitrary() }
}
impl core::ops::SubAssign<BigUint> for BigUint {
    #[verifier::external_body]
    fn sub_assign(&mut self, rhs: BigUint) ensures (old(self)@ as int) >= (rhs@ as int), (final(self)@ as int) == (old(self)@ as int) - (rhs@ as int) { unimplemented!() }
}
impl<'b> vstd::std_specs::ops::SubAssignSpecImpl<&'b BigUint> for BigUint {
    open spec fn obeys_sub_assign_spec() -> bool { false }
    open spec fn sub_assign_req(&self, rhs: &'b BigUint) -> bool { true }
    open spec fn sub_assign_spec(&self, rhs: &'b BigUint) -> &BigUint { arbitrary() }
}
impl<'b> core::ops::SubAssign<&'b BigUint> for BigUint {
    #[verifier::external_body]
    fn sub_assign(&mut self, rhs: &'b BigUint) ensures (old(self)@ as int) >= (rhs@ as int), (final(self)@ as int) == (old(self)@ as int) - (rhs@ as int) { unimplemented!() }
}
impl vstd::std_specs::ops::SubSpecImpl<u8> for BigUint {
    open spec fn obeys_sub_spec() -> bool { false }
    open spec fn sub_req(self, rhs: u8) -> bool { true }
    open spec fn sub_spec(self, rhs: u8) -> BigUint { arbitrary() }
}
impl core::ops::Sub<u8> for BigUint {
    type Output = BigUint;
    #[verifier::external_body]
    fn sub(self, rhs: u8) -> (ret: BigUint) ensures (self@ as int) >= (rhs as int), (ret@ as int) == (self@ as int) - (rhs as int) { unimplemented!() }
}
impl vstd::std_specs::ops::SubSpecImpl<BigUint> for u8 {
    open spec fn obeys_sub_spec() -> bool { false }
    open spec fn sub_req(self, rhs: BigUint) -> bool { true }
    open spec fn sub_spec(self, rhs: BigUint) -> BigUint { arbitrary() }
}
impl core::ops::Sub<BigUint> for u8 {
    type Output = BigUint;
    #[verifier::external_body]
    fn sub(self, rhs: BigUint) -> (ret: BigUint) ensures (self as int) >= (rhs@ as int), (ret@ as int) == (self as int) - (rhs@ as int) { unimplemented!() }
}
impl<'a> vstd::std_specs::ops::SubSpecImpl<u8> for &'a BigUint {
    open spec fn obeys_sub_spec() -> bool { false }
    open spec fn sub_req(self, rhs: u8) -> bool { true }
    open spec fn sub_spec(self, rhs: u8) -> BigUint { arbitrary() }
}
impl<'a> core::ops::Sub<u8> for &'a BigUint {
    type Output = BigUint;
    #[verifier::external_body]
    fn sub(self, rhs: u8) -> (ret: BigUint) ensures (self@ as int) >= (rhs as int), (ret@ as int) == (self@ as int) - (rhs as int) { unimplemented!() }
}
impl<'b> vstd::std_specs::ops::SubSpecImpl<&'b BigUint> for u8 {
    open spec fn obeys_sub_spec() -> bool { false }
    open spec fn sub_req(self, rhs: &'b BigUint) -> bool { true }
    open spec fn sub_spec(self, rhs: &'b BigUint) -> BigUint { arbitrary() }
}
impl<'b> core::ops::Sub<&'b BigUint> for u8 {
    type Output = BigUint;
    #[verifier::external_body]
    fn sub(self, rhs: &'b BigUint) -> (ret: BigUint) ensures (self as int) >= (rhs@ as int), (ret@ as int) == (self as int) - (rhs@ as int) { unimplemented!() }
}
impl vstd::std_specs::ops::SubAssignSpecImpl<u8> for BigUint {
    open spec fn obeys_sub_assign_spec() -> bool { false }
    open spec fn sub_assign_req(&self, rhs: u8) -> bool { true }
    open spec fn sub_assign_spec(&self, rhs: u8) -> &BigUint { arbitrary() }
}
impl core::ops::SubAssign<u8> for BigUint {
    #[verifier::external_body]
    fn sub_assign(&mut self, rhs: u8) ensures (old(self)@ as int) >= (rhs as int), (final(self)@ as int) == (old(self)@ as int) - (rhs as int) { unimplemented!() }
}
impl vstd::std_specs::ops::SubSpecImpl<u16> for BigUint {
    open spec fn obeys_sub_spec() -> bool { false }
    open spec fn sub_req(self, rhs: u16) -> bool { true }
    open spec fn sub_spec(self, rhs: u16) -> BigUint { arbitrary() }
}
impl core::ops::Sub<u16> for BigUint {
    type Output = BigUint;
    #[verifier::external_body]
    fn sub(self, rhs: u16) -> (ret: BigUint) ensures (self@ as int) >= (rhs as int), (ret@ as int) == (self@ as int) - (rhs as int) { unimplemented!() }
}
impl vstd::std_specs::ops::SubSpecImpl<BigUint> for u16 {
    open spec fn obeys_sub_spec() -> bool { false }
    open spec fn sub_req(self, rhs: BigUint) -> bool { true }
    open spec fn sub_spec(self, rhs: BigUint) -> BigUint { arbitrary() }
}
impl core::ops::Sub<BigUint> for u16 {
    type Output = BigUint;
    #[verifier::external_body]
    fn sub(self, rhs: BigUint) -> (ret: BigUint) ensures (self as int) >= (rhs@ as int), (ret@ as int) == (self as int) - (rhs@ as int) { unimplemented!() }
}
impl<'a> vstd::std_specs::ops::SubSpecImpl<u16> for &'a BigUint {
    open spec fn obeys_sub_spec() -> bool { false }
    open spec fn sub_req(self, rhs: u16) -> bool { true }
    open spec fn sub_spec(self, rhs: u16) -> BigUint { arbitrary() }
}
impl<'a> core::ops::Sub<u16> for &'a BigUint {
    type Output = BigUint;
    #[verifier::external_body]
    fn sub(self, rhs: u16) -> (ret: BigUint) ensures (self@ as int) >= (rhs as int), (ret@ as int) == (self@ as int) - (rhs as int) { unimplemented!() }
}
impl<'b> vstd::std_specs::ops::SubSpecImpl<&'b BigUint> for u16 {
    open spec fn obeys_sub_spec() -> bool { false }
    open spec fn sub_req(self, rhs: &'b BigUint) -> bool { true }
    open spec fn sub_spec(self, rhs: &'b BigUint) -> BigUint { arbitrary() }
}
impl<'b> core::ops::Sub<&'b BigUint> for u16 {
    type Output = BigUint;
    #[verifier::external_body]
    fn sub(self, rhs: &'b BigUint) -> (ret: BigUint) ensures (self as int) >= (rhs@ as int), (ret@ as int) == (self as int) - (rhs@ as int) { unimplemented!() }
}
impl vstd::std_specs::ops::SubAssignSpecImpl<u16> for BigUint {
    open spec fn obeys_sub_assign_spec() -> bool { false }
    open spec fn sub_assign_req(&self, rhs: u16) -> bool { true }
    open spec fn sub_assign_spec(&self, rhs: u16) -> &BigUint { arbitrary() }
}
impl core::ops::SubAssign<u16> for BigUint {
    #[verifier::external_body]
    fn sub_assign(&mut self, rhs: u16) ensures (old(self)@ as int) >= (rhs as int), (final(self)@ as int) == (old(self)@ as int) - (rhs as int) { unimplemented!() }
}
impl vstd::std_specs::ops::SubSpecImpl<u32> for BigUint {
    open spec fn obeys_sub_spec() -> bool { false }
    open spec fn sub_req(self, rhs: u32) -> bool { true }
    open spec fn sub_spec(self, rhs: u32) -> BigUint { arbitrary() }
}
impl core::ops::Sub<u32> for BigUint {
    type Output = BigUint;
    #[verifier::external_body]
    fn sub(self, rhs: u32) -> (ret: BigUint) ensures (self@ as int) >= (rhs as int), (ret@ as int) == (self@ as int) - (rhs as int) { unimplemented!() }
}
impl vstd::std_specs::ops::SubSpecImpl<BigUint> for u32 {
    open spec fn obeys_sub_spec() -> bool { false }
    open spec fn sub_req(self, rhs: BigUint) -> bool { true }
    open spec fn sub_spec(self, rhs: BigUint) -> BigUint { arbitrary() }
}
impl core::ops::Sub<BigUint> for u32 {
    type Output = BigUint;
    #[verifier::external_body]
    fn sub(self, rhs: BigUint) -> (ret: BigUint) ensures (self as int) >= (rhs@ as int), (ret@ as int) == (self as int) - (rhs@ as int) { unimplemented!() }
}
impl<'a> vstd::std_specs::ops::SubSpecImpl<u32> for &'a BigUint {
    open spec fn obeys_sub_spec() -> bool { false }
    open spec fn sub_req(self, rhs: u32) -> bool { true }
    open spec fn sub_spec(self, rhs: u32) -> BigUint { arbitrary() }
}
impl<'a> core::ops::Sub<u32> for &'a BigUint {
    type Output = BigUint;
    #[verifier::external_body]
    fn sub(self, rhs: u32) -> (ret: BigUint) ensures (self@ as int) >= (rhs as int), (ret@ as int) == (self@ as int) - (rhs as int) { unimplemented!() }
}
impl<'b> vstd::std_specs::ops::SubSpecImpl<&'b BigUint> for u32 {
    open spec fn obeys_sub_spec() -> bool { false }
    open spec fn sub_req(self, rhs: &'b BigUint) -> bool { true }
    open spec fn sub_spec(self, rhs: &'b BigUint) -> BigUint { arbitrary() }
}
impl<'b> core::ops::Sub<&'b BigUint> for u32 {
    type Output = BigUint;
    #[verifier::external_body]
    fn sub(self, rhs: &'b BigUint) -> (ret: BigUint) ensures (self as int) >= (rhs@ as int), (ret@ as int) == (self as int) - (rhs@ as int) { unimplemented!() }
}
impl vstd::std_specs::ops::SubAssignSpecImpl<u32> for BigUint {
    open spec fn obeys_sub_assign_spec() -> bool { false }
    open spec fn sub_assign_req(&self, rhs: u32) -> bool { true }
    open spec fn sub_assign_spec(&self, rhs: u32) -> &BigUint { arbitrary() }
}
impl core::ops::SubAssign<u32> for BigUint {
    #[verifier::external_body]
    fn sub_assign(&mut self, rhs: u32) ensures (old(self)@ as int) >= (rhs as int), (final(self)@ as int) == (old(self)@ as int) - (rhs as int) { unimplemented!() }
}
impl vstd::std_specs::ops::SubSpecImpl<u64> for BigUint {
    open spec fn obeys_sub_spec() -> bool { false }
    open spec fn sub_req(self, rhs: u64) -> bool { true }
    open spec fn sub_spec(self, rhs: u64) -> BigUint { arbitrary() }
}
impl core::ops::Sub<u64> for BigUint {
    type Output = BigUint;
    #[verifier::external_body]
    fn sub(self, rhs: u64) -> (ret: BigUint) ensures (self@ as int) >= (rhs as int), (ret@ as int) == (self@ as int) - (rhs as int) { unimplemented!() }
}
impl vstd::std_specs::ops::SubSpecImpl<BigUint> for u64 {
    open spec fn obeys_sub_spec() -> bool { false }
    open spec fn sub_req(self, rhs: BigUint) -> bool { true }
    open spec fn sub_spec(self, rhs: BigUint) -> BigUint { arbitrary() }
}
impl core::ops::Sub<BigUint> for u64 {
    type Output = BigUint;
    #[verifier::external_body]
    fn sub(self, rhs: BigUint) -> (ret: BigUint) ensures (self as int) >= (rhs@ as int), (ret@ as int) == (self as int) - (rhs@ as int) { unimplemented!() }
}
impl<'a> vstd::std_specs::ops::SubSpecImpl<u64> for &'a BigUint {
    open spec fn obeys_sub_spec() -> bool { false }
    open spec fn sub_req(self, rhs: u64) -> bool { true }
    open spec fn sub_spec(self, rhs: u64) -> BigUint { arbitrary() }
}
impl<'a> core::ops::Sub<u64> for &'a BigUint {
    type Output = BigUint;
    #[verifier::external_body]
    fn sub(self, rhs: u64) -> (ret: BigUint) ensures (self@ as int) >= (rhs as int), (ret@ as int) == (self@ as int) - (rhs as int) { unimplemented!() }
}
impl<'b> vstd::std_specs::ops::SubSpecImpl<&'b BigUint> for u64 {
    open spec fn obeys_sub_spec() -> bool { false }
    open spec fn sub_req(self, rhs: &'b BigUint) -> bool { true }
    open spec fn sub_spec(self, rhs: &'b BigUint) -> BigUint { arbitrary() }
}
impl<'b> core::ops::Sub<&'b BigUint> for u64 {
    type Output = BigUint;
    #[verifier::external_body]
    fn sub(self, rhs: &'b BigUint) -> (ret: BigUint) ensures (self as int) >= (rhs@ as int), (ret@ as int) == (self as int) - (rhs@ as int) { unimplemented!() }
}
impl vstd::std_specs::ops::SubAssignSpecImpl<u64> for BigUint {
    open spec fn obeys_sub_assign_spec() -> bool { false }
    open spec fn sub_assign_req(&self, rhs: u64) -> bool { true }
    open spec fn sub_assign_spec(&self, rhs: u64) -> &BigUint { arbitrary() }
}
impl core::ops::SubAssign<u64> for BigUint {
    #[verifier::external_body]
    fn sub_assign(&mut self, rhs: u64) ensures (old(self)@ as int) >= (rhs as int), (final(self)@ as int) == (old(self)@ as int) - (rhs as int) { unimplemented!() }
}
impl vstd::std_specs::ops::SubSpecImpl<u128> for BigUint {
    open spec fn obeys_sub_spec() -> bool { false }
    open spec fn sub_req(self, rhs: u128) -> bool { true }
    open spec fn sub_spec(self, rhs: u128) -> BigUint { arbitrary() }
}
impl core::ops::Sub<u128> for BigUint {
    type Output = BigUint;
    #[verifier::external_body]
    fn sub(self, rhs: u128) -> (ret: BigUint) ensures (self@ as int) >= (rhs as int), (ret@ as int) == (self@ as int) - (rhs as int) { unimplemented!() }
}
impl vstd::std_specs::ops::SubSpecImpl<BigUint> for u128 {
    open spec fn obeys_sub_spec() -> bool { false }
    open spec fn sub_req(self, rhs: BigUint) -> bool { true }
    open spec fn sub_spec(self, rhs: BigUint) -> BigUint { arbitrary() }
}
impl core::ops::Sub<BigUint> for u128 {
    type Output = BigUint;
    #[verifier::external_body]
    fn sub(self, rhs: BigUint) -> (ret: BigUint) ensures (self as int) >= (rhs@ as int), (ret@ as int) == (self as int) - (rhs@ as int) { unimplemented!() }
}
impl<'a> vstd::std_specs::ops::SubSpecImpl<u128> for &'a BigUint {
    open spec fn obeys_sub_spec() -> bool { false }
    open spec fn sub_req(self, rhs: u128) -> bool { true }
    open spec fn sub_spec(self, rhs: u128) -> BigUint { arbitrary() }
}
impl<'a> core::ops::Sub<u128> for &'a BigUint {
    type Output = BigUint;
    #[verifier::external_body]
    fn sub(self, rhs: u128) -> (ret: BigUint) ensures (self@ as int) >= (rhs as int), (ret@ as int) == (self@ as int) - (rhs as int) { unimplemented!() }
}
impl<'b> vstd::std_specs::ops::SubSpecImpl<&'b BigUint> for u128 {
    open spec fn obeys_sub_spec() -> bool { false }
    open spec fn sub_req(self, rhs: &'b BigUint) -> bool { true }
    open spec fn sub_spec(self, rhs: &'b BigUint) -> BigUint { arbitrary() }
}
impl<'b> core::ops::Sub<&'b BigUint> for u128 {
    type Output = BigUint;
    #[verifier::external_body]
    fn sub(self, rhs: &'b BigUint) -> (ret: BigUint) ensures (self as int) >= (rhs@ as int), (ret@ as int) == (self as int) - (rhs@ as int) { unimplemented!() }
}
impl vstd::std_specs::ops::SubAssignSpecImpl<u128> for BigUint {
    open spec fn obeys_sub_assign_spec() -> bool { false }
    open spec fn sub_assign_req(&self, rhs: u128) -> bool { true }
    open spec fn sub_assign_spec(&self, rhs: u128) -> &BigUint { arbitrary() }
}
impl core::ops::SubAssign<u128> for BigUint {
    #[verifier::external_body]
    fn sub_assign(&mut self, rhs: u128) ensures (old(self)@ as int) >= (rhs as int), (final(self)@ as int) == (old(self)@ as int) - (rhs as int) { unimplemented!() }
}
impl vstd::std_specs::ops::SubSpecImpl<usize> for BigUint {
    open spec fn obeys_sub_spec() -> bool { false }
    open spec fn sub_req(self, rhs: usize) -> bool { true }
    open spec fn sub_spec(self, rhs: usize) -> BigUint { arbitrary() }
}
impl core::ops::Sub<usize> for BigUint {
    type Output = BigUint;
    #[verifier::external_body]
    fn sub(self, rhs: usize) -> (ret: BigUint) ensures (self@ as int) >= (rhs as int), (ret@ as int) == (self@ as int) - (rhs as int) { unimplemented!() }
}
impl vstd::std_specs::ops::SubSpecImpl<BigUint> for usize {
    open spec fn obeys_sub_spec() -> bool { false }
    open spec fn sub_req(self, rhs: BigUint) -> bool { true }
    open spec fn sub_spec(self, rhs: BigUint) -> BigUint { arbitrary() }
}
impl core::ops::Sub<BigUint> for usize {
    type Output = BigUint;
    #[verifier::external_body]
    fn sub(self, rhs: BigUint) -> (ret: BigUint) ensures (self as int) >= (rhs@ as int), (ret@ as int) == (self as int) - (rhs@ as int) { unimplemented!() }
}
impl<'a> vstd::std_specs::ops::SubSpecImpl<usize> for &'a BigUint {
    open spec fn obeys_sub_spec() -> bool { false }
    open spec fn sub_req(self, rhs: usize) -> bool { true }
    open spec fn sub_spec(self, rhs: usize) -> BigUint { arbitrary() }
}
impl<'a> core::ops::Sub<usize> for &'a BigUint {
    type Output = BigUint;
    #[verifier::external_body]
    fn sub(self, rhs: usize) -> (ret: BigUint) ensures (self@ as int) >= (rhs as int), (ret@ as int) == (self@ as int) - (rhs as int) { unimplemented!() }
}
impl<'b> vstd::std_specs::ops::SubSpecImpl<&'b BigUint> for usize {
    open spec fn obeys_sub_spec() -> bool { false }
    open spec fn sub_req(self, rhs: &'b BigUint) -> bool { true }
    open spec fn sub_spec(self, rhs: &'b BigUint) -> BigUint { arbitrary() }
}
impl<'b> core::ops::Sub<&'b BigUint> for usize {
    type Output = BigUint;
    #[verifier::external_body]
    fn sub(self, rhs: &'b BigUint) -> (ret: BigUint) ensures (self as int) >= (rhs@ as int), (ret@ as int) == (self as int) - (rhs@ as int) { unimplemented!() }
}
impl vstd::std_specs::ops::SubAssignSpecImpl<usize> for BigUint {
    open spec fn obeys_sub_assign_spec() -> bool { false }
    open spec fn sub_assign_req(&self, rhs: usize) -> bool { true }
    open spec fn sub_assign_spec(&self, rhs: usize) -> &BigUint { arbitrary() }
}
impl core::ops::SubAssign<usize> for BigUint {
    #[verifier::external_body]
    fn sub_assign(&mut self, rhs: usize) ensures (old(self)@ as int) >= (rhs as int), (final(self)@ as int) == (old(self)@ as int) - (rhs as int) { unimplemented!() }
}
impl vstd::std_specs::ops::MulSpecImpl<BigUint> for BigUint {
    open spec fn obeys_mul_spec() -> bool { false }
    open spec fn mul_req(self, rhs: BigUint) -> bool { true }
    open spec fn mul_spec(self, rhs: BigUint) -> BigUint { arbitrary() }
}
impl core::ops::Mul<BigUint> for BigUint {
    type Output = BigUint;
    #[verifier::external_body]
    fn mul(self, rhs: BigUint) -> (ret: BigUint) ensures (ret@ as int) == (self@ as int) * (rhs@ as int) { unimplemented!() }
}
impl<'b> vstd::std_specs::ops::MulSpecImpl<&'b BigUint> for BigUint {
    open spec fn obeys_mul_spec() -> bool { false }
    open spec fn mul_req(self, rhs: &'b BigUint) -> bool { true }
    open spec fn mul_spec(self, rhs: &'b BigUint) -> BigUint { arbitrary() }
}
impl<'b> core::ops::Mul<&'b BigUint> for BigUint {
    type Output = BigUint;
    #[verifier::external_body]
    fn mul(self, rhs: &'b BigUint) -> (ret: BigUint) ensures (ret@ as int) == (self@ as int) * (rhs@ as int) { unimplemented!() }
}
impl<'a> vstd::std_specs::ops::MulSpecImpl<BigUint> for &'a BigUint {
    open spec fn obeys_mul_spec() -> bool { false }
    open spec fn mul_req(self, rhs: BigUint) -> bool { true }
    open spec fn mul_spec(self, rhs: BigUint) -> BigUint { arbitrary() }
}
impl<'a> core::ops::Mul<BigUint> for &'a BigUint {
    type Output = BigUint;
    #[verifier::external_body]
    fn mul(self, rhs: BigUint) -> (ret: BigUint) ensures (ret@ as int) == (self@ as int) * (rhs@ as int) { unimplemented!() }
}
impl<'a, 'b> vstd::std_specs::ops::MulSpecImpl<&'b BigUint> for &'a BigUint {
    open spec fn obeys_mul_spec() -> bool { false }
    open spec fn mul_req(self, rhs: &'b BigUint) -> bool { true }
    open spec fn mul_spec(self, rhs: &'b BigUint) -> BigUint { arbitrary() }
}
impl<'a, 'b> core::ops::Mul<&'b BigUint> for &'a BigUint {
    type Output = BigUint;
    #[verifier::external_body]
    fn mul(self, rhs: &'b BigUint) -> (ret: BigUint) ensures (ret@ as int) == (self@ as int) * (rhs@ as int) { unimplemented!() }
}
impl vstd::std_specs::ops::MulAssignSpecImpl<BigUint> for BigUint {
    open spec fn obeys_mul_assign_spec() -> bool { false }
    open spec fn mul_assign_req(&self, rhs: BigUint) -> bool { true }
    open spec fn mul_assign_spec(&self, rhs: BigUint) -> &BigUint { arbitrary() }
}
impl core::ops::MulAssign<BigUint> for BigUint {
    #[verifier::external_body]
    fn mul_assign(&mut self, rhs: BigUint) ensures (final(self)@ as int) == (old(self)@ as int) * (rhs@ as int) { unimplemented!() }
}
impl<'b> vstd::std_specs::ops::MulAssignSpecImpl<&'b BigUint> for BigUint {
    open spec fn obeys_mul_assign_spec() -> bool { false }
    open spec fn mul_assign_req(&self, rhs: &'b BigUint) -> bool { true }
    open spec fn mul_assign_spec(&self, rhs: &'b BigUint) -> &BigUint { arbitrary() }
}
impl<'b> core::ops::MulAssign<&'b BigUint> for BigUint {
    #[verifier::external_body]
    fn mul_assign(&mut self, rhs: &'b BigUint) ensures (final(self)@ as int) == (old(self)@ as int) * (rhs@ as int) { unimplemented!() }
}
impl vstd::std_specs::ops::MulSpecImpl<u8> for BigUint {
    open spec fn obeys_mul_spec() -> bool { false }
    open spec fn mul_req(self, rhs: u8) -> bool { true }
    open spec fn mul_spec(self, rhs: u8) -> BigUint { arbitrary() }
}
impl core::ops::Mul<u8> for BigUint {
    type Output = BigUint;
    #[verifier::external_body]
    fn mul(self, rhs: u8) -> (ret: BigUint) ensures (ret@ as int) == (self@ as int) * (rhs as int) { unimplemented!() }
}
impl vstd::std_specs::ops::MulSpecImpl<BigUint> for u8 {
    open spec fn obeys_mul_spec() -> bool { false }
    open spec fn mul_req(self, rhs: BigUint) -> bool { true }
    open spec fn mul_spec(self, rhs: BigUint) -> BigUint { arbitrary() }
}
impl core::ops::Mul<BigUint> for u8 {
    type Output = BigUint;
    #[verifier::external_body]
    fn mul(self, rhs: BigUint) -> (ret: BigUint) ensures (ret@ as int) == (self as int) * (rhs@ as int) { unimplemented!() }
}
impl<'a> vstd::std_specs::ops::MulSpecImpl<u8> for &'a BigUint {
    open spec fn obeys_mul_spec() -> bool { false }
    open spec fn mul_req(self, rhs: u8) -> bool { true }
    open spec fn mul_spec(self, rhs: u8) -> BigUint { arbitrary() }
}
impl<'a> core::ops::Mul<u8> for &'a BigUint {
    type Output = BigUint;
    #[verifier::external_body]
    fn mul(self, rhs: u8) -> (ret: BigUint) ensures (ret@ as int) == (self@ as int) * (rhs as int) { unimplemented!() }
}
impl<'b> vstd::std_specs::ops::MulSpecImpl<&'b BigUint> for u8 {
    open spec fn obeys_mul_spec() -> bool { false }
    open spec fn mul_req(self, rhs: &'b BigUint) -> bool { true }
    open spec fn mul_spec(self, rhs: &'b BigUint) -> BigUint { arbitrary() }
}
impl<'b> core::ops::Mul<&'b BigUint> for u8 {
    type Output = BigUint;
    #[verifier::external_body]
    fn mul(self, rhs: &'b BigUint) -> (ret: BigUint) ensures (ret@ as int) == (self as int) * (rhs@ as int) { unimplemented!() }
}
impl vstd::std_specs::ops::MulAssignSpecImpl<u8> for BigUint {
    open spec fn obeys_mul_assign_spec() -> bool { false }
    open spec fn mul_assign_req(&self, rhs: u8) -> bool { true }
    open spec fn mul_assign_spec(&self, rhs: u8) -> &BigUint { arbitrary() }
}
impl core::ops::MulAssign<u8> for BigUint {
    #[verifier::external_body]
    fn mul_assign(&mut self, rhs: u8) ensures (final(self)@ as int) == (old(self)@ as int) * (rhs as int) { unimplemented!() }
}
impl vstd::std_specs::ops::MulSpecImpl<u16> for BigUint {
    open spec fn obeys_mul_spec() -> bool { false }
    open spec fn mul_req(self, rhs: u16) -> bool { true }
    open spec fn mul_spec(self, rhs: u16) -> BigUint { arbitrary() }
}
impl core::ops::Mul<u16> for BigUint {
    type Output = BigUint;
    #[verifier::external_body]
    fn mul(self, rhs: u16) -> (ret: BigUint) ensures (ret@ as int) == (self@ as int) * (rhs as int) { unimplemented!() }
}
impl vstd::std_specs::ops::MulSpecImpl<BigUint> for u16 {
    open spec fn obeys_mul_spec() -> bool { false }
    open spec fn mul_req(self, rhs: BigUint) -> bool { true }
    open spec fn mul_spec(self, rhs: BigUint) -> BigUint { arbitrary() }
}
impl core::ops::Mul<BigUint> for u16 {
    type Output = BigUint;
    #[verifier::external_body]
    fn mul(self, rhs: BigUint) -> (ret: BigUint) ensures (ret@ as int) == (self as int) * (rhs@ as int) { unimplemented!() }
}
impl<'a> vstd::std_specs::ops::MulSpecImpl<u16> for &'a BigUint {
    open spec fn obeys_mul_spec() -> bool { false }
    open spec fn mul_req(self, rhs: u16) -> bool { true }
    open spec fn mul_spec(self, rhs: u16) -> BigUint { arbitrary() }
}
impl<'a> core::ops::Mul<u16> for &'a BigUint {
    type Output = BigUint;
    #[verifier::external_body]
    fn mul(self, rhs: u16) -> (ret: BigUint) ensures (ret@ as int) == (self@ as int) * (rhs as int) { unimplemented!() }
}
impl<'b> vstd::std_specs::ops::MulSpecImpl<&'b BigUint> for u16 {
    open spec fn obeys_mul_spec() -> bool { false }
    open spec fn mul_req(self, rhs: &'b BigUint) -> bool { true }
    open spec fn mul_spec(self, rhs: &'b BigUint) -> BigUint { arbitrary() }
}
impl<'b> core::ops::Mul<&'b BigUint> for u16 {
    type Output = BigUint;
    #[verifier::external_body]
    fn mul(self, rhs: &'b BigUint) -> (ret: BigUint) ensures (ret@ as int) == (self as int) * (rhs@ as int) { unimplemented!() }
}
impl vstd::std_specs::ops::MulAssignSpecImpl<u16> for BigUint {
    open spec fn obeys_mul_assign_spec() -> bool { false }
    open spec fn mul_assign_req(&self, rhs: u16) -> bool { true }
    open spec fn mul_assign_spec(&self, rhs: u16) -> &BigUint { arbitrary() }
}
impl core::ops::MulAssign<u16> for BigUint {
    #[verifier::external_body]
    fn mul_assign(&mut self, rhs: u16) ensures (final(self)@ as int) == (old(self)@ as int) * (rhs as int) { unimplemented!() }
}
impl vstd::std_specs::ops::MulSpecImpl<u32> for BigUint {
    open spec fn obeys_mul_spec() -> bool { false }
    open spec fn mul_req(self, rhs: u32) -> bool { true }
    open spec fn mul_spec(self, rhs: u32) -> BigUint { arbitrary() }
}
impl core::ops::Mul<u32> for BigUint {
    type Output = BigUint;
    #[verifier::external_body]
    fn mul(self, rhs: u32) -> (ret: BigUint) ensures (ret@ as int) == (self@ as int) * (rhs as int) { unimplemented!() }
}
impl vstd::std_specs::ops::MulSpecImpl<BigUint> for u32 {
    open spec fn obeys_mul_spec() -> bool { false }
    open spec fn mul_req(self, rhs: BigUint) -> bool { true }
    open spec fn mul_spec(self, rhs: BigUint) -> BigUint { arbitrary() }
}
impl core::ops::Mul<BigUint> for u32 {
    type Output = BigUint;
    #[verifier::external_body]
    fn mul(self, rhs: BigUint) -> (ret: BigUint) ensures (ret@ as int) == (self as int) * (rhs@ as int) { unimplemented!() }
}
impl<'a> vstd::std_specs::ops::MulSpecImpl<u32> for &'a BigUint {
    open spec fn obeys_mul_spec() -> bool { false }
    open spec fn mul_req(self, rhs: u32) -> bool { true }
    open spec fn mul_spec(self, rhs: u32) -> BigUint { arbitrary() }
}
impl<'a> core::ops::Mul<u32> for &'a BigUint {
    type Output = BigUint;
    #[verifier::external_body]
    fn mul(self, rhs: u32) -> (ret: BigUint) ensures (ret@ as int) == (self@ as int) * (rhs as int) { unimplemented!() }
}
impl<'b> vstd::std_specs::ops::MulSpecImpl<&'b BigUint> for u32 {
    open spec fn obeys_mul_spec() -> bool { false }
    open spec fn mul_req(self, rhs: &'b BigUint) -> bool { true }
    open spec fn mul_spec(self, rhs: &'b BigUint) -> BigUint { arbitrary() }
}
impl<'b> core::ops::Mul<&'b BigUint> for u32 {
    type Output = BigUint;
    #[verifier::external_body]
    fn mul(self, rhs: &'b BigUint) -> (ret: BigUint) ensures (ret@ as int) == (self as int) * (rhs@ as int) { unimplemented!() }
}
impl vstd::std_specs::ops::MulAssignSpecImpl<u32> for BigUint {
    open spec fn obeys_mul_assign_spec() -> bool { false }
    open spec fn mul_assign_req(&self, rhs: u32) -> bool { true }
    open spec fn mul_assign_spec(&self, rhs: u32) -> &BigUint { arbitrary() }
}
impl core::ops::MulAssign<u32> for BigUint {
    #[verifier::external_body]
    fn mul_assign(&mut self, rhs: u32) ensures (final(self)@ as int) == (old(self)@ as int) * (rhs as int) { unimplemented!() }
}
impl vstd::std_specs::ops::MulSpecImpl<u64> for BigUint {
    open spec fn obeys_mul_spec() -> bool { false }
    open spec fn mul_req(self, rhs: u64) -> bool { true }
    open spec fn mul_spec(self, rhs: u64) -> BigUint { arbitrary() }
}
impl core::ops::Mul<u64> for BigUint {
    type Output = BigUint;
    #[verifier::external_body]
    fn mul(self, rhs: u64) -> (ret: BigUint) ensures (ret@ as int) == (self@ as int) * (rhs as int) { unimplemented!() }
}
impl vstd::std_specs::ops::MulSpecImpl<BigUint> for u64 {
    open spec fn obeys_mul_spec() -> bool { false }
    open spec fn mul_req(self, rhs: BigUint) -> bool { true }
    open spec fn mul_spec(self, rhs: BigUint) -> BigUint { arbitrary() }
}
impl core::ops::Mul<BigUint> for u64 {
    type Output = BigUint;
    #[verifier::external_body]
    fn mul(self, rhs: BigUint) -> (ret: BigUint) ensures (ret@ as int) == (self as int) * (rhs@ as int) { unimplemented!() }
}
impl<'a> vstd::std_specs::ops::MulSpecImpl<u64> for &'a BigUint {
    open spec fn obeys_mul_spec() -> bool { false }
    open spec fn mul_req(self, rhs: u64) -> bool { true }
    open spec fn mul_spec(self, rhs: u64) -> BigUint { arbitrary() }
}
impl<'a> core::ops::Mul<u64> for &'a BigUint {
    type Output = BigUint;
    #[verifier::external_body]
    fn mul(self, rhs: u64) -> (ret: BigUint) ensures (ret@ as int) == (self@ as int) * (rhs as int) { unimplemented!() }
}
impl<'b> vstd::std_specs::ops::MulSpecImpl<&'b BigUint> for u64 {
    open spec fn obeys_mul_spec() -> bool { false }
    open spec fn mul_req(self, rhs: &'b BigUint) -> bool { true }
    open spec fn mul_spec(self, rhs: &'b BigUint) -> BigUint { arbitrary() }
}
impl<'b> core::ops::Mul<&'b BigUint> for u64 {
    type Output = BigUint;
    #[verifier::external_body]
    fn mul(self, rhs: &'b BigUint) -> (ret: BigUint) ensures (ret@ as int) == (self as int) * (rhs@ as int) { unimplemented!() }
}
impl vstd::std_specs::ops::MulAssignSpecImpl<u64> for BigUint {
    open spec fn obeys_mul_assign_spec() -> bool { false }
    open spec fn mul_assign_req(&self, rhs: u64) -> bool { true }
    open spec fn mul_assign_spec(&self, rhs: u64) -> &BigUint { arbitrary() }
}
impl core::ops::MulAssign<u64> for BigUint {
    #[verifier::external_body]
    fn mul_assign(&mut self, rhs: u64) ensures (final(self)@ as int) == (old(self)@ as int) * (rhs as int) { unimplemented!() }
}
impl vstd::std_specs::ops::MulSpecImpl<u128> for BigUint {
    open spec fn obeys_mul_spec() -> bool { false }
    open spec fn mul_req(self, rhs: u128) -> bool { true }
    open spec fn mul_spec(self, rhs: u128) -> BigUint { arbitrary() }
}
impl core::ops::Mul<u128> for BigUint {
    type Output = BigUint;
    #[verifier::external_body]
    fn mul(self, rhs: u128) -> (ret: BigUint) ensures (ret@ as int) == (self@ as int) * (rhs as int) { unimplemented!() }
}
impl vstd::std_specs::ops::MulSpecImpl<BigUint> for u128 {
    open spec fn obeys_mul_spec() -> bool { false }
    open spec fn mul_req(self, rhs: BigUint) -> bool { true }
    open spec fn mul_spec(self, rhs: BigUint) -> BigUint { arbitrary() }
}
impl core::ops::Mul<BigUint> for u128 {
    type Output = BigUint;
    #[verifier::external_body]
    fn mul(self, rhs: BigUint) -> (ret: BigUint) ensures (ret@ as int) == (self as int) * (rhs@ as int) { unimplemented!() }
}
impl<'a> vstd::std_specs::ops::MulSpecImpl<u128> for &'a BigUint {
    open spec fn obeys_mul_spec() -> bool { false }
    open spec fn mul_req(self, rhs: u128) -> bool { true }
    open spec fn mul_spec(self, rhs: u128) -> BigUint { arbitrary() }
}
impl<'a> core::ops::Mul<u128> for &'a BigUint {
    type Output = BigUint;
    #[verifier::external_body]
    fn mul(self, rhs: u128) -> (ret: BigUint) ensures (ret@ as int) == (self@ as int) * (rhs as int) { unimplemented!() }
}
impl<'b> vstd::std_specs::ops::MulSpecImpl<&'b BigUint> for u128 {
    open spec fn obeys_mul_spec() -> bool { false }
    open spec fn mul_req(self, rhs: &'b BigUint) -> bool { true }
    open spec fn mul_spec(self, rhs: &'b BigUint) -> BigUint { arbitrary() }
}
impl<'b> core::ops::Mul<&'b BigUint> for u128 {
    type Output = BigUint;
    #[verifier::external_body]
    fn mul(self, rhs: &'b BigUint) -> (ret: BigUint) ensures (ret@ as int) == (self as int) * (rhs@ as int) { unimplemented!() }
}
impl vstd::std_specs::ops::MulAssignSpecImpl<u128> for BigUint {
    open spec fn obeys_mul_assign_spec() -> bool { false }
    open spec fn mul_assign_req(&self, rhs: u128) -> bool { true }
    open spec fn mul_assign_spec(&self, rhs: u128) -> &BigUint { arbitrary() }
}
impl core::ops::MulAssign<u128> for BigUint {
    #[verifier::external_body]
    fn mul_assign(&mut self, rhs: u128) ensures (final(self)@ as int) == (old(self)@ as int) * (rhs as int) { unimplemented!() }
}
impl vstd::std_specs::ops::MulSpecImpl<usize> for BigUint {
    open spec fn obeys_mul_spec() -> bool { false }
    open spec fn mul_req(self, rhs: usize) -> bool { true }
    open spec fn mul_spec(self, rhs: usize) -> BigUint { arbitrary() }
}
impl core::ops::Mul<usize> for BigUint {
    type Output = BigUint;
    #[verifier::external_body]
    fn mul(self, rhs: usize) -> (ret: BigUint) ensures (ret@ as int) == (self@ as int) * (rhs as int) { unimplemented!() }
}
impl vstd::std_specs::ops::MulSpecImpl<BigUint> for usize {
    open spec fn obeys_mul_spec() -> bool { false }
    open spec fn mul_req(self, rhs: BigUint) -> bool { true }
    open spec fn mul_spec(self, rhs: BigUint) -> BigUint { arbitrary() }
}
impl core::ops::Mul<BigUint> for usize {
    type Output = BigUint;
    #[verifier::external_body]
    fn mul(self, rhs: BigUint) -> (ret: BigUint) ensures (ret@ as int) == (self as int) * (rhs@ as int) { unimplemented!() }
}
impl<'a> vstd::std_specs::ops::MulSpecImpl<usize> for &'a BigUint {
    open spec fn obeys_mul_spec() -> bool { false }
    open spec fn mul_req(self, rhs: usize) -> bool { true }
    open spec fn mul_spec(self, rhs: usize) -> BigUint { arbitrary() }
}
impl<'a> core::ops::Mul<usize> for &'a BigUint {
    type Output = BigUint;
    #[verifier::external_body]
    fn mul(self, rhs: usize) -> (ret: BigUint) ensures (ret@ as int) == (self@ as int) * (rhs as int) { unimplemented!() }
}
impl<'b> vstd::std_specs::ops::MulSpecImpl<&'b BigUint> for usize {
    open spec fn obeys_mul_spec() -> bool { false }
    open spec fn mul_req(self, rhs: &'b BigUint) -> bool { true }
    open spec fn mul_spec(self, rhs: &'b BigUint) -> BigUint { arbitrary() }
}
impl<'b> core::ops::Mul<&'b BigUint> for usize {
    type Output = BigUint;
    #[verifier::external_body]
    fn mul(self, rhs: &'b BigUint) -> (ret: BigUint) ensures (ret@ as int) == (self as int) * (rhs@ as int) { unimplemented!() }
}
impl vstd::std_specs::ops::MulAssignSpecImpl<usize> for BigUint {
    open spec fn obeys_mul_assign_spec() -> bool { false }
    open spec fn mul_assign_req(&self, rhs: usize) -> bool { true }
    open spec fn mul_assign_spec(&self, rhs: usize) -> &BigUint { arbitrary() }
}
impl core::ops::MulAssign<usize> for BigUint {
    #[verifier::external_body]
    fn mul_assign(&mut self, rhs: usize) ensures (final(self)@ as int) == (old(self)@ as int) * (rhs as int) { unimplemented!() }
}
impl vstd::std_specs::ops::DivSpecImpl<BigUint> for BigUint {
    open spec fn obeys_div_spec() -> bool { false }
    open spec fn div_req(self, rhs: BigUint) -> bool { true }
    open spec fn div_spec(self, rhs: BigUint) -> BigUint { arbitrary() }
}
impl core::ops::Div<BigUint> for BigUint {
    type Output = BigUint;
    #[verifier::external_body]
    fn div(self, rhs: BigUint) -> (ret: BigUint) ensures (rhs@ as int) != 0, (ret@ as int) == (self@ as int) / (rhs@ as int) { unimplemented!() }
}
impl<'b> vstd::std_specs::ops::DivSpecImpl<&'b BigUint> for BigUint {
    open spec fn obeys_div_spec() -> bool { false }
    open spec fn div_req(self, rhs: &'b BigUint) -> bool { true }
    open spec fn div_spec(self, rhs: &'b BigUint) -> BigUint { arbitrary() }
}
impl<'b> core::ops::Div<&'b BigUint> for BigUint {
    type Output = BigUint;
    #[verifier::external_body]
    fn div(self, rhs: &'b BigUint) -> (ret: BigUint) ensures (rhs@ as int) != 0, (ret@ as int) == (self@ as int) / (rhs@ as int) { unimplemented!() }
}
impl<'a> vstd::std_specs::ops::DivSpecImpl<BigUint> for &'a BigUint {
    open spec fn obeys_div_spec() -> bool { false }
    open spec fn div_req(self, rhs: BigUint) -> bool { true }
    open spec fn div_spec(self, rhs: BigUint) -> BigUint { arbitrary() }
}
impl<'a> core::ops::Div<BigUint> for &'a BigUint {
    type Output = BigUint;
    #[verifier::external_body]
    fn div(self, rhs: BigUint) -> (ret: BigUint) ensures (rhs@ as int) != 0, (ret@ as int) == (self@ as int) / (rhs@ as int) { unimplemented!() }
}
impl<'a, 'b> vstd::std_specs::ops::DivSpecImpl<&'b BigUint> for &'a BigUint {
    open spec fn obeys_div_spec() -> bool { false }
    open spec fn div_req(self, rhs: &'b BigUint) -> bool { true }
    open spec fn div_spec(self, rhs: &'b BigUint) -> BigUint { arbitrary() }
}
impl<'a, 'b> core::ops::Div<&'b BigUint> for &'a BigUint {
    type Output = BigUint;
    #[verifier::external_body]
    fn div(self, rhs: &'b BigUint) -> (ret: BigUint) ensures (rhs@ as int) != 0, (ret@ as int) == (self@ as int) / (rhs@ as int) { unimplemented!() }
}
impl vstd::std_specs::ops::DivAssignSpecImpl<BigUint> for BigUint {
    open spec fn obeys_div_assign_spec() -> bool { false }
    open spec fn div_assign_req(&self, rhs: BigUint) -> bool { true }
    open spec fn div_assign_spec(&self, rhs: BigUint) -> &BigUint { arbitrary() }
}
impl core::ops::DivAssign<BigUint> for BigUint {
    #[verifier::external_body]
    fn div_assign(&mut self, rhs: BigUint) ensures (rhs@ as int) != 0, (final(self)@ as int) == (old(self)@ as int) / (rhs@ as int) { unimplemented!() }
}
impl<'b> vstd::std_specs::ops::DivAssignSpecImpl<&'b BigUint> for BigUint {
    open spec fn obeys_div_assign_spec() -> bool { false }
    open spec fn div_assign_req(&self, rhs: &'b BigUint) -> bool { true }
    open spec fn div_assign_spec(&self, rhs: &'b BigUint) -> &BigUint { arbitrary() }
}
impl<'b> core::ops::DivAssign<&'b BigUint> for BigUint {
    #[verifier::external_body]
    fn div_assign(&mut self, rhs: &'b BigUint) ensures (rhs@ as int) != 0, (final(self)@ as int) == (old(self)@ as int) / (rhs@ as int) { unimplemented!() }
}
impl vstd::std_specs::ops::DivSpecImpl<u8> for BigUint {
    open spec fn obeys_div_spec() -> bool { false }
    open spec fn div_req(self, rhs: u8) -> bool { true }
    open spec fn div_spec(self, rhs: u8) -> BigUint { arbitrary() }
}
impl core::ops::Div<u8> for BigUint {
    type Output = BigUint;
    #[verifier::external_body]
    fn div(self, rhs: u8) -> (ret: BigUint) ensures (rhs as int) != 0, (ret@ as int) == (self@ as int) / (rhs as int) { unimplemented!() }
}
impl vstd::std_specs::ops::DivSpecImpl<BigUint> for u8 {
    open spec fn obeys_div_spec() -> bool { false }
    open spec fn div_req(self, rhs: BigUint) -> bool { true }
    open spec fn div_spec(self, rhs: BigUint) -> BigUint { arbitrary() }
}
impl core::ops::Div<BigUint> for u8 {
    type Output = BigUint;
    #[verifier::external_body]
    fn div(self, rhs: BigUint) -> (ret: BigUint) ensures (rhs@ as int) != 0, (ret@ as int) == (self as int) / (rhs@ as int) { unimplemented!() }
}
impl<'a> vstd::std_specs::ops::DivSpecImpl<u8> for &'a BigUint {
    open spec fn obeys_div_spec() -> bool { false }
    open spec fn div_req(self, rhs: u8) -> bool { true }
    open spec fn div_spec(self, rhs: u8) -> BigUint { arbitrary() }
}
impl<'a> core::ops::Div<u8> for &'a BigUint {
    type Output = BigUint;
    #[verifier::external_body]
    fn div(self, rhs: u8) -> (ret: BigUint) ensures (rhs as int) != 0, (ret@ as int) == (self@ as int) / (rhs as int) { unimplemented!() }
}
impl<'b> vstd::std_specs::ops::DivSpecImpl<&'b BigUint> for u8 {
    open spec fn obeys_div_spec() -> bool { false }
    open spec fn div_req(self, rhs: &'b BigUint) -> bool { true }
    open spec fn div_spec(self, rhs: &'b BigUint) -> BigUint { arbitrary() }
}
impl<'b> core::ops::Div<&'b BigUint> for u8 {
    type Output = BigUint;
    #[verifier::external_body]
    fn div(self, rhs: &'b BigUint) -> (ret: BigUint) ensures (rhs@ as int) != 0, (ret@ as int) == (self as int) / (rhs@ as int) { unimplemented!() }
}
impl vstd::std_specs::ops::DivAssignSpecImpl<u8> for BigUint {
    open spec fn obeys_div_assign_spec() -> bool { false }
    open spec fn div_assign_req(&self, rhs: u8) -> bool { true }
    open spec fn div_assign_spec(&self, rhs: u8) -> &BigUint { arbitrary() }
}
impl core::ops::DivAssign<u8> for BigUint {
    #[verifier::external_body]
    fn div_assign(&mut self, rhs: u8) ensures (rhs as int) != 0, (final(self)@ as int) == (old(self)@ as int) / (rhs as int) { unimplemented!() }
}
impl vstd::std_specs::ops::DivSpecImpl<u16> for BigUint {
    open spec fn obeys_div_spec() -> bool { false }
    open spec fn div_req(self, rhs: u16) -> bool { true }
    open spec fn div_spec(self, rhs: u16) -> BigUint { arbitrary() }
}
impl core::ops::Div<u16> for BigUint {
    type Output = BigUint;
    #[verifier::external_body]
    fn div(self, rhs: u16) -> (ret: BigUint) ensures (rhs as int) != 0, (ret@ as int) == (self@ as int) / (rhs as int) { unimplemented!() }
}
impl vstd::std_specs::ops::DivSpecImpl<BigUint> for u16 {
    open spec fn obeys_div_spec() -> bool { false }
    open spec fn div_req(self, rhs: BigUint) -> bool { true }
    open spec fn div_spec(self, rhs: BigUint) -> BigUint { arbitrary() }
}
impl core::ops::Div<BigUint> for u16 {
    type Output = BigUint;
    #[verifier::external_body]
    fn div(self, rhs: BigUint) -> (ret: BigUint) ensures (rhs@ as int) != 0, (ret@ as int) == (self as int) / (rhs@ as int) { unimplemented!() }
}
impl<'a> vstd::std_specs::ops::DivSpecImpl<u16> for &'a BigUint {
    open spec fn obeys_div_spec() -> bool { false }
    open spec fn div_req(self, rhs: u16) -> bool { true }
    open spec fn div_spec(self, rhs: u16) -> BigUint { arbitrary() }
}
impl<'a> core::ops::Div<u16> for &'a BigUint {
    type Output = BigUint;
    #[verifier::external_body]
    fn div(self, rhs: u16) -> (ret: BigUint) ensures (rhs as int) != 0, (ret@ as int) == (self@ as int) / (rhs as int) { unimplemented!() }
}
impl<'b> vstd::std_specs::ops::DivSpecImpl<&'b BigUint> for u16 {
    open spec fn obeys_div_spec() -> bool { false }
    open spec fn div_req(self, rhs: &'b BigUint) -> bool { true }
    open spec fn div_spec(self, rhs: &'b BigUint) -> BigUint { arbitrary() }
}
impl<'b> core::ops::Div<&'b BigUint> for u16 {
    type Output = BigUint;
    #[verifier::external_body]
    fn div(self, rhs: &'b BigUint) -> (ret: BigUint) ensures (rhs@ as int) != 0, (ret@ as int) == (self as int) / (rhs@ as int) { unimplemented!() }
}
impl vstd::std_specs::ops::DivAssignSpecImpl<u16> for BigUint {
    open spec fn obeys_div_assign_spec() -> bool { false }
    open spec fn div_assign_req(&self, rhs: u16) -> bool { true }
    open spec fn div_assign_spec(&self, rhs: u16) -> &BigUint { arbitrary() }
}
impl core::ops::DivAssign<u16> for BigUint {
    #[verifier::external_body]
    fn div_assign(&mut self, rhs: u16) ensures (rhs as int) != 0, (final(self)@ as int) == (old(self)@ as int) / (rhs as int) { unimplemented!() }
}
impl vstd::std_specs::ops::DivSpecImpl<u32> for BigUint {
    open spec fn obeys_div_spec() -> bool { false }
    open spec fn div_req(self, rhs: u32) -> bool { true }
    open spec fn div_spec(self, rhs: u32) -> BigUint { arbitrary() }
}
impl core::ops::Div<u32> for BigUint {
    type Output = BigUint;
    #[verifier::external_body]
    fn div(self, rhs: u32) -> (ret: BigUint) ensures (rhs as int) != 0, (ret@ as int) == (self@ as int) / (rhs as int) { unimplemented!() }
}
impl vstd::std_specs::ops::DivSpecImpl<BigUint> for u32 {
    open spec fn obeys_div_spec() -> bool { false }
    open spec fn div_req(self, rhs: BigUint) -> bool { true }
    open spec fn div_spec(self, rhs: BigUint) -> BigUint { arbitrary() }
}
impl core::ops::Div<BigUint> for u32 {
    type Output = BigUint;
    #[verifier::external_body]
    fn div(self, rhs: BigUint) -> (ret: BigUint) ensures (rhs@ as int) != 0, (ret@ as int) == (self as int) / (rhs@ as int) { unimplemented!() }
}
impl<'a> vstd::std_specs::ops::DivSpecImpl<u32> for &'a BigUint {
    open spec fn obeys_div_spec() -> bool { false }
    open spec fn div_req(self, rhs: u32) -> bool { true }
    open spec fn div_spec(self, rhs: u32) -> BigUint { arbitrary() }
}
impl<'a> core::ops::Div<u32> for &'a BigUint {
    type Output = BigUint;
    #[verifier::external_body]
    fn div(self, rhs: u32) -> (ret: BigUint) ensures (rhs as int) != 0, (ret@ as int) == (self@ as int) / (rhs as int) { unimplemented!() }
}
impl<'b> vstd::std_specs::ops::DivSpecImpl<&'b BigUint> for u32 {
    open spec fn obeys_div_spec() -> bool { false }
    open spec fn div_req(self, rhs: &'b BigUint) -> bool { true }
    open spec fn div_spec(self, rhs: &'b BigUint) -> BigUint { arbitrary() }
}
impl<'b> core::ops::Div<&'b BigUint> for u32 {
    type Output = BigUint;
    #[verifier::external_body]
    fn div(self, rhs: &'b BigUint) -> (ret: BigUint) ensures (rhs@ as int) != 0, (ret@ as int) == (self as int) / (rhs@ as int) { unimplemented!() }
}
impl vstd::std_specs::ops::DivAssignSpecImpl<u32> for BigUint {
    open spec fn obeys_div_assign_spec() -> bool { false }
    open spec fn div_assign_req(&self, rhs: u32) -> bool { true }
    open spec fn div_assign_spec(&self, rhs: u32) -> &BigUint { arbitrary() }
}
impl core::ops::DivAssign<u32> for BigUint {
    #[verifier::external_body]
    fn div_assign(&mut self, rhs: u32) ensures (rhs as int) != 0, (final(self)@ as int) == (old(self)@ as int) / (rhs as int) { unimplemented!() }
}
impl vstd::std_specs::ops::DivSpecImpl<u64> for BigUint {
    open spec fn obeys_div_spec() -> bool { false }
    open spec fn div_req(self, rhs: u64) -> bool { true }
    open spec fn div_spec(self, rhs: u64) -> BigUint { arbitrary() }
}
impl core::ops::Div<u64> for BigUint {
    type Output = BigUint;
    #[verifier::external_body]
    fn div(self, rhs: u64) -> (ret: BigUint) ensures (rhs as int) != 0, (ret@ as int) == (self@ as int) / (rhs as int) { unimplemented!() }
}
impl vstd::std_specs::ops::DivSpecImpl<BigUint> for u64 {
    open spec fn obeys_div_spec() -> bool { false }
    open spec fn div_req(self, rhs: BigUint) -> bool { true }
    open spec fn div_spec(self, rhs: BigUint) -> BigUint { arbitrary() }
}
impl core::ops::Div<BigUint> for u64 {
    type Output = BigUint;
    #[verifier::external_body]
    fn div(self, rhs: BigUint) -> (ret: BigUint) ensures (rhs@ as int) != 0, (ret@ as int) == (self as int) / (rhs@ as int) { unimplemented!() }
}
impl<'a> vstd::std_specs::ops::DivSpecImpl<u64> for &'a BigUint {
    open spec fn obeys_div_spec() -> bool { false }
    open spec fn div_req(self, rhs: u64) -> bool { true }
    open spec fn div_spec(self, rhs: u64) -> BigUint { arbitrary() }
}
impl<'a> core::ops::Div<u64> for &'a BigUint {
    type Output = BigUint;
    #[verifier::external_body]
    fn div(self, rhs: u64) -> (ret: BigUint) ensures (rhs as int) != 0, (ret@ as int) == (self@ as int) / (rhs as int) { unimplemented!() }
}
impl<'b> vstd::std_specs::ops::DivSpecImpl<&'b BigUint> for u64 {
    open spec fn obeys_div_spec() -> bool { false }
    open spec fn div_req(self, rhs: &'b BigUint) -> bool { true }
    open spec fn div_spec(self, rhs: &'b BigUint) -> BigUint { arbitrary() }
}
impl<'b> core::ops::Div<&'b BigUint> for u64 {
    type Output = BigUint;
    #[verifier::external_body]
    fn div(self, rhs: &'b BigUint) -> (ret: BigUint) ensures (rhs@ as int) != 0, (ret@ as int) == (self as int) / (rhs@ as int) { unimplemented!() }
}
impl vstd::std_specs::ops::DivAssignSpecImpl<u64> for BigUint {
    open spec fn obeys_div_assign_spec() -> bool { false }
    open spec fn div_assign_req(&self, rhs: u64) -> bool { true }
    open spec fn div_assign_spec(&self, rhs: u64) -> &BigUint { arbitrary() }
}
impl core::ops::DivAssign<u64> for BigUint {
    #[verifier::external_body]
    fn div_assign(&mut self, rhs: u64) ensures (rhs as int) != 0, (final(self)@ as int) == (old(self)@ as int) / (rhs as int) { unimplemented!() }
}
impl vstd::std_specs::ops::DivSpecImpl<u128> for BigUint {
    open spec fn obeys_div_spec() -> bool { false }
    open spec fn div_req(self, rhs: u128) -> bool { true }
    open spec fn div_spec(self, rhs: u128) -> BigUint { arbitrary() }
}
impl core::ops::Div<u128> for BigUint {
    type Output = BigUint;
    #[verifier::external_body]
    fn div(self, rhs: u128) -> (ret: BigUint) ensures (rhs as int) != 0, (ret@ as int) == (self@ as int) / (rhs as int) { unimplemented!() }
}
impl vstd::std_specs::ops::DivSpecImpl<BigUint> for u128 {
    open spec fn obeys_div_spec() -> bool { false }
    open spec fn div_req(self, rhs: BigUint) -> bool { true }
    open spec fn div_spec(self, rhs: BigUint) -> BigUint { arbitrary() }
}
impl core::ops::Div<BigUint> for u128 {
    type Output = BigUint;
    #[verifier::external_body]
    fn div(self, rhs: BigUint) -> (ret: BigUint) ensures (rhs@ as int) != 0, (ret@ as int) == (self as int) / (rhs@ as int) { unimplemented!() }
}
impl<'a> vstd::std_specs::ops::DivSpecImpl<u128> for &'a BigUint {
    open spec fn obeys_div_spec() -> bool { false }
    open spec fn div_req(self, rhs: u128) -> bool { true }
    open spec fn div_spec(self, rhs: u128) -> BigUint { arbitrary() }
}
impl<'a> core::ops::Div<u128> for &'a BigUint {
    type Output = BigUint;
    #[verifier::external_body]
    fn div(self, rhs: u128) -> (ret: BigUint) ensures (rhs as int) != 0, (ret@ as int) == (self@ as int) / (rhs as int) { unimplemented!() }
}
impl<'b> vstd::std_specs::ops::DivSpecImpl<&'b BigUint> for u128 {
    open spec fn obeys_div_spec() -> bool { false }
    open spec fn div_req(self, rhs: &'b BigUint) -> bool { true }
    open spec fn div_spec(self, rhs: &'b BigUint) -> BigUint { arbitrary() }
}
impl<'b> core::ops::Div<&'b BigUint> for u128 {
    type Output = BigUint;
    #[verifier::external_body]
    fn div(self, rhs: &'b BigUint) -> (ret: BigUint) ensures (rhs@ as int) != 0, (ret@ as int) == (self as int) / (rhs@ as int) { unimplemented!() }
}
impl vstd::std_specs::ops::DivAssignSpecImpl<u128> for BigUint {
    open spec fn obeys_div_assign_spec() -> bool { false }
    open spec fn div_assign_req(&self, rhs: u128) -> bool { true }
    open spec fn div_assign_spec(&self, rhs: u128) -> &BigUint { arbitrary() }
}
impl core::ops::DivAssign<u128> for BigUint {
    #[verifier::external_body]
    fn div_assign(&mut self, rhs: u128) ensures (rhs as int) != 0, (final(self)@ as int) == (old(self)@ as int) / (rhs as int) { unimplemented!() }
}
impl vstd::std_specs::ops::DivSpecImpl<usize> for BigUint {
    open spec fn obeys_div_spec() -> bool { false }
    open spec fn div_req(self, rhs: usize) -> bool { true }
    open spec fn div_spec(self, rhs: usize) -> BigUint { arbitrary() }
}
impl core::ops::Div<usize> for BigUint {
    type Output = BigUint;
    #[verifier::external_body]
    fn div(self, rhs: usize) -> (ret: BigUint) ensures (rhs as int) != 0, (ret@ as int) == (self@ as int) / (rhs as int) { unimplemented!() }
}
impl vstd::std_specs::ops::DivSpecImpl<BigUint> for usize {
    open spec fn obeys_div_spec() -> bool { false }
    open spec fn div_req(self, rhs: BigUint) -> bool { true }
    open spec fn div_spec(self, rhs: BigUint) -> BigUint { arbitrary() }
}
impl core::ops::Div<BigUint> for usize {
    type Output = BigUint;
    #[verifier::external_body]
    fn div(self, rhs: BigUint) -> (ret: BigUint) ensures (rhs@ as int) != 0, (ret@ as int) == (self as int) / (rhs@ as int) { unimplemented!() }
}
impl<'a> vstd::std_specs::ops::DivSpecImpl<usize> for &'a BigUint {
    open spec fn obeys_div_spec() -> bool { false }
    open spec fn div_req(self, rhs: usize) -> bool { true }
    open spec fn div_spec(self, rhs: usize) -> BigUint { arbitrary() }
}
impl<'a> core::ops::Div<usize> for &'a BigUint {
    type Output = BigUint;
    #[verifier::external_body]
    fn div(self, rhs: usize) -> (ret: BigUint) ensures (rhs as int) != 0, (ret@ as int) == (self@ as int) / (rhs as int) { unimplemented!() }
}
impl<'b> vstd::std_specs::ops::DivSpecImpl<&'b BigUint> for usize {
    open spec fn obeys_div_spec() -> bool { false }
    open spec fn div_req(self, rhs: &'b BigUint) -> bool { true }
    open spec fn div_spec(self, rhs: &'b BigUint) -> BigUint { arbitrary() }
}
impl<'b> core::ops::Div<&'b BigUint> for usize {
    type Output = BigUint;
    #[verifier::external_body]
    fn div(self, rhs: &'b BigUint) -> (ret: BigUint) ensures (rhs@ as int) != 0, (ret@ as int) == (self as int) / (rhs@ as int) { unimplemented!() }
}
impl vstd::std_specs::ops::DivAssignSpecImpl<usize> for BigUint {
    open spec fn obeys_div_assign_spec() -> bool { false }
    open spec fn div_assign_req(&self, rhs: usize) -> bool { true }
    open spec fn div_assign_spec(&self, rhs: usize) -> &BigUint { arbitrary() }
}
impl core::ops::DivAssign<usize> for BigUint {
    #[verifier::external_body]
    fn div_assign(&mut self, rhs: usize) ensures (rhs as int) != 0, (final(self)@ as int) == (old(self)@ as int) / (rhs as int) { unimplemented!() }
}
impl vstd::std_specs::ops::RemSpecImpl<BigUint> for BigUint {
    open spec fn obeys_rem_spec() -> bool { false }
    open spec fn rem_req(self, rhs: BigUint) -> bool { true }
    open spec fn rem_spec(self, rhs: BigUint) -> BigUint { arbitrary() }
}
impl core::ops::Rem<BigUint> for BigUint {
    type Output = BigUint;
    #[verifier::external_body]
    fn rem(self, rhs: BigUint) -> (ret: BigUint) ensures (rhs@ as int) != 0, (ret@ as int) == (self@ as int) % (rhs@ as int) { unimplemented!() }
}
impl<'b> vstd::std_specs::ops::RemSpecImpl<&'b BigUint> for BigUint {
    open spec fn obeys_rem_spec() -> bool { false }
    open spec fn rem_req(self, rhs: &'b BigUint) -> bool { true }
    open spec fn rem_spec(self, rhs: &'b BigUint) -> BigUint { arbitrary() }
}
impl<'b> core::ops::Rem<&'b BigUint> for BigUint {
    type Output = BigUint;
    #[verifier::external_body]
    fn rem(self, rhs: &'b BigUint) -> (ret: BigUint) ensures (rhs@ as int) != 0, (ret@ as int) == (self@ as int) % (rhs@ as int) { unimplemented!() }
}
impl<'a> vstd::std_specs::ops::RemSpecImpl<BigUint> for &'a BigUint {
    open spec fn obeys_rem_spec() -> bool { false }
    open spec fn rem_req(self, rhs: BigUint) -> bool { true }
    open spec fn rem_spec(self, rhs: BigUint) -> BigUint { arbitrary() }
}
impl<'a> core::ops::Rem<BigUint> for &'a BigUint {
    type Output = BigUint;
    #[verifier::external_body]
    fn rem(self, rhs: BigUint) -> (ret: BigUint) ensures (rhs@ as int) != 0, (ret@ as int) == (self@ as int) % (rhs@ as int) { unimplemented!() }
}
impl<'a, 'b> vstd::std_specs::ops::RemSpecImpl<&'b BigUint> for &'a BigUint {
    open spec fn obeys_rem_spec() -> bool { false }
    open spec fn rem_req(self, rhs: &'b BigUint) -> bool { true }
    open spec fn rem_spec(self, rhs: &'b BigUint) -> BigUint { arbitrary() }
}
impl<'a, 'b> core::ops::Rem<&'b BigUint> for &'a BigUint {
    type Output = BigUint;
    #[verifier::external_body]
    fn rem(self, rhs: &'b BigUint) -> (ret: BigUint) ensures (rhs@ as int) != 0, (ret@ as int) == (self@ as int) % (rhs@ as int) { unimplemented!() }
}
impl vstd::std_specs::ops::RemAssignSpecImpl<BigUint> for BigUint {
    open spec fn obeys_rem_assign_spec() -> bool { false }
    open spec fn rem_assign_req(&self, rhs: BigUint) -> bool { true }
    open spec fn rem_assign_spec(&self, rhs: BigUint) -> &BigUint { arbitrary() }
}
impl core::ops::RemAssign<BigUint> for BigUint {
    #[verifier::external_body]
    fn rem_assign(&mut self, rhs: BigUint) ensures (rhs@ as int) != 0, (final(self)@ as int) == (old(self)@ as int) % (rhs@ as int) { unimplemented!() }
}
impl<'b> vstd::std_specs::ops::RemAssignSpecImpl<&'b BigUint> for BigUint {
    open spec fn obeys_rem_assign_spec() -> bool { false }
    open spec fn rem_assign_req(&self, rhs: &'b BigUint) -> bool { true }
    open spec fn rem_assign_spec(&self, rhs: &'b BigUint) -> &BigUint { arbitrary() }
}
impl<'b> core::ops::RemAssign<&'b BigUint> for BigUint {
    #[verifier::external_body]
    fn rem_assign(&mut self, rhs: &'b BigUint) ensures (rhs@ as int) != 0, (final(self)@ as int) == (old(self)@ as int) % (rhs@ as int) { unimplemented!() }
}
impl vstd::std_specs::ops::RemSpecImpl<u8> for BigUint {
    open spec fn obeys_rem_spec() -> bool { false }
    open spec fn rem_req(self, rhs: u8) -> bool { true }
    open spec fn rem_spec(self, rhs: u8) -> BigUint { arbitrary() }
}
impl core::ops::Rem<u8> for BigUint {
    type Output = BigUint;
    #[verifier::external_body]
    fn rem(self, rhs: u8) -> (ret: BigUint) ensures (rhs as int) != 0, (ret@ as int) == (self@ as int) % (rhs as int) { unimplemented!() }
}
impl vstd::std_specs::ops::RemSpecImpl<BigUint> for u8 {
    open spec fn obeys_rem_spec() -> bool { false }
    open spec fn rem_req(self, rhs: BigUint) -> bool { true }
    open spec fn rem_spec(self, rhs: BigUint) -> BigUint { arbitrary() }
}
impl core::ops::Rem<BigUint> for u8 {
    type Output = BigUint;
    #[verifier::external_body]
    fn rem(self, rhs: BigUint) -> (ret: BigUint) ensures (rhs@ as int) != 0, (ret@ as int) == (self as int) % (rhs@ as int) { unimplemented!() }
}
impl<'a> vstd::std_specs::ops::RemSpecImpl<u8> for &'a BigUint {
    open spec fn obeys_rem_spec() -> bool { false }
    open spec fn rem_req(self, rhs: u8) -> bool { true }
    open spec fn rem_spec(self, rhs: u8) -> BigUint { arbitrary() }
}
impl<'a> core::ops::Rem<u8> for &'a BigUint {
    type Output = BigUint;
    #[verifier::external_body]
    fn rem(self, rhs: u8) -> (ret: BigUint) ensures (rhs as int) != 0, (ret@ as int) == (self@ as int) % (rhs as int) { unimplemented!() }
}
impl<'b> vstd::std_specs::ops::RemSpecImpl<&'b BigUint> for u8 {
    open spec fn obeys_rem_spec() -> bool { false }
    open spec fn rem_req(self, rhs: &'b BigUint) -> bool { true }
    open spec fn rem_spec(self, rhs: &'b BigUint) -> BigUint { arbitrary() }
}
impl<'b> core::ops::Rem<&'b BigUint> for u8 {
    type Output = BigUint;
    #[verifier::external_body]
    fn rem(self, rhs: &'b BigUint) -> (ret: BigUint) ensures (rhs@ as int) != 0, (ret@ as int) == (self as int) % (rhs@ as int) { unimplemented!() }
}
impl vstd::std_specs::ops::RemAssignSpecImpl<u8> for BigUint {
    open spec fn obeys_rem_assign_spec() -> bool { false }
    open spec fn rem_assign_req(&self, rhs: u8) -> bool { true }
    open spec fn rem_assign_spec(&self, rhs: u8) -> &BigUint { arbitrary() }
}
impl core::ops::RemAssign<u8> for BigUint {
    #[verifier::external_body]
    fn rem_assign(&mut self, rhs: u8) ensures (rhs as int) != 0, (final(self)@ as int) == (old(self)@ as int) % (rhs as int) { unimplemented!() }
}
impl vstd::std_specs::ops::RemSpecImpl<u16> for BigUint {
    open spec fn obeys_rem_spec() -> bool { false }
    open spec fn rem_req(self, rhs: u16) -> bool { true }
    open spec fn rem_spec(self, rhs: u16) -> BigUint { arbitrary() }
}
impl core::ops::Rem<u16> for BigUint {
    type Output = BigUint;
    #[verifier::external_body]
    fn rem(self, rhs: u16) -> (ret: BigUint) ensures (rhs as int) != 0, (ret@ as int) == (self@ as int) % (rhs as int) { unimplemented!() }
}
impl vstd::std_specs::ops::RemSpecImpl<BigUint> for u16 {
    open spec fn obeys_rem_spec() -> bool { false }
    open spec fn rem_req(self, rhs: BigUint) -> bool { true }
    open spec fn rem_spec(self, rhs: BigUint) -> BigUint { arbitrary() }
}
impl core::ops::Rem<BigUint> for u16 {
    type Output = BigUint;
    #[verifier::external_body]
    fn rem(self, rhs: BigUint) -> (ret: BigUint) ensures (rhs@ as int) != 0, (ret@ as int) == (self as int) % (rhs@ as int) { unimplemented!() }
}
impl<'a> vstd::std_specs::ops::RemSpecImpl<u16> for &'a BigUint {
    open spec fn obeys_rem_spec() -> bool { false }
    open spec fn rem_req(self, rhs: u16) -> bool { true }
    open spec fn rem_spec(self, rhs: u16) -> BigUint { arbitrary() }
}
impl<'a> core::ops::Rem<u16> for &'a BigUint {
    type Output = BigUint;
    #[verifier::external_body]
    fn rem(self, rhs: u16) -> (ret: BigUint) ensures (rhs as int) != 0, (ret@ as int) == (self@ as int) % (rhs as int) { unimplemented!() }
}
impl<'b> vstd::std_specs::ops::RemSpecImpl<&'b BigUint> for u16 {
    open spec fn obeys_rem_spec() -> bool { false }
    open spec fn rem_req(self, rhs: &'b BigUint) -> bool { true }
    open spec fn rem_spec(self, rhs: &'b BigUint) -> BigUint { arbitrary() }
}
impl<'b> core::ops::Rem<&'b BigUint> for u16 {
    type Output = BigUint;
    #[verifier::external_body]
    fn rem(self, rhs: &'b BigUint) -> (ret: BigUint) ensures (rhs@ as int) != 0, (ret@ as int) == (self as int) % (rhs@ as int) { unimplemented!() }
}
impl vstd::std_specs::ops::RemAssignSpecImpl<u16> for BigUint {
    open spec fn obeys_rem_assign_spec() -> bool { false }
    open spec fn rem_assign_req(&self, rhs: u16) -> bool { true }
    open spec fn rem_assign_spec(&self, rhs: u16) -> &BigUint { arbitrary() }
}
impl core::ops::RemAssign<u16> for BigUint {
    #[verifier::external_body]
    fn rem_assign(&mut self, rhs: u16) ensures (rhs as int) != 0, (final(self)@ as int) == (old(self)@ as int) % (rhs as int) { unimplemented!() }
}
impl vstd::std_specs::ops::RemSpecImpl<u32> for BigUint {
    open spec fn obeys_rem_spec() -> bool { false }
    open spec fn rem_req(self, rhs: u32) -> bool { true }
    open spec fn rem_spec(self, rhs: u32) -> BigUint { arbitrary() }
}
impl core::ops::Rem<u32> for BigUint {
    type Output = BigUint;
    #[verifier::external_body]
    fn rem(self, rhs: u32) -> (ret: BigUint) ensures (rhs as int) != 0, (ret@ as int) == (self@ as int) % (rhs as int) { unimplemented!() }
}
impl vstd::std_specs::ops::RemSpecImpl<BigUint> for u32 {
    open spec fn obeys_rem_spec() -> bool { false }
    open spec fn rem_req(self, rhs: BigUint) -> bool { true }
    open spec fn rem_spec(self, rhs: BigUint) -> BigUint { arbitrary() }
}
impl core::ops::Rem<BigUint> for u32 {
    type Output = BigUint;
    #[verifier::external_body]
    fn rem(self, rhs: BigUint) -> (ret: BigUint) ensures (rhs@ as int) != 0, (ret@ as int) == (self as int) % (rhs@ as int) { unimplemented!() }
}
impl<'a> vstd::std_specs::ops::RemSpecImpl<u32> for &'a BigUint {
    open spec fn obeys_rem_spec() -> bool { false }
    open spec fn rem_req(self, rhs: u32) -> bool { true }
    open spec fn rem_spec(self, rhs: u32) -> BigUint { arbitrary() }
}
impl<'a> core::ops::Rem<u32> for &'a BigUint {
    type Output = BigUint;
    #[verifier::external_body]
    fn rem(self, rhs: u32) -> (ret: BigUint) ensures (rhs as int) != 0, (ret@ as int) == (self@ as int) % (rhs as int) { unimplemented!() }
}
impl<'b> vstd::std_specs::ops::RemSpecImpl<&'b BigUint> for u32 {
    open spec fn obeys_rem_spec() -> bool { false }
    open spec fn rem_req(self, rhs: &'b BigUint) -> bool { true }
    open spec fn rem_spec(self, rhs: &'b BigUint) -> BigUint { arbitrary() }
}
impl<'b> core::ops::Rem<&'b BigUint> for u32 {
    type Output = BigUint;
    #[verifier::external_body]
    fn rem(self, rhs: &'b BigUint) -> (ret: BigUint) ensures (rhs@ as int) != 0, (ret@ as int) == (self as int) % (rhs@ as int) { unimplemented!() }
}
impl vstd::std_specs::ops::RemAssignSpecImpl<u32> for BigUint {
    open spec fn obeys_rem_assign_spec() -> bool { false }
    open spec fn rem_assign_req(&self, rhs: u32) -> bool { true }
    open spec fn rem_assign_spec(&self, rhs: u32) -> &BigUint { arbitrary() }
}
impl core::ops::RemAssign<u32> for BigUint {
    #[verifier::external_body]
    fn rem_assign(&mut self, rhs: u32) ensures (rhs as int) != 0, (final(self)@ as int) == (old(self)@ as int) % (rhs as int) { unimplemented!() }
}
impl vstd::std_specs::ops::RemSpecImpl<u64> for BigUint {
    open spec fn obeys_rem_spec() -> bool { false }
    open spec fn rem_req(self, rhs: u64) -> bool { true }
    open spec fn rem_spec(self, rhs: u64) -> BigUint { arbitrary() }
}
impl core::ops::Rem<u64> for BigUint {
    type Output = BigUint;
    #[verifier::external_body]
    fn rem(self, rhs: u64) -> (ret: BigUint) ensures (rhs as int) != 0, (ret@ as int) == (self@ as int) % (rhs as int) { unimplemented!() }
}
impl vstd::std_specs::ops::RemSpecImpl<BigUint> for u64 {
    open spec fn obeys_rem_spec() -> bool { false }
    open spec fn rem_req(self, rhs: BigUint) -> bool { true }
    open spec fn rem_spec(self, rhs: BigUint) -> BigUint { arbitrary() }
}
impl core::ops::Rem<BigUint> for u64 {
    type Output = BigUint;
    #[verifier::external_body]
    fn rem(self, rhs: BigUint) -> (ret: BigUint) ensures (rhs@ as int) != 0, (ret@ as int) == (self as int) % (rhs@ as int) { unimplemented!() }
}
impl<'a> vstd::std_specs::ops::RemSpecImpl<u64> for &'a BigUint {
    open spec fn obeys_rem_spec() -> bool { false }
    open spec fn rem_req(self, rhs: u64) -> bool { true }
    open spec fn rem_spec(self, rhs: u64) -> BigUint { arbitrary() }
}
impl<'a> core::ops::Rem<u64> for &'a BigUint {
    type Output = BigUint;
    #[verifier::external_body]
    fn rem(self, rhs: u64) -> (ret: BigUint) ensures (rhs as int) != 0, (ret@ as int) == (self@ as int) % (rhs as int) { unimplemented!() }
}
impl<'b> vstd::std_specs::ops::RemSpecImpl<&'b BigUint> for u64 {
    open spec fn obeys_rem_spec() -> bool { false }
    open spec fn rem_req(self, rhs: &'b BigUint) -> bool { true }
    open spec fn rem_spec(self, rhs: &'b BigUint) -> BigUint { arbitrary() }
}
impl<'b> core::ops::Rem<&'b BigUint> for u64 {
    type Output = BigUint;
    #[verifier::external_body]
    fn rem(self, rhs: &'b BigUint) -> (ret: BigUint) ensures (rhs@ as int) != 0, (ret@ as int) == (self as int) % (rhs@ as int) { unimplemented!() }
}
impl vstd::std_specs::ops::RemAssignSpecImpl<u64> for BigUint {
    open spec fn obeys_rem_assign_spec() -> bool { false }
    open spec fn rem_assign_req(&self, rhs: u64) -> bool { true }
    open spec fn rem_assign_spec(&self, rhs: u64) -> &BigUint { arbitrary() }
}
impl core::ops::RemAssign<u64> for BigUint {
    #[verifier::external_body]
    fn rem_assign(&mut self, rhs: u64) ensures (rhs as int) != 0, (final(self)@ as int) == (old(self)@ as int) % (rhs as int) { unimplemented!() }
}
impl vstd::std_specs::ops::RemSpecImpl<u128> for BigUint {
    open spec fn obeys_rem_spec() -> bool { false }
    open spec fn rem_req(self, rhs: u128) -> bool { true }
    open spec fn rem_spec(self, rhs: u128) -> BigUint { arbitrary() }
}
impl core::ops::Rem<u128> for BigUint {
    type Output = BigUint;
    #[verifier::external_body]
    fn rem(self, rhs: u128) -> (ret: BigUint) ensures (rhs as int) != 0, (ret@ as int) == (self@ as int) % (rhs as int) { unimplemented!() }
}
impl vstd::std_specs::ops::RemSpecImpl<BigUint> for u128 {
    open spec fn obeys_rem_spec() -> bool { false }
    open spec fn rem_req(self, rhs: BigUint) -> bool { true }
    open spec fn rem_spec(self, rhs: BigUint) -> BigUint { arbitrary() }
}
impl core::ops::Rem<BigUint> for u128 {
    type Output = BigUint;
    #[verifier::external_body]
    fn rem(self, rhs: BigUint) -> (ret: BigUint) ensures (rhs@ as int) != 0, (ret@ as int) == (self as int) % (rhs@ as int) { unimplemented!() }
}
impl<'a> vstd::std_specs::ops::RemSpecImpl<u128> for &'a BigUint {
    open spec fn obeys_rem_spec() -> bool { false }
    open spec fn rem_req(self, rhs: u128) -> bool { true }
    open spec fn rem_spec(self, rhs: u128) -> BigUint { arbitrary() }
}
impl<'a> core::ops::Rem<u128> for &'a BigUint {
    type Output = BigUint;
    #[verifier::external_body]
    fn rem(self, rhs: u128) -> (ret: BigUint) ensures (rhs as int) != 0, (ret@ as int) == (self@ as int) % (rhs as int) { unimplemented!() }
}
impl<'b> vstd::std_specs::ops::RemSpecImpl<&'b BigUint> for u128 {
    open spec fn obeys_rem_spec() -> bool { false }
    open spec fn rem_req(self, rhs: &'b BigUint) -> bool { true }
    open spec fn rem_spec(self, rhs: &'b BigUint) -> BigUint { arbitrary() }
}
impl<'b> core::ops::Rem<&'b BigUint> for u128 {
    type Output = BigUint;
    #[verifier::external_body]
    fn rem(self, rhs: &'b BigUint) -> (ret: BigUint) ensures (rhs@ as int) != 0, (ret@ as int) == (self as int) % (rhs@ as int) { unimplemented!() }
}
impl vstd::std_specs::ops::RemAssignSpecImpl<u128> for BigUint {
    open spec fn obeys_rem_assign_spec() -> bool { false }
    open spec fn rem_assign_req(&self, rhs: u128) -> bool { true }
    open spec fn rem_assign_spec(&self, rhs: u128) -> &BigUint { arbitrary() }
}
impl core::ops::RemAssign<u128> for BigUint {
    #[verifier::external_body]
    fn rem_assign(&mut self, rhs: u128) ensures (rhs as int) != 0, (final(self)@ as int) == (old(self)@ as int) % (rhs as int) { unimplemented!() }
}
impl vstd::std_specs::ops::RemSpecImpl<usize> for BigUint {
    open spec fn obeys_rem_spec() -> bool { false }
    open spec fn rem_req(self, rhs: usize) -> bool { true }
    open spec fn rem_spec(self, rhs: usize) -> BigUint { arbitrary() }
}
impl core::ops::Rem<usize> for BigUint {
    type Output = BigUint;
    #[verifier::external_body]
    fn rem(self, rhs: usize) -> (ret: BigUint) ensures (rhs as int) != 0, (ret@ as int) == (self@ as int) % (rhs as int) { unimplemented!() }
}
impl vstd::std_specs::ops::RemSpecImpl<BigUint> for usize {
    open spec fn obeys_rem_spec() -> bool { false }
    open spec fn rem_req(self, rhs: BigUint) -> bool { true }
    open spec fn rem_spec(self, rhs: BigUint) -> BigUint { arbitrary() }
}
impl core::ops::Rem<BigUint> for usize {
    type Output = BigUint;
    #[verifier::external_body]
    fn rem(self, rhs: BigUint) -> (ret: BigUint) ensures (rhs@ as int) != 0, (ret@ as int) == (self as int) % (rhs@ as int) { unimplemented!() }
}
impl<'a> vstd::std_specs::ops::RemSpecImpl<usize> for &'a BigUint {
    open spec fn obeys_rem_spec() -> bool { false }
    open spec fn rem_req(self, rhs: usize) -> bool { true }
    open spec fn rem_spec(self, rhs: usize) -> BigUint { arbitrary() }
}
impl<'a> core::ops::Rem<usize> for &'a BigUint {
    type Output = BigUint;
    #[verifier::external_body]
    fn rem(self, rhs: usize) -> (ret: BigUint) ensures (rhs as int) != 0, (ret@ as int) == (self@ as int) % (rhs as int) { unimplemented!() }
}
impl<'b> vstd::std_specs::ops::RemSpecImpl<&'b BigUint> for usize {
    open spec fn obeys_rem_spec() -> bool { false }
    open spec fn rem_req(self, rhs: &'b BigUint) -> bool { true }
    open spec fn rem_spec(self, rhs: &'b BigUint) -> BigUint { arbitrary() }
}
impl<'b> core::ops::Rem<&'b BigUint> for usize {
    type Output = BigUint;
    #[verifier::external_body]
    fn rem(self, rhs: &'b BigUint) -> (ret: BigUint) ensures (rhs@ as int) != 0, (ret@ as int) == (self as int) % (rhs@ as int) { unimplemented!() }
}
impl vstd::std_specs::ops::RemAssignSpecImpl<usize> for BigUint {
    open spec fn obeys_rem_assign_spec() -> bool { false }
    open spec fn rem_assign_req(&self, rhs: usize) -> bool { true }
    open spec fn rem_assign_spec(&self, rhs: usize) -> &BigUint { arbitrary() }
}
impl core::ops::RemAssign<usize> for BigUint {
    #[verifier::external_body]
    fn rem_assign(&mut self, rhs: usize) ensures (rhs as int) != 0, (final(self)@ as int) == (old(self)@ as int) % (rhs as int) { unimplemented!() }
}
impl vstd::std_specs::convert::FromSpecImpl<u8> for BigInt {
    open spec fn obeys_from_spec() -> bool { false }
    open spec fn from_spec(v: u8) -> Self { arbitrary() }
}
impl core::convert::From<u8> for BigInt {
    #[verifier::external_body]
    fn from(v: u8) -> (ret: BigInt) ensures ret@ == v as int { unimplemented!() }
}
impl vstd::std_specs::convert::FromSpecImpl<u16> for BigInt {
    open spec fn obeys_from_spec() -> bool { false }
    open spec fn from_spec(v: u16) -> Self { arbitrary() }
}
impl core::convert::From<u16> for BigInt {
    #[verifier::external_body]
    fn from(v: u16) -> (ret: BigInt) ensures ret@ == v as int { unimplemented!() }
}
impl vstd::std_specs::convert::FromSpecImpl<u32> for BigInt {
    open spec fn obeys_from_spec() -> bool { false }
    open spec fn from_spec(v: u32) -> Self { arbitrary() }
}
impl core::convert::From<u32> for BigInt {
    #[verifier::external_body]
    fn from(v: u32) -> (ret: BigInt) ensures ret@ == v as int { unimplemented!() }
}
impl vstd::std_specs::convert::FromSpecImpl<u64> for BigInt {
    open spec fn obeys_from_spec() -> bool { false }
    open spec fn from_spec(v: u64) -> Self { arbitrary() }
}
impl core::convert::From<u64> for BigInt {
    #[verifier::external_body]
    fn from(v: u64) -> (ret: BigInt) ensures ret@ == v as int { unimplemented!() }
}
impl vstd::std_specs::convert::FromSpecImpl<u128> for BigInt {
    open spec fn obeys_from_spec() -> bool { false }
    open spec fn from_spec(v: u128) -> Self { arbitrary() }
}
impl core::convert::From<u128> for BigInt {
    #[verifier::external_body]
    fn from(v: u128) -> (ret: BigInt) ensures ret@ == v as int { unimplemented!() }
}
impl vstd::std_specs::convert::FromSpecImpl<usize> for BigInt {
    open spec fn obeys_from_spec() -> bool { false }
    open spec fn from_spec(v: usize) -> Self { arbitrary() }
}
impl core::convert::From<usize> for BigInt {
    #[verifier::external_body]
    fn from(v: usize) -> (ret: BigInt) ensures ret@ == v as int { unimplemented!() }
}
impl vstd::std_specs::convert::FromSpecImpl<i8> for BigInt {
    open spec fn obeys_from_spec() -> bool { false }
    open spec fn from_spec(v: i8) -> Self { arbitrary() }
}
impl core::convert::From<i8> for BigInt {
    #[verifier::external_body]
    fn from(v: i8) -> (ret: BigInt) ensures ret@ == v as int { unimplemented!() }
}
impl vstd::std_specs::convert::FromSpecImpl<i16> for BigInt {
    open spec fn obeys_from_spec() -> bool { false }
    open spec fn from_spec(v: i16) -> Self { arbitrary() }
}
impl core::convert::From<i16> for BigInt {
    #[verifier::external_body]
    fn from(v: i16) -> (ret: BigInt) ensures ret@ == v as int { unimplemented!() }
}
impl vstd::std_specs::convert::FromSpecImpl<i32> for BigInt {
    open spec fn obeys_from_spec() -> bool { false }
    open spec fn from_spec(v: i32) -> Self { arbitrary() }
}
impl core::convert::From<i32> for BigInt {
    #[verifier::external_body]
    fn from(v: i32) -> (ret: BigInt) ensures ret@ == v as int { unimplemented!() }
}
impl vstd::std_specs::convert::FromSpecImpl<i64> for BigInt {
    open spec fn obeys_from_spec() -> bool { false }
    open spec fn from_spec(v: i64) -> Self { arbitrary() }
}
impl core::convert::From<i64> for BigInt {
    #[verifier::external_body]
    fn from(v: i64) -> (ret: BigInt) ensures ret@ == v as int { unimplemented!() }
}
impl vstd::std_specs::convert::FromSpecImpl<i128> for BigInt {
    open spec fn obeys_from_spec() -> bool { false }
    open spec fn from_spec(v: i128) -> Self { arbitrary() }
}
impl core::convert::From<i128> for BigInt {
    #[verifier::external_body]
    fn from(v: i128) -> (ret: BigInt) ensures ret@ == v as int { unimplemented!() }
}
impl vstd::std_specs::convert::FromSpecImpl<isize> for BigInt {
    open spec fn obeys_from_spec() -> bool { false }
    open spec fn from_spec(v: isize) -> Self { arbitrary() }
}
impl core::convert::From<isize> for BigInt {
    #[verifier::external_body]
    fn from(v: isize) -> (ret: BigInt) ensures ret@ == v as int { unimplemented!() }
}
impl vstd::std_specs::convert::FromSpecImpl<u8> for BigUint {
    open spec fn obeys_from_spec() -> bool { false }
    open spec fn from_spec(v: u8) -> Self { arbitrary() }
}
impl core::convert::From<u8> for BigUint {
    #[verifier::external_body]
    fn from(v: u8) -> (ret: BigUint) ensures ret@ == v as int { unimplemented!() }
}
impl vstd::std_specs::convert::FromSpecImpl<u16> for BigUint {
    open spec fn obeys_from_spec() -> bool { false }
    open spec fn from_spec(v: u16) -> Self { arbitrary() }
}
impl core::convert::From<u16> for BigUint {
    #[verifier::external_body]
    fn from(v: u16) -> (ret: BigUint) ensures ret@ == v as int { unimplemented!() }
}
impl vstd::std_specs::convert::FromSpecImpl<u32> for BigUint {
    open spec fn obeys_from_spec() -> bool { false }
    open spec fn from_spec(v: u32) -> Self { arbitrary() }
}
impl core::convert::From<u32> for BigUint {
    #[verifier::external_body]
    fn from(v: u32) -> (ret: BigUint) ensures ret@ == v as int { unimplemented!() }
}
impl vstd::std_specs::convert::FromSpecImpl<u64> for BigUint {
    open spec fn obeys_from_spec() -> bool { false }
    open spec fn from_spec(v: u64) -> Self { arbitrary() }
}
impl core::convert::From<u64> for BigUint {
    #[verifier::external_body]
    fn from(v: u64) -> (ret: BigUint) ensures ret@ == v as int { unimplemented!() }
}
impl vstd::std_specs::convert::FromSpecImpl<u128> for BigUint {
    open spec fn obeys_from_spec() -> bool { false }
    open spec fn from_spec(v: u128) -> Self { arbitrary() }
}
impl core::convert::From<u128> for BigUint {
    #[verifier::external_body]
    fn from(v: u128) -> (ret: BigUint) ensures ret@ == v as int { unimplemented!() }
}
impl vstd::std_specs::convert::FromSpecImpl<usize> for BigUint {
    open spec fn obeys_from_spec() -> bool { false }
    open spec fn from_spec(v: usize) -> Self { arbitrary() }
}
impl core::convert::From<usize> for BigUint {
    #[verifier::external_body]
    fn from(v: usize) -> (ret: BigUint) ensures ret@ == v as int { unimplemented!() }
}
impl Zero for u8 {
    open spec fn is_zero_spec(&self) -> bool { *self == 0 }
    #[verifier::external_body] fn zero() -> (ret: Self) { unimplemented!() }
    #[verifier::external_body] fn is_zero(&self) -> (ret: bool) { unimplemented!() }
}
impl One for u8 {
    open spec fn is_one_spec(&self) -> bool { *self == 1 }
    #[verifier::external_body] fn one() -> (ret: Self) { unimplemented!() }
    #[verifier::external_body] fn is_one(&self) -> (ret: bool) { unimplemented!() }
}
impl PrimInt for u8 {
    open spec fn pv(&self) -> int { *self as int }
}
impl<'a> PrimInt for &'a u8 {
    open spec fn pv(&self) -> int { **self as int }
}
impl ToPrimitive for u8 {
    open spec fn tp_val(&self) -> int { *self as int }
    #[verifier::external_body] fn to_i64(&self) -> (ret: Option<i64>) { unimplemented!() }
    #[verifier::external_body] fn to_u64(&self) -> (ret: Option<u64>) { unimplemented!() }
    #[verifier::external_body] fn to_i128(&self) -> (ret: Option<i128>) { unimplemented!() }
    #[verifier::external_body] fn to_u128(&self) -> (ret: Option<u128>) { unimplemented!() }
    #[verifier::external_body] fn to_usize(&self) -> (ret: Option<usize>) { unimplemented!() }
    #[verifier::external_body] fn to_i32(&self) -> (ret: Option<i32>) { unimplemented!() }
    #[verifier::external_body] fn to_u8(&self) -> (ret: Option<u8>) { unimplemented!() }
}
impl Zero for u16 {
    open spec fn is_zero_spec(&self) -> bool { *self == 0 }
    #[verifier::external_body] fn zero() -> (ret: Self) { unimplemented!() }
    #[verifier::external_body] fn is_zero(&self) -> (ret: bool) { unimplemented!() }
}
impl One for u16 {
    open spec fn is_one_spec(&self) -> bool { *self == 1 }
    #[verifier::external_body] fn one() -> (ret: Self) { unimplemented!() }
    #[verifier::external_body] fn is_one(&self) -> (ret: bool) { unimplemented!() }
}
impl PrimInt for u16 {
    open spec fn pv(&self) -> int { *self as int }
}
impl<'a> PrimInt for &'a u16 {
    open spec fn pv(&self) -> int { **self as int }
}
impl ToPrimitive for u16 {
    open spec fn tp_val(&self) -> int { *self as int }
    #[verifier::external_body] fn to_i64(&self) -> (ret: Option<i64>) { unimplemented!() }
    #[verifier::external_body] fn to_u64(&self) -> (ret: Option<u64>) { unimplemented!() }
    #[verifier::external_body] fn to_i128(&self) -> (ret: Option<i128>) { unimplemented!() }
    #[verifier::external_body] fn to_u128(&self) -> (ret: Option<u128>) { unimplemented!() }
    #[verifier::external_body] fn to_usize(&self) -> (ret: Option<usize>) { unimplemented!() }
    #[verifier::external_body] fn to_i32(&self) -> (ret: Option<i32>) { unimplemented!() }
    #[verifier::external_body] fn to_u8(&self) -> (ret: Option<u8>) { unimplemented!() }
}
impl Zero for u32 {
    open spec fn is_zero_spec(&self) -> bool { *self == 0 }
    #[verifier::external_body] fn zero() -> (ret: Self) { unimplemented!() }
    #[verifier::external_body] fn is_zero(&self) -> (ret: bool) { unimplemented!() }
}
impl One for u32 {
    open spec fn is_one_spec(&self) -> bool { *self == 1 }
    #[verifier::external_body] fn one() -> (ret: Self) { unimplemented!() }
    #[verifier::external_body] fn is_one(&self) -> (ret: bool) { unimplemented!() }
}
impl PrimInt for u32 {
    open spec fn pv(&self) -> int { *self as int }
}
impl<'a> PrimInt for &'a u32 {
    open spec fn pv(&self) -> int { **self as int }
}
impl ToPrimitive for u32 {
    open spec fn tp_val(&self) -> int { *self as int }
    #[verifier::external_body] fn to_i64(&self) -> (ret: Option<i64>) { unimplemented!() }
    #[verifier::external_body] fn to_u64(&self) -> (ret: Option<u64>) { unimplemented!() }
    #[verifier::external_body] fn to_i128(&self) -> (ret: Option<i128>) { unimplemented!() }
    #[verifier::external_body] fn to_u128(&self) -> (ret: Option<u128>) { unimplemented!() }
    #[verifier::external_body] fn to_usize(&self) -> (ret: Option<usize>) { unimplemented!() }
    #[verifier::external_body] fn to_i32(&self) -> (ret: Option<i32>) { unimplemented!() }
    #[verifier::external_body] fn to_u8(&self) -> (ret: Option<u8>) { unimplemented!() }
}
impl Zero for u64 {
    open spec fn is_zero_spec(&self) -> bool { *self == 0 }
    #[verifier::external_body] fn zero() -> (ret: Self) { unimplemented!() }
    #[verifier::external_body] fn is_zero(&self) -> (ret: bool) { unimplemented!() }
}
impl One for u64 {
    open spec fn is_one_spec(&self) -> bool { *self == 1 }
    #[verifier::external_body] fn one() -> (ret: Self) { unimplemented!() }
    #[verifier::external_body] fn is_one(&self) -> (ret: bool) { unimplemented!() }
}
impl PrimInt for u64 {
    open spec fn pv(&self) -> int { *self as int }
}
impl<'a> PrimInt for &'a u64 {
    open spec fn pv(&self) -> int { **self as int }
}
impl ToPrimitive for u64 {
    open spec fn tp_val(&self) -> int { *self as int }
    #[verifier::external_body] fn to_i64(&self) -> (ret: Option<i64>) { unimplemented!() }
    #[verifier::external_body] fn to_u64(&self) -> (ret: Option<u64>) { unimplemented!() }
    #[verifier::external_body] fn to_i128(&self) -> (ret: Option<i128>) { unimplemented!() }
    #[verifier::external_body] fn to_u128(&self) -> (ret: Option<u128>) { unimplemented!() }
    #[verifier::external_body] fn to_usize(&self) -> (ret: Option<usize>) { unimplemented!() }
    #[verifier::external_body] fn to_i32(&self) -> (ret: Option<i32>) { unimplemented!() }
    #[verifier::external_body] fn to_u8(&self) -> (ret: Option<u8>) { unimplemented!() }
}
impl Zero for u128 {
    open spec fn is_zero_spec(&self) -> bool { *self == 0 }
    #[verifier::external_body] fn zero() -> (ret: Self) { unimplemented!() }
    #[verifier::external_body] fn is_zero(&self) -> (ret: bool) { unimplemented!() }
}
impl One for u128 {
    open spec fn is_one_spec(&self) -> bool { *self == 1 }
    #[verifier::external_body] fn one() -> (ret: Self) { unimplemented!() }
    #[verifier::external_body] fn is_one(&self) -> (ret: bool) { unimplemented!() }
}
impl PrimInt for u128 {
    open spec fn pv(&self) -> int { *self as int }
}
impl<'a> PrimInt for &'a u128 {
    open spec fn pv(&self) -> int { **self as int }
}
impl ToPrimitive for u128 {
    open spec fn tp_val(&self) -> int { *self as int }
    #[verifier::external_body] fn to_i64(&self) -> (ret: Option<i64>) { unimplemented!() }
    #[verifier::external_body] fn to_u64(&self) -> (ret: Option<u64>) { unimplemented!() }
    #[verifier::external_body] fn to_i128(&self) -> (ret: Option<i128>) { unimplemented!() }
    #[verifier::external_body] fn to_u128(&self) -> (ret: Option<u128>) { unimplemented!() }
    #[verifier::external_body] fn to_usize(&self) -> (ret: Option<usize>) { unimplemented!() }
    #[verifier::external_body] fn to_i32(&self) -> (ret: Option<i32>) { unimplemented!() }
    #[verifier::external_body] fn to_u8(&self) -> (ret: Option<u8>) { unimplemented!() }
}
impl Zero for usize {
    open spec fn is_zero_spec(&self) -> bool { *self == 0 }
    #[verifier::external_body] fn zero() -> (ret: Self) { unimplemented!() }
    #[verifier::external_body] fn is_zero(&self) -> (ret: bool) { unimplemented!() }
}
impl One for usize {
    open spec fn is_one_spec(&self) -> bool { *self == 1 }
    #[verifier::external_body] fn one() -> (ret: Self) { unimplemented!() }
    #[verifier::external_body] fn is_one(&self) -> (ret: bool) { unimplemented!() }
}
impl PrimInt for usize {
    open spec fn pv(&self) -> int { *self as int }
}
impl<'a> PrimInt for &'a usize {
    open spec fn pv(&self) -> int { **self as int }
}
impl ToPrimitive for usize {
    open spec fn tp_val(&self) -> int { *self as int }
    #[verifier::external_body] fn to_i64(&self) -> (ret: Option<i64>) { unimplemented!() }
    #[verifier::external_body] fn to_u64(&self) -> (ret: Option<u64>) { unimplemented!() }
    #[verifier::external_body] fn to_i128(&self) -> (ret: Option<i128>) { unimplemented!() }
    #[verifier::external_body] fn to_u128(&self) -> (ret: Option<u128>) { unimplemented!() }
    #[verifier::external_body] fn to_usize(&self) -> (ret: Option<usize>) { unimplemented!() }
    #[verifier::external_body] fn to_i32(&self) -> (ret: Option<i32>) { unimplemented!() }
    #[verifier::external_body] fn to_u8(&self) -> (ret: Option<u8>) { unimplemented!() }
}
impl Zero for i8 {
    open spec fn is_zero_spec(&self) -> bool { *self == 0 }
    #[verifier::external_body] fn zero() -> (ret: Self) { unimplemented!() }
    #[verifier::external_body] fn is_zero(&self) -> (ret: bool) { unimplemented!() }
}
impl One for i8 {
    open spec fn is_one_spec(&self) -> bool { *self == 1 }
    #[verifier::external_body] fn one() -> (ret: Self) { unimplemented!() }
    #[verifier::external_body] fn is_one(&self) -> (ret: bool) { unimplemented!() }
}
impl PrimInt for i8 {
    open spec fn pv(&self) -> int { *self as int }
}
impl<'a> PrimInt for &'a i8 {
    open spec fn pv(&self) -> int { **self as int }
}
impl ToPrimitive for i8 {
    open spec fn tp_val(&self) -> int { *self as int }
    #[verifier::external_body] fn to_i64(&self) -> (ret: Option<i64>) { unimplemented!() }
    #[verifier::external_body] fn to_u64(&self) -> (ret: Option<u64>) { unimplemented!() }
    #[verifier::external_body] fn to_i128(&self) -> (ret: Option<i128>) { unimplemented!() }
    #[verifier::external_body] fn to_u128(&self) -> (ret: Option<u128>) { unimplemented!() }
    #[verifier::external_body] fn to_usize(&self) -> (ret: Option<usize>) { unimplemented!() }
    #[verifier::external_body] fn to_i32(&self) -> (ret: Option<i32>) { unimplemented!() }
    #[verifier::external_body] fn to_u8(&self) -> (ret: Option<u8>) { unimplemented!() }
}
impl Zero for i16 {
    open spec fn is_zero_spec(&self) -> bool { *self == 0 }
    #[verifier::external_body] fn zero() -> (ret: Self) { unimplemented!() }
    #[verifier::external_body] fn is_zero(&self) -> (ret: bool) { unimplemented!() }
}
impl One for i16 {
    open spec fn is_one_spec(&self) -> bool { *self == 1 }
    #[verifier::external_body] fn one() -> (ret: Self) { unimplemented!() }
    #[verifier::external_body] fn is_one(&self) -> (ret: bool) { unimplemented!() }
}
impl PrimInt for i16 {
    open spec fn pv(&self) -> int { *self as int }
}
impl<'a> PrimInt for &'a i16 {
    open spec fn pv(&self) -> int { **self as int }
}
impl ToPrimitive for i16 {
    open spec fn tp_val(&self) -> int { *self as int }
    #[verifier::external_body] fn to_i64(&self) -> (ret: Option<i64>) { unimplemented!() }
    #[verifier::external_body] fn to_u64(&self) -> (ret: Option<u64>) { unimplemented!() }
    #[verifier::external_body] fn to_i128(&self) -> (ret: Option<i128>) { unimplemented!() }
    #[verifier::external_body] fn to_u128(&self) -> (ret: Option<u128>) { unimplemented!() }
    #[verifier::external_body] fn to_usize(&self) -> (ret: Option<usize>) { unimplemented!() }
    #[verifier::external_body] fn to_i32(&self) -> (ret: Option<i32>) { unimplemented!() }
    #[verifier::external_body] fn to_u8(&self) -> (ret: Option<u8>) { unimplemented!() }
}
impl Zero for i32 {
    open spec fn is_zero_spec(&self) -> bool { *self == 0 }
    #[verifier::external_body] fn zero() -> (ret: Self) { unimplemented!() }
    #[verifier::external_body] fn is_zero(&self) -> (ret: bool) { unimplemented!() }
}
impl One for i32 {
    open spec fn is_one_spec(&self) -> bool { *self == 1 }
    #[verifier::external_body] fn one() -> (ret: Self) { unimplemented!() }
    #[verifier::external_body] fn is_one(&self) -> (ret: bool) { unimplemented!() }
}
impl PrimInt for i32 {
    open spec fn pv(&self) -> int { *self as int }
}
impl<'a> PrimInt for &'a i32 {
    open spec fn pv(&self) -> int { **self as int }
}
impl ToPrimitive for i32 {
    open spec fn tp_val(&self) -> int { *self as int }
    #[verifier::external_body] fn to_i64(&self) -> (ret: Option<i64>) { unimplemented!() }
    #[verifier::external_body] fn to_u64(&self) -> (ret: Option<u64>) { unimplemented!() }
    #[verifier::external_body] fn to_i128(&self) -> (ret: Option<i128>) { unimplemented!() }
    #[verifier::external_body] fn to_u128(&self) -> (ret: Option<u128>) { unimplemented!() }
    #[verifier::external_body] fn to_usize(&self) -> (ret: Option<usize>) { unimplemented!() }
    #[verifier::external_body] fn to_i32(&self) -> (ret: Option<i32>) { unimplemented!() }
    #[verifier::external_body] fn to_u8(&self) -> (ret: Option<u8>) { unimplemented!() }
}
impl Zero for i64 {
    open spec fn is_zero_spec(&self) -> bool { *self == 0 }
    #[verifier::external_body] fn zero() -> (ret: Self) { unimplemented!() }
    #[verifier::external_body] fn is_zero(&self) -> (ret: bool) { unimplemented!() }
}
impl One for i64 {
    open spec fn is_one_spec(&self) -> bool { *self == 1 }
    #[verifier::external_body] fn one() -> (ret: Self) { unimplemented!() }
    #[verifier::external_body] fn is_one(&self) -> (ret: bool) { unimplemented!() }
}
impl PrimInt for i64 {
    open spec fn pv(&self) -> int { *self as int }
}
impl<'a> PrimInt for &'a i64 {
    open spec fn pv(&self) -> int { **self as int }
}
impl ToPrimitive for i64 {
    open spec fn tp_val(&self) -> int { *self as int }
    #[verifier::external_body] fn to_i64(&self) -> (ret: Option<i64>) { unimplemented!() }
    #[verifier::external_body] fn to_u64(&self) -> (ret: Option<u64>) { unimplemented!() }
    #[verifier::external_body] fn to_i128(&self) -> (ret: Option<i128>) { unimplemented!() }
    #[verifier::external_body] fn to_u128(&self) -> (ret: Option<u128>) { unimplemented!() }
    #[verifier::external_body] fn to_usize(&self) -> (ret: Option<usize>) { unimplemented!() }
    #[verifier::external_body] fn to_i32(&self) -> (ret: Option<i32>) { unimplemented!() }
    #[verifier::external_body] fn to_u8(&self) -> (ret: Option<u8>) { unimplemented!() }
}
impl Zero for i128 {
    open spec fn is_zero_spec(&self) -> bool { *self == 0 }
    #[verifier::external_body] fn zero() -> (ret: Self) { unimplemented!() }
    #[verifier::external_body] fn is_zero(&self) -> (ret: bool) { unimplemented!() }
}
impl One for i128 {
    open spec fn is_one_spec(&self) -> bool { *self == 1 }
    #[verifier::external_body] fn one() -> (ret: Self) { unimplemented!() }
    #[verifier::external_body] fn is_one(&self) -> (ret: bool) { unimplemented!() }
}
impl PrimInt for i128 {
    open spec fn pv(&self) -> int { *self as int }
}
impl<'a> PrimInt for &'a i128 {
    open spec fn pv(&self) -> int { **self as int }
}
impl ToPrimitive for i128 {
    open spec fn tp_val(&self) -> int { *self as int }
    #[verifier::external_body] fn to_i64(&self) -> (ret: Option<i64>) { unimplemented!() }
    #[verifier::external_body] fn to_u64(&self) -> (ret: Option<u64>) { unimplemented!() }
    #[verifier::external_body] fn to_i128(&self) -> (ret: Option<i128>) { unimplemented!() }
    #[verifier::external_body] fn to_u128(&self) -> (ret: Option<u128>) { unimplemented!() }
    #[verifier::external_body] fn to_usize(&self) -> (ret: Option<usize>) { unimplemented!() }
    #[verifier::external_body] fn to_i32(&self) -> (ret: Option<i32>) { unimplemented!() }
    #[verifier::external_body] fn to_u8(&self) -> (ret: Option<u8>) { unimplemented!() }
}
impl Zero for isize {
    open spec fn is_zero_spec(&self) -> bool { *self == 0 }
    #[verifier::external_body] fn zero() -> (ret: Self) { unimplemented!() }
    #[verifier::external_body] fn is_zero(&self) -> (ret: bool) { unimplemented!() }
}
impl One for isize {
    open spec fn is_one_spec(&self) -> bool { *self == 1 }
    #[verifier::external_body] fn one() -> (ret: Self) { unimplemented!() }
    #[verifier::external_body] fn is_one(&self) -> (ret: bool) { unimplemented!() }
}
impl PrimInt for isize {
    open spec fn pv(&self) -> int { *self as int }
}
impl<'a> PrimInt for &'a isize {
    open spec fn pv(&self) -> int { **self as int }
}
impl ToPrimitive for isize {
    open spec fn tp_val(&self) -> int { *self as int }
    #[verifier::external_body] fn to_i64(&self) -> (ret: Option<i64>) { unimplemented!() }
    #[verifier::external_body] fn to_u64(&self) -> (ret: Option<u64>) { unimplemented!() }
    #[verifier::external_body] fn to_i128(&self) -> (ret: Option<i128>) { unimplemented!() }
    #[verifier::external_body] fn to_u128(&self) -> (ret: Option<u128>) { unimplemented!() }
    #[verifier::external_body] fn to_usize(&self) -> (ret: Option<usize>) { unimplemented!() }
    #[verifier::external_body] fn to_i32(&self) -> (ret: Option<i32>) { unimplemented!() }
    #[verifier::external_body] fn to_u8(&self) -> (ret: Option<u8>) { unimplemented!() }
}


} // mod shim
} // verus!
fn main(){}
