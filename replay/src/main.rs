//! Replays concrete inputs against the real crate (/repo as a path dependency) with integer oracles.
//! usage: replay <scenario> [args...]   -> prints "HOLDS ..." (exit 0) or "FAILS ..." (exit 1)
use bigdecimal::{BigDecimal, RoundingMode, Context};
use num_bigint::BigInt;
use std::str::FromStr;

fn dec(s: &str) -> BigDecimal { BigDecimal::from_str(s).expect("parse") }

fn pow10(k: u32) -> BigInt { BigInt::from(10).pow(k) }

/// (i, s) rounded to p significant digits, ties away from zero (oracle for with_prec)
fn oracle_with_prec(x: &BigDecimal, p: u64) -> (BigInt, i64) {
    let (i, s) = x.as_bigint_and_exponent();
    let neg = i < BigInt::from(0);
    let n = if neg { -i.clone() } else { i.clone() };
    let d = n.to_string().len() as u64;
    if d <= p {
        return (i * pow10((p - d) as u32), s + (p - d) as i64);
    }
    let k = (d - p) as u32;
    let q = &n / pow10(k);
    let r = &n % pow10(k);
    let q = if BigInt::from(2) * r >= pow10(k) { q + 1 } else { q };
    (if neg { -q } else { q }, s - k as i64)
}

fn main() {
    let args: Vec<String> = std::env::args().collect();
    let sc = args.get(1).map(|s| s.as_str()).unwrap_or("");
    let ok = match sc {
        // C07: with_prec treats a value and its negation symmetrically (ties away from zero)
        "with_prec" => {
            let x = dec(&args[2]);
            let p: u64 = args[3].parse().unwrap();
            let got = x.with_prec(p).as_bigint_and_exponent();
            let want = oracle_with_prec(&x, p);
            println!("with_prec({}, {}) = {:?}, oracle {:?}", x, p, got, want);
            got == want
        }
        // C08: x /= 0 for a primitive integer must panic
        "div_assign_zero" => {
            let r = std::panic::catch_unwind(|| {
                let mut x = dec(&args[2]);
                x /= 0i32;
                x
            });
            match r {
                Ok(v) => { println!("x /= 0 returned {} instead of panicking", v); false }
                Err(_) => { println!("x /= 0 panicked"); true }
            }
        }
        // C02: == and cmp agree and neither panics
        "eq_cmp" => {
            let a = dec(&args[2]);
            let b = dec(&args[3]);
            let r = std::panic::catch_unwind(|| (a == b, a.cmp(&b)));
            match r {
                Ok((e, c)) => { println!("eq={} cmp={:?}", e, c); e == (c == std::cmp::Ordering::Equal) }
                Err(_) => { println!("comparison panicked"); false }
            }
        }
        // C05: parse must reject
        "parse_rejects" => {
            let r = BigDecimal::from_str(&args[2]);
            println!("parse({:?}) = {:?}", &args[2], r);
            r.is_err()
        }
        _ => { eprintln!("unknown scenario"); std::process::exit(2) }
    };
    let _ = (RoundingMode::Up, Context::default());
    if ok { println!("HOLDS"); } else { println!("FAILS"); std::process::exit(1); }
}
