//! Replays concrete inputs against the real crate (/repo as a path dependency) with integer oracles.
//! usage: replay <scenario> [args...]   -> prints "HOLDS ..." (exit 0) or "FAILS ..." (exit 1)
use bigdecimal::{BigDecimal, RoundingMode, Context};
use num_bigint::BigInt;
use std::str::FromStr;

fn dec(s: &str) -> BigDecimal { BigDecimal::from_str(s).expect("parse") }

fn pow10(k: u32) -> BigInt { BigInt::from(10).pow(k) }

/// (i, s) rounded to p significant digits, ties away from zero (oracle for with_prec)
fn oracle_with_prec(x: &BigDecimal, p: u64) -> (BigInt, i64) {
    let (i, s) = x.as_bigint_and_exponent();
    let neg = i < BigInt::from(0);
    let n = if neg { -i.clone() } else { i.clone() };
    let d = n.to_string().len() as u64;
    if d <= p {
        return (i * pow10((p - d) as u32), s + (p - d) as i64);
    }
    let k = (d - p) as u32;
    let q = &n / pow10(k);
    let r = &n % pow10(k);
    let q = if BigInt::from(2) * r >= pow10(k) { q + 1 } else { q };
    (if neg { -q } else { q }, s - k as i64)
}

fn mode_of(s: &str) -> RoundingMode {
    match s { "Up" => RoundingMode::Up, "Down" => RoundingMode::Down, "Ceiling" => RoundingMode::Ceiling, "Floor" => RoundingMode::Floor,
              "HalfUp" => RoundingMode::HalfUp, "HalfDown" => RoundingMode::HalfDown, "HalfEven" => RoundingMode::HalfEven, _ => panic!("mode") }
}
fn ctx_of(p: &str, m: &str) -> Context {
    Context::new(std::num::NonZeroU64::new(p.parse().unwrap()).unwrap(), mode_of(m))
}
fn ndigits(n: &BigInt) -> u64 { let s = n.to_string(); s.trim_start_matches('-').len() as u64 }
/// compare a*10^ea with b*10^eb
fn cmp_scaled(a: &BigInt, ea: i64, b: &BigInt, eb: i64) -> std::cmp::Ordering {
    let m = ea.min(eb);
    (a * pow10((ea - m) as u32)).cmp(&(b * pow10((eb - m) as u32)))
}
/// is r (positive, p digits) the k-th root of x (positive) correctly rounded under `mode` (as seen from the positive side)?
/// integers only: compares ri^k (or (2ri+-1)^k) with n at matching powers of ten
fn root_ok(k: u32, x: &BigDecimal, r: &BigDecimal, p: u64, mode: RoundingMode, report: &mut String) -> bool {
    use std::cmp::Ordering::*;
    let (n, s) = x.as_bigint_and_exponent();
    let (ri, rs) = r.as_bigint_and_exponent();
    if ri <= BigInt::from(0) { report.push_str("non-positive root; "); return false; }
    // r^k = ri^k * 10^(-k rs)  vs  x = n * 10^(-s)
    let c = |q: &BigInt| cmp_scaled(&q.pow(k), -(k as i64) * rs, &n, -s);
    let exact = c(&ri) == Equal;
    if exact { return true; }
    if ndigits(&ri) != p { report.push_str(&format!("inexact root with {} digits instead of {}; ", ndigits(&ri), p)); return false; }
    let two = BigInt::from(2);
    let c2 = |q: &BigInt| cmp_scaled(&q.pow(k), -(k as i64) * rs, &(&n * two.pow(k)), -s);   // (q/2)^k vs x
    let ok = match mode {
        RoundingMode::Down | RoundingMode::Floor => c(&ri) == Less && c(&(&ri + 1)) == Greater,
        RoundingMode::Up | RoundingMode::Ceiling => c(&(&ri - 1)) == Less && c(&ri) == Greater,
        _ => c2(&(&ri * 2 - 1)) != Greater && c2(&(&ri * 2 + 1)) != Less,
    };
    if !ok { report.push_str("not the neighbour the mode prescribes; "); }
    ok
}
fn mirror(m: RoundingMode) -> RoundingMode { match m { RoundingMode::Floor => RoundingMode::Ceiling, RoundingMode::Ceiling => RoundingMode::Floor, o => o } }

/// reference recogniser of the numeral grammar in the property statement; Some(scale) when accepted
fn grammar_accepts(b: &[u8]) -> Option<i128> {
    let n = b.len();
    let epos = b.iter().position(|&c| c == b'e' || c == b'E').unwrap_or(n);
    let mut exp: i128 = 0;
    if epos < n {
        let e = &b[epos + 1..];
        let (neg, d) = match e.first() { Some(b'+') => (false, &e[1..]), Some(b'-') => (true, &e[1..]), _ => (false, e) };
        if d.is_empty() || !d.iter().all(|c| c.is_ascii_digit()) { return None; }
        for c in d { exp = exp.checked_mul(10)?.checked_add((c - b'0') as i128)?; }
        if neg { exp = -exp; }
    }
    let base = &b[..epos];
    let body = match base.first() { Some(b'+') | Some(b'-') => &base[1..], _ => base };
    let mut seen_dot = false; let mut first = true; let mut any = false; let mut frac: i128 = 0;
    for &c in body {
        if c == b'.' { if seen_dot { return None; } seen_dot = true; }
        else if c.is_ascii_digit() || (c == b'_' && !first) { if seen_dot && c != b'_' { frac += 1; } first = false; any = true; }
        else { return None; }
    }
    if !any { return None; }
    let scale = frac - exp;
    if scale < i64::MIN as i128 || scale > i64::MAX as i128 { return None; }
    Some(scale)
}

fn main() {
    let args: Vec<String> = std::env::args().collect();
    let sc = args.get(1).map(|s| s.as_str()).unwrap_or("");
    let ok = match sc {
        // C07: with_prec treats a value and its negation symmetrically (ties away from zero)
        "with_prec" => {
            let x = dec(&args[2]);
            let p: u64 = args[3].parse().unwrap();
            let got = x.with_prec(p).as_bigint_and_exponent();
            let want = oracle_with_prec(&x, p);
            println!("with_prec({}, {}) = {:?}, oracle {:?}", x, p, got, want);
            got == want
        }
        // C08: x /= 0 for a primitive integer must panic
        // C08: 1 / 0 (primitive one over a zero decimal) must panic like every other zero-divisor form
        "one_div_zero" => {
            let r = std::panic::catch_unwind(|| {
                let z = BigDecimal::from(0);
                let zs: BigDecimal = "0.000".parse().unwrap();
                (1u8 / z.clone(), 1i64 / &z, 1u128 / zs, 7i32 / z.clone())
            });
            match &r {
                Ok(v) => println!("1u8 / 0 = {}, 1i64 / &0 = {}, 1u128 / 0.000 = {} (no panic)", v.0, v.1, v.2),
                Err(_) => println!("panicked"),
            }
            // every component must panic on its own
            let a = std::panic::catch_unwind(|| 1u8 / BigDecimal::from(0)).is_err();
            let b = std::panic::catch_unwind(|| 1i64 / &BigDecimal::from(0)).is_err();
            let c = std::panic::catch_unwind(|| 1u128 / "0.000".parse::<BigDecimal>().unwrap()).is_err();
            let d = std::panic::catch_unwind(|| 7i32 / BigDecimal::from(0)).is_err();
            println!("panics: 1u8/0 {}  1i64/&0 {}  1u128/0.000 {}  7i32/0 {}", a, b, c, d);
            a && b && c && d
        }
        "div_assign_zero" => {
            let r = std::panic::catch_unwind(|| {
                let mut x = dec(&args[2]);
                x /= 0i32;
                x
            });
            match r {
                Ok(v) => { println!("x /= 0 returned {} instead of panicking", v); false }
                Err(_) => { println!("x /= 0 panicked"); true }
            }
        }
        // C02: == and cmp agree and neither panics
        "eq_cmp" => {
            let a = dec(&args[2]);
            let b = dec(&args[3]);
            let r = std::panic::catch_unwind(|| (a == b, a.cmp(&b)));
            match r {
                Ok((e, c)) => { println!("eq={} cmp={:?}", e, c); e == (c == std::cmp::Ordering::Equal) }
                Err(_) => { println!("comparison panicked"); false }
            }
        }
        // C05: parse must reject
        "parse_rejects" => {
            let r = BigDecimal::from_str(&args[2]);
            println!("parse({:?}) = {:?}", &args[2], r);
            r.is_err()
        }
        // C10: sqrt under an explicit context:  sqrt_ctx <x> <p> <mode>   /  default context: sqrt <x>
        "sqrt_ctx" | "sqrt" => {
            let x = dec(&args[2]);
            let (p, m) = if sc == "sqrt" { (100u64, RoundingMode::HalfEven) } else { (args[3].parse().unwrap(), mode_of(&args[4])) };
            let r = if sc == "sqrt" { x.sqrt() } else { x.sqrt_with_context(&ctx_of(&args[3], &args[4])) }.expect("non-negative");
            let mut rep = String::new();
            let ok = root_ok(2, &x, &r, p, m, &mut rep);
            println!("sqrt({}) @({},{:?}) = {}  {}", x, p, m, r, rep);
            ok
        }
        // C11: cbrt_ctx <x> <p> <mode>
        "cbrt_ctx" => {
            let x = dec(&args[2]);
            let p: u64 = args[3].parse().unwrap();
            let m = mode_of(&args[4]);
            let r = x.cbrt_with_context(&ctx_of(&args[3], &args[4]));
            let neg = x.sign() == num_bigint::Sign::Minus;
            let mut rep = String::new();
            let ok = if neg { root_ok(3, &(-x.clone()), &(-r.clone()), p, mirror(m), &mut rep) } else { root_ok(3, &x, &r, p, m, &mut rep) };
            println!("cbrt({}) @({},{:?}) = {}  {}", x, p, m, r, rep);
            ok
        }
        // C12: inverse_ctx <x> <p> <mode>: sign of x, |r - 1/x| < 1 unit in the p-th digit, exact when 1/x terminates within p digits
        "inverse_ctx" => {
            let x = dec(&args[2]);
            let p: u64 = args[3].parse().unwrap();
            let r = x.inverse_with_context(&ctx_of(&args[3], &args[4]));
            let (n, s) = x.abs().as_bigint_and_exponent();
            let (ri, rs) = r.abs().as_bigint_and_exponent();
            let mut ok = r.sign() == x.sign() && ndigits(&ri) <= p;
            // |ri*n*10^-(rs+s) - 1| < n*10^-(rs+s)   <=>   |ri*n - 10^(rs+s)| < n   (scaled to integers)
            let e = rs + s;
            let (lhs, one) = if e >= 0 { (&ri * &n, pow10(e as u32)) } else { (&ri * &n * pow10((-e) as u32), BigInt::from(1)) };
            let bound = if e >= 0 { n.clone() } else { &n * pow10((-e) as u32) };
            let diff = if lhs >= one { &lhs - &one } else { &one - &lhs };
            if diff >= bound { ok = false; }
            // exact reciprocal representable at this scale must be returned exactly
            if e >= 0 && (&one % &n) == BigInt::from(0) && lhs != one { ok = false; }
            println!("inverse({}) @({},{}) = {}  |ri*n - 10^e| = {}", x, p, args[4], r, diff);
            ok
        }
        // C12: inverse(-x) under Floor == -inverse(x) under Ceiling
        "inverse_mirror" => {
            let x = dec(&args[2]);
            let a = (-x.clone()).inverse_with_context(&ctx_of(&args[3], "Floor"));
            let b = -x.inverse_with_context(&ctx_of(&args[3], "Ceiling"));
            println!("inverse(-x)|Floor = {}   -inverse(x)|Ceiling = {}", a, b);
            a == b
        }
        // C05: exhaustive native sweep of all strings up to <maxlen> over the alphabet {0,1,7,+,-,.,e,E,_,x,space,U+00BD}
        // against a reference recogniser of the numeral grammar (used to turn a failed Kani acceptance check into a
        // concrete failing input); prints the mismatching strings
        "parse_sweep" => {
            let maxlen: usize = args[2].parse().unwrap();
            let alpha = ['0', '1', '7', '+', '-', '.', 'e', 'E', '_', 'x', ' ', '\u{bd}'];
            let mut bad: Vec<String> = vec![];
            let mut count = 0u64;
            let mut idx = vec![0usize; maxlen];
            for len in 0..=maxlen {
                for v in idx.iter_mut() { *v = 0; }
                loop {
                    let s: String = idx[..len].iter().map(|&i| alpha[i]).collect();
                    count += 1;
                    let got = std::panic::catch_unwind(|| BigDecimal::from_str(&s));
                    let want = grammar_accepts(s.as_bytes());
                    match got {
                        Ok(r) => {
                            if r.is_ok() != want.is_some() { bad.push(format!("{:?} accepted={} grammar={}", s, r.is_ok(), want.is_some())); }
                            else if let (Ok(v), Some(scale)) = (r, want) {
                                if v.as_bigint_and_exponent().1 as i128 != scale { bad.push(format!("{:?} scale {} expected {}", s, v.as_bigint_and_exponent().1, scale)); }
                            }
                        }
                        Err(_) => bad.push(format!("{:?} PANIC", s)),
                    }
                    // next
                    let mut k = 0;
                    while k < len { idx[k] += 1; if idx[k] < alpha.len() { break; } idx[k] = 0; k += 1; }
                    if k == len { break; }
                }
            }
            println!("{} strings, {} mismatches: {:?}", count, bad.len(), &bad[..bad.len().min(12)]);
            if args.len() > 3 {
                // listed (known) mismatching strings are tolerated: report only others
                let known: Vec<&str> = args[3].split('|').collect();
                bad.retain(|b| !known.iter().any(|k| b.starts_with(&format!("{:?}", k))));
            }
            bad.is_empty()
        }
        _ => { eprintln!("unknown scenario"); std::process::exit(2) }
    };
    let _ = (RoundingMode::Up, Context::default());
    if ok { println!("HOLDS"); } else { println!("FAILS"); std::process::exit(1); }
}
