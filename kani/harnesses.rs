// Kani harnesses, appended (as `mod verif_kani`) to a scratch copy of /repo/src/lib.rs on every run.
// Leaf harnesses are loop-free over full machine-integer domains => complete proofs of the contracts that the
// Verus side assumes for these functions.  `parse_small*` is a BOUNDED stand-in (all byte strings up to a length).
#[cfg(kani)]
mod verif_kani {
    use super::*;
    use num_bigint::{BigUint, ParseBigIntError};
    use crate::rounding::RoundingMode;

    // ------------------------------------------------------------------ C06: digit-pair primitive, all 4200 tuples
    fn mode_of(k: u8) -> RoundingMode {
        match k { 0 => RoundingMode::Up, 1 => RoundingMode::Down, 2 => RoundingMode::Ceiling, 3 => RoundingMode::Floor,
                  4 => RoundingMode::HalfUp, 5 => RoundingMode::HalfDown, _ => RoundingMode::HalfEven }
    }
    /// the mode table of the RoundingMode documentation, written independently of round_pair
    fn table(mode: RoundingMode, neg: bool, l: u8, r: u8, tz: bool) -> u8 {
        if r == 0 && tz { return l; }
        // c: sign of (discarded tail - half unit)
        let c: i8 = if r < 5 { -1 } else if r > 5 { 1 } else if tz { 0 } else { 1 };
        let up = match mode {
            RoundingMode::Up => true,
            RoundingMode::Down => false,
            RoundingMode::Ceiling => !neg,
            RoundingMode::Floor => neg,
            RoundingMode::HalfUp => c >= 0,
            RoundingMode::HalfDown => c > 0,
            RoundingMode::HalfEven => c > 0 || (c == 0 && l % 2 == 1),
        };
        if up { l + 1 } else { l }
    }
    #[kani::proof]
    fn round_pair_table() {
        let m: u8 = kani::any(); kani::assume(m < 7);
        let s: u8 = kani::any(); kani::assume(s < 3);
        let l: u8 = kani::any(); kani::assume(l <= 9);
        let r: u8 = kani::any(); kani::assume(r <= 9);
        let tz: bool = kani::any();
        let sign = match s { 0 => Sign::Minus, 1 => Sign::NoSign, _ => Sign::Plus };
        let got = mode_of(m).round_pair(sign, (l, r), tz);
        assert!(got == table(mode_of(m), s == 0, l, r, tz));
    }

    // ------------------------------------------------------------------ C02/C01: diff / checked_diff at i64 (contracts assumed by Verus)
    #[kani::proof]
    fn checked_diff_i64() {
        let a: i64 = kani::any();
        let b: i64 = kani::any();
        let (ord, d) = arithmetic::checked_diff(a, b);
        assert!(ord == a.cmp(&b));
        let wide = (a as i128 - b as i128).abs();
        if wide <= i64::MAX as i128 { assert!(d == Some(wide as u64)); } else { assert!(d.is_none()); }
    }
    #[kani::proof]
    fn diff_i64() {
        let a: i64 = kani::any();
        let b: i64 = kani::any();
        let wide = (a as i128 - b as i128).abs();
        kani::assume(wide <= i64::MAX as i128);
        let (ord, d) = arithmetic::diff(a, b);
        assert!(ord == a.cmp(&b));
        assert!(d as i128 == wide);
    }

    // ------------------------------------------------------------------ carries
    #[kani::proof]
    fn carries() {
        let n: u8 = kani::any();
        let c0: u8 = kani::any();
        if n <= 9 && c0 <= 1 {
            let mut c = c0;
            let r = arithmetic::add_carry(n, &mut c);
            assert!(r as u16 + 10 * c as u16 == n as u16 + c0 as u16 && r <= 9 && c <= 1);
        }
        if n < 20 && (n < 10 || c0 == 0) {
            let mut c = c0;
            let r = arithmetic::store_carry(n, &mut c);
            assert!(r <= 9);
            if n < 10 { assert!(c == c0 && r == n); } else { assert!(c == 1 && r == n - 10); }
        }
    }

    // ------------------------------------------------------------------ float axioms A1 / A2 on bits, scale < 2^16
    #[kani::proof]
    fn a1_digit_estimate() {
        let bits: u64 = kani::any();
        kani::assume(bits < 65536);
        let g = (bits as f64 / stdlib::f64::consts::LOG2_10) as u64;
        // 10^g <= 2^bits  <==>  g * log2(10) <= bits;  U = 3.321928094887362348 >= log2(10) = 3.32192809488736234787...
        // so g * U <= bits is sufficient (and differs from the exact condition by less than 2^16 * 1e-18)
        assert!(g <= bits);
        assert!((g as u128) * 3_321_928_094_887_362_348 <= (bits as u128) * 1_000_000_000_000_000_000);
    }
    #[kani::proof]
    fn a2_log2_scale() {
        let scale: u64 = kani::any();
        kani::assume(scale < 65536);
        let e = (stdlib::f64::consts::LOG2_10 * scale as f64) as u64;
        // 2^e <= 10^scale  <==>  e <= scale * log2(10);  L = 3.321928094887362347 <= log2(10): sufficient
        assert!((e as u128) * 1_000_000_000_000_000_000 <= (scale as u128) * 3_321_928_094_887_362_347);
    }

    // ------------------------------------------------------------------ C14: IEEE field split (all bit patterns)
    #[kani::proof]
    fn split_f32() {
        let bits: u32 = kani::any();
        let f = f32::from_bits(bits);
        kani::assume(!f.is_nan());
        let (frac, pow, sign) = crate::parsing_split_f32(f);
        let e = ((bits >> 23) & 0xff) as i64;
        assert!(frac == (bits & 0x7f_ffff) + (1 << 23));
        assert!(pow == e - 127 - 23);
        assert!((sign == Sign::Minus) == (bits >> 31 == 1));
    }
    #[kani::proof]
    fn split_f64() {
        let bits: u64 = kani::any();
        let f = f64::from_bits(bits);
        kani::assume(!f.is_nan());
        let (frac, pow, sign) = crate::parsing_split_f64(f);
        let e = ((bits >> 52) & 0x7ff) as i64;
        assert!(frac == (bits & 0xf_ffff_ffff_ffff) + (1 << 52));
        assert!(pow == e - 1023 - 52);
        assert!((sign == Sign::Minus) == (bits >> 63 == 1));
    }

    // ------------------------------------------------------------------ C05: parser stand-in (BOUNDED)
    // All strings of length <= 6 (quick: 4) over the alphabet of the property's exhaustive quantifier {0,1,7,+,-,.,e,E,_,x,space},
    // through the real from_str_radix with the big-integer parser replaced by its assumed grammar.  Three harnesses check
    // one aspect each (CBMC slices away what an assertion does not depend on): acceptance, scale, digits handed over.
    static mut SEEN: [u8; 8] = [0; 8];
    static mut SEEN_LEN: usize = 0;
    static mut SEEN_CALLS: usize = 0;

    // assumed grammar of num-bigint 0.4 BigInt::from_str_radix(_, 10): [+-]?[0-9][0-9_]* ; records its argument
    fn stub_bigint_from_str_radix(s: &str, _radix: u32) -> Result<BigInt, ParseBigIntError> {
        let b = s.as_bytes();
        unsafe {
            SEEN_CALLS += 1;
            SEEN_LEN = b.len();
            let mut k = 0;
            while k < b.len() && k < 8 { SEEN[k] = b[k]; k += 1; }
        }
        let mut i = 0usize;
        if i < b.len() && (b[i] == b'+' || b[i] == b'-') { i += 1; }
        let mut ok = i < b.len() && b[i].is_ascii_digit();
        while i < b.len() {
            let c = b[i];
            if !(c.is_ascii_digit() || c == b'_') { ok = false; }
            i += 1;
        }
        if ok { Ok(BigInt::zero()) } else { Err(<BigUint as Num>::from_str_radix("x", 10).unwrap_err()) }
    }
    fn stub_format(_args: core::fmt::Arguments) -> String { String::new() }

    /// reference recogniser for the numeral grammar of the property statement, on the bytes b[..n].
    /// Returns None (reject) or Some((expected string handed to the integer parser, its length, scale)).
    fn oracle<const N: usize>(b: &[u8; N], n: usize) -> Option<([u8; 8], usize, i128)> {
        // split at first e/E
        let mut epos = n;
        let mut i = 0;
        while i < n { if (b[i] == b'e' || b[i] == b'E') && epos == n { epos = i; } i += 1; }
        let mut exp: i128 = 0;
        if epos < n {
            let mut j = epos + 1;
            let mut neg = false;
            if j < n && (b[j] == b'+' || b[j] == b'-') { neg = b[j] == b'-'; j += 1; }
            if j >= n { return None; }
            while j < n {
                if !b[j].is_ascii_digit() { return None; }
                exp = exp * 10 + (b[j] - b'0') as i128;
                j += 1;
            }
            if neg { exp = -exp; }
        }
        // base part b[..epos]: optional sign, then digits / '_' with at most one '.', the first of the run is a digit
        let mut out = [0u8; 8];
        let mut m = 0usize;
        let mut k = 0usize;
        if k < epos && (b[k] == b'+' || b[k] == b'-') { out[m] = b[k]; m += 1; k += 1; }
        let mut seen_dot = false;
        let mut frac_digits: i128 = 0;
        let mut first = true;
        let mut any = false;
        while k < epos {
            let c = b[k];
            if c == b'.' {
                if seen_dot { return None; }
                seen_dot = true;
            } else if c.is_ascii_digit() || (c == b'_' && !first) {
                if m < 8 { out[m] = c; m += 1; }
                if seen_dot && c != b'_' { frac_digits += 1; }
                first = false;
                any = true;
            } else {
                return None;
            }
            k += 1;
        }
        if !any { return None; }
        Some((out, m, frac_digits - exp))
    }

    fn parse_upto<const N: usize>(what: u8) { parse_upto_alpha::<N>(what, 0) }

    /// `utf8`: the alphabet is {1 . - e 0xC2 0xBD}: it contains the two-byte character U+00BD (and, as invalid
    /// sequences that are skipped, its lone bytes), so that non-ASCII text next to every structural character is covered
    fn parse_upto_alpha<const N: usize>(what: u8, alpha: u8) {
        let bytes: [u8; N] = kani::any();
        let n: usize = kani::any();
        kani::assume(n <= N);
        let mut q = 0;
        while q < N {
            let c = bytes[q];
            if alpha == 1 {
                kani::assume(c == b'1' || c == b'-' || c == b'.' || c == b'e' || c == 0xC2 || c == 0xBD);
            } else if alpha == 2 {
                // the five structural characters: a digit, the sign, the point, the exponent marker, the separator
                kani::assume(c == b'1' || c == b'-' || c == b'.' || c == b'e' || c == b'_');
            } else {
                kani::assume(c == b'0' || c == b'1' || c == b'7' || c == b'+' || c == b'-' || c == b'.' || c == b'e' || c == b'E' || c == b'_' || c == b'x' || c == b' ');
            }
            q += 1;
        }
        if let Ok(s) = core::str::from_utf8(&bytes[..n]) {
            unsafe { SEEN_CALLS = 0; }
            let r = BigDecimal::from_str_radix(s, 10);
            let want = oracle(&bytes, n);
            if what == 0 {
                // acceptance: a string is accepted exactly when it is a numeral of the grammar
                assert!(r.is_ok() == want.is_some());
            } else if let (Ok(v), Some((digits, m, scale))) = (r, want) {
                if what == 1 {
                    // scale = fraction digits - exponent
                    assert!(v.scale as i128 == scale);
                } else {
                    // the integer parser is handed exactly the sign and digits (with '_') of the numeral, without the '.'
                    unsafe {
                        assert!(SEEN_CALLS == 1 && SEEN_LEN == m);
                        let mut k = 0;
                        while k < m && k < 8 { assert!(SEEN[k] == digits[k]); k += 1; }
                    }
                }
            }
        }
    }

    /// acceptance == grammar (and no panic), all strings up to 4 characters over the 11-symbol alphabet
    #[kani::proof]
    #[kani::unwind(7)]
    #[kani::stub(<BigInt as Num>::from_str_radix, stub_bigint_from_str_radix)]
    #[kani::stub(alloc::fmt::format, stub_format)]
    fn parse_small_4() { parse_upto::<4>(0) }

    /// the same up to 6 characters
    #[kani::proof]
    #[kani::unwind(9)]
    #[kani::stub(<BigInt as Num>::from_str_radix, stub_bigint_from_str_radix)]
    #[kani::stub(alloc::fmt::format, stub_format)]
    fn parse_small_6() { parse_upto::<6>(0) }

    /// scale == fraction digits - exponent, up to 6 characters
    #[kani::proof]
    #[kani::unwind(9)]
    #[kani::stub(<BigInt as Num>::from_str_radix, stub_bigint_from_str_radix)]
    #[kani::stub(alloc::fmt::format, stub_format)]
    fn parse_small_6_scale() { parse_upto::<6>(1) }

    /// the integer parser is handed exactly the sign and digits, up to 6 characters
    #[kani::proof]
    #[kani::unwind(9)]
    #[kani::stub(<BigInt as Num>::from_str_radix, stub_bigint_from_str_radix)]
    #[kani::stub(alloc::fmt::format, stub_format)]
    fn parse_small_6_digits() { parse_upto::<6>(2) }

    /// acceptance up to 8 characters over the five structural characters {1 - . e _}
    #[kani::proof]
    #[kani::unwind(11)]
    #[kani::stub(<BigInt as Num>::from_str_radix, stub_bigint_from_str_radix)]
    #[kani::stub(alloc::fmt::format, stub_format)]
    fn parse_small_8_core() { parse_upto_alpha::<8>(0, 2) }

    /// alphabet with the two-byte character U+00BD, up to 3 bytes
    #[kani::proof]
    #[kani::unwind(6)]
    #[kani::stub(<BigInt as Num>::from_str_radix, stub_bigint_from_str_radix)]
    #[kani::stub(alloc::fmt::format, stub_format)]
    fn parse_small_3_utf8() { parse_upto_alpha::<3>(0, 1) }

    /// the same up to 5 bytes
    #[kani::proof]
    #[kani::unwind(8)]
    #[kani::stub(<BigInt as Num>::from_str_radix, stub_bigint_from_str_radix)]
    #[kani::stub(alloc::fmt::format, stub_format)]
    fn parse_small_5_utf8() { parse_upto_alpha::<5>(0, 1) }

    /// any radix other than 10 is refused, whatever the text (one arbitrary ASCII byte; the refusal happens before the text is looked at)
    #[kani::proof]
    #[kani::unwind(4)]
    #[kani::stub(alloc::fmt::format, stub_format)]
    fn parse_radix_not_10() {
        let b: u8 = kani::any();
        kani::assume(b < 128);
        let bytes = [b];
        let s = core::str::from_utf8(&bytes[..]).unwrap();
        let radix: u32 = kani::any();
        kani::assume(radix != 10);
        assert!(BigDecimal::from_str_radix(s, radix).is_err());
    }
}
// private parsing helpers are reached through these in-crate re-exports (harness only)
#[cfg(kani)] pub(crate) fn parsing_split_f32(f: f32) -> (u32, i64, Sign) { parsing::split_f32_for_kani(f) }
#[cfg(kani)] pub(crate) fn parsing_split_f64(f: f64) -> (u64, i64, Sign) { parsing::split_f64_for_kani(f) }
